#!/bin/sh
# builds the verifier from files on disk only (vendored x/tools)
set -e
cd "$(dirname "$0")/govc"
export GOFLAGS=-mod=vendor GOPROXY=off GOSUMDB=off GOTOOLCHAIN=local
mkdir -p ../bin
go build -o ../bin/govc .
