package updog_test

// Real-code harness for property C15:
//
//   Opening a path that does not exist fails with an error and does not create it.  Opening a bbolt file that is
//   not a complete updog index (no data bucket, missing or undecodable schema, missing or malformed row counter,
//   an undecodable bitmap when preloading) returns an error rather than panicking.  Whenever opening fails, and
//   after Close, the file is released so that it can be opened again immediately, and Close may be called more
//   than once.
//
// Input space: a valid index written by the real IndexWriter is copied and damaged through plain bbolt
// transactions (structurally valid bbolt file, damaged index parts): data bucket {removed, emptied, renamed},
// schema key {removed, empty, truncated to N bytes, garbage, replaced by a nested bucket}, row counter
// {removed, 0/1/3 bytes, 5/8 bytes}, bitmaps {one or all removed / empty / truncated / garbage}; every subset of
// the three keys' damages is combined.  Each file is then driven through a sequence of OpenIndex calls with
// options from {ondemand, preload, cache}; after every step the harness probes the file lock with
// bbolt.Open(Timeout).
//
// Oracle (only what the statement demands):
//   * never a panic, never a hang (watchdog), on any file and any step;
//   * an error is REQUIRED when: the data bucket is missing/renamed/empty; the schema is missing or the harness'
//     own gob decode of the stored bytes into a mirror type fails; the counter is missing or shorter than the 4
//     bytes the writer produces; a stored bitmap cannot be decoded by the harness' own roaring decode (both
//     FromBuffer and ReadFrom fail) AND the open option is preload.  In all other damaged cases (counter longer
//     than 4 bytes, bitmap removed, damaged bitmap without preload) either result is accepted;
//   * after a failed open, and after Close (called twice; the second call must not panic or hang), bbolt.Open on the
//     same path with a 150ms lock timeout must succeed at once;
//   * the undamaged index opens successfully at every step (it "can be opened again immediately");
//   * a nonexistent path yields an error and afterwards still does not exist (and nothing else appeared next to it).

import (
	"bytes"
	"encoding/gob"
	"encoding/json"
	"fmt"
	"math/rand"
	"os"
	"path/filepath"
	"runtime"
	"runtime/debug"
	"sort"
	"strconv"
	"strings"
	"syscall"
	"testing"
	"time"

	"github.com/RoaringBitmap/roaring"
	"github.com/akrennmair/updog"
	"go.etcd.io/bbolt"
)

// ---------------------------------------------------------------------------------------------------------------

type c15Mod struct {
	Mode string `json:"mode"`        // "" = intact; see c15Apply
	N    int    `json:"n,omitempty"` // truncation length / which bitmap
}

type c15Damage struct {
	Bucket  string `json:"bucket,omitempty"` // "" | "remove" | "empty" | "rename"
	Schema  c15Mod `json:"schema"`           // "" | missing | empty | trunc(N) | garbage | subbucket
	Counter c15Mod `json:"counter"`          // "" | missing | len(N)
	Bitmap  c15Mod `json:"bitmap"`           // "" | missing-one | empty-one | trunc-one(N bytes kept) | garbage-one | cookie-one | garbage-all | missing-all
	Which   int    `json:"which,omitempty"`  // index of the damaged bitmap among the V-keys (for *-one)
}

func (d c15Damage) intact() bool {
	return d.Bucket == "" && d.Schema.Mode == "" && d.Counter.Mode == "" && d.Bitmap.Mode == ""
}

type c15Input struct {
	Nonexistent string    `json:"nonexistent,omitempty"` // "" | plain | nodir | dangling-symlink
	Base        string    `json:"base,omitempty"`        // tiny | medium
	Damage      c15Damage `json:"damage"`
	Opens       []string  `json:"opens"` // option used by each OpenIndex step
}

type c15Case struct {
	Property string      `json:"property"`
	What     string      `json:"what"`
	Input    c15Input    `json:"input"`
	Expected interface{} `json:"expected"`
	Got      interface{} `json:"got"`
	Also     []string    `json:"also,omitempty"`
}

type c15Stats struct {
	Cases      int    `json:"cases"`
	Nontrivial int    `json:"distinct_nontrivial"`
	Bound      string `json:"bound"`
	Exhaustive bool   `json:"exhaustive"`
}

type c15Run struct {
	t     *testing.T
	dir   string
	out   string
	n     int
	stats c15Stats
	first *c15Case
	kinds map[string]bool
	also  []string
	bases map[string][]byte
	panics int
}

var c15Base string

func c15Abort(format string, args ...interface{}) {
	fmt.Fprintf(os.Stderr, "C15 HARNESS ABORT (not a property violation): "+format+"\n", args...)
	if c15Base != "" {
		_ = os.RemoveAll(c15Base)
	}
	os.Exit(3)
}

func (r *c15Run) report(kind string, c c15Case) {
	if r.kinds[kind] {
		return
	}
	r.kinds[kind] = true
	c.Property = "C15"
	if r.first == nil {
		r.first = &c
	} else {
		in, _ := json.Marshal(c.Input)
		r.also = append(r.also, fmt.Sprintf("%s: %s input=%s", kind, c.What, in))
		r.first.Also = r.also
	}
	if r.out != "" {
		b, _ := json.Marshal(r.first)
		_ = os.WriteFile(r.out, b, 0644)
	}
	r.t.Logf("C15 VIOLATION [%s]: %s", kind, c.What)
}

func (r *c15Run) writeStats() {
	if p := os.Getenv("VERIF_STATS"); p != "" {
		b, _ := json.Marshal(r.stats)
		_ = os.WriteFile(p, b, 0644)
	}
}

func (r *c15Run) freshDir() string {
	r.n++
	d := filepath.Join(r.dir, fmt.Sprintf("case%06d", r.n))
	if err := os.MkdirAll(d, 0755); err != nil {
		c15Abort("mkdir: %v", err)
	}
	return d
}

// ---------------------------------------------------------------------------------------------------------------

type c15Guard struct {
	Panic    string
	TimedOut bool
}

func c15Guarded(d time.Duration, f func()) c15Guard {
	done := make(chan c15Guard, 1)
	go func() {
		defer func() {
			if rec := recover(); rec != nil {
				st := string(debug.Stack())
				if len(st) > 1400 {
					st = st[:1400]
				}
				done <- c15Guard{Panic: fmt.Sprintf("%v\n%s", rec, st)}
				return
			}
			done <- c15Guard{}
		}()
		f()
	}()
	select {
	case g := <-done:
		return g
	case <-time.After(d):
		return c15Guard{TimedOut: true}
	}
}

func c15Opts(name string) []updog.IndexOption {
	switch name {
	case "ondemand":
		return nil
	case "preload":
		return []updog.IndexOption{updog.WithPreloadedData()}
	case "cache":
		return []updog.IndexOption{updog.WithCache(updog.NewLRUCache(1 << 20))}
	}
	c15Abort("unknown open option %q", name)
	return nil
}

var c15OptNames = []string{"ondemand", "preload", "cache"}

// lockFree: can the file be opened right now?  (bbolt takes an exclusive flock; with a Timeout it gives up.)
func (r *c15Run) lockFree(path string, kind string) (bool, string) {
	timeout := 150 * time.Millisecond
	if r.kinds[kind] {
		// this kind of violation is already reported: do not spend 50ms per file on bbolt's retry loop again, ask the
		// kernel directly (bbolt itself uses flock(LOCK_EX|LOCK_NB) on a fresh descriptor)
		f, err := os.OpenFile(path, os.O_RDWR, 0)
		if err != nil {
			return false, err.Error()
		}
		defer f.Close()
		if err := syscall.Flock(int(f.Fd()), syscall.LOCK_EX|syscall.LOCK_NB); err != nil {
			return false, "flock: " + err.Error()
		}
		_ = syscall.Flock(int(f.Fd()), syscall.LOCK_UN)
		return true, ""
	}
	db, err := bbolt.Open(path, 0644, &bbolt.Options{Timeout: timeout})
	if err != nil {
		return false, err.Error()
	}
	_ = db.Close()
	return true, ""
}

// ---------------------------------------------------------------------------------------------------------------
// base indexes, written by the real writer

func (r *c15Run) buildBases() {
	r.bases = map[string][]byte{}
	build := func(name string, rows []map[string]string) {
		p := filepath.Join(r.freshDir(), "base.updog")
		w := updog.NewIndexWriter(p)
		for _, row := range rows {
			if _, err := w.AddRow(row); err != nil {
				c15Abort("AddRow: %v", err)
			}
		}
		if err := w.Flush(); err != nil {
			c15Abort("Flush of base index failed: %v", err)
		}
		b, err := os.ReadFile(p)
		if err != nil {
			c15Abort("read base: %v", err)
		}
		r.bases[name] = b
	}
	build("tiny", []map[string]string{{"a": "1", "b": "x"}, {"a": "2", "b": "x"}, {"a": "1", "b": "y"}})
	var rows []map[string]string
	for i := 0; i < 400; i++ {
		rows = append(rows, map[string]string{"a": "v" + strconv.Itoa(i%50), "b": "w" + strconv.Itoa((i/7)%3), "c": "u" + strconv.Itoa(i)})
	}
	build("medium", rows)
}

// mirror of the stored schema, for the harness' own decodability check
type c15RefColumn struct{ Values map[string]uint64 }
type c15RefSchema struct{ Columns map[string]*c15RefColumn }

func c15SchemaUndecodable(b []byte) (undecodable bool) {
	defer func() {
		if recover() != nil {
			undecodable = true
		}
	}()
	var s c15RefSchema
	return gob.NewDecoder(bytes.NewReader(b)).Decode(&s) != nil
}

func c15BitmapUndecodable(b []byte) bool {
	try := func(f func() error) (failed bool) {
		defer func() {
			if recover() != nil {
				failed = true
			}
		}()
		return f() != nil
	}
	f1 := try(func() error { _, err := roaring.New().FromBuffer(append([]byte(nil), b...)); return err })
	f2 := try(func() error { _, err := roaring.New().ReadFrom(bytes.NewReader(append([]byte(nil), b...))); return err })
	return f1 && f2
}

type c15Expect struct {
	MustErrAlways  bool   // for every option
	MustErrPreload bool   // only with preload
	Why            string // which clause of the statement
}

// c15Apply damages the bbolt file at path and returns what the statement demands for it.
func c15Apply(path string, d c15Damage) c15Expect {
	var exp c15Expect
	why := func(s string, always bool) {
		if always {
			if !exp.MustErrAlways {
				exp.Why = s
			}
			exp.MustErrAlways = true
		} else {
			if !exp.MustErrAlways && !exp.MustErrPreload {
				exp.Why = s
			}
			exp.MustErrPreload = true
		}
	}
	db, err := bbolt.Open(path, 0644, &bbolt.Options{Timeout: 2 * time.Second, NoSync: true})
	if err != nil {
		c15Abort("cannot open copy for damaging: %v", err)
	}
	err = db.Update(func(tx *bbolt.Tx) error {
		data := tx.Bucket([]byte("data"))
		if data == nil {
			c15Abort("base index has no data bucket: file format changed, harness must be adapted")
		}
		var vkeys [][]byte
		_ = data.ForEach(func(k, v []byte) error {
			if len(k) == 9 && k[0] == 'V' {
				vkeys = append(vkeys, append([]byte(nil), k...))
			}
			return nil
		})
		if data.Get([]byte{'S'}) == nil || data.Get([]byte{'I'}) == nil || len(vkeys) == 0 {
			c15Abort("base index lacks S/I/V keys: file format changed, harness must be adapted")
		}
		if c15SchemaUndecodable(data.Get([]byte{'S'})) {
			c15Abort("harness' mirror schema type cannot decode the intact schema")
		}

		// schema
		sch := append([]byte(nil), data.Get([]byte{'S'})...)
		switch d.Schema.Mode {
		case "":
		case "missing":
			if err := data.Delete([]byte{'S'}); err != nil {
				return err
			}
			why("schema missing", true)
		case "subbucket":
			if err := data.Delete([]byte{'S'}); err != nil {
				return err
			}
			if _, err := data.CreateBucket([]byte{'S'}); err != nil {
				return err
			}
			why("schema missing (key S is a nested bucket, not a value)", true)
		case "empty", "trunc", "garbage":
			var nv []byte
			switch d.Schema.Mode {
			case "empty":
				nv = []byte{}
			case "trunc":
				n := d.Schema.N
				if n >= len(sch) {
					n = len(sch) - 1
				}
				nv = sch[:n]
			case "garbage":
				nv = bytes.Repeat([]byte{0xff, 0x00, 0x7f, 0x80}, len(sch)/4+1)
			}
			if err := data.Put([]byte{'S'}, nv); err != nil {
				return err
			}
			if c15SchemaUndecodable(nv) {
				why(fmt.Sprintf("schema undecodable (%s, %d bytes; encoding/gob rejects it)", d.Schema.Mode, len(nv)), true)
			}
		default:
			c15Abort("unknown schema damage %q", d.Schema.Mode)
		}

		// counter
		switch d.Counter.Mode {
		case "":
		case "missing":
			if err := data.Delete([]byte{'I'}); err != nil {
				return err
			}
			why("row counter missing", true)
		case "len":
			nv := bytes.Repeat([]byte{0, 0, 0, 3, 0, 0, 0, 3}, 2)[:d.Counter.N]
			if err := data.Put([]byte{'I'}, nv); err != nil {
				return err
			}
			if d.Counter.N < 4 {
				why(fmt.Sprintf("row counter malformed (%d bytes, the writer stores 4)", d.Counter.N), true)
			}
		default:
			c15Abort("unknown counter damage %q", d.Counter.Mode)
		}

		// bitmaps
		which := d.Which
		if which < 0 || which >= len(vkeys) {
			which = len(vkeys) - 1
		}
		one := vkeys[which]
		orig := append([]byte(nil), data.Get(one)...)
		putOne := func(nv []byte) error {
			if err := data.Put(one, nv); err != nil {
				return err
			}
			if c15BitmapUndecodable(nv) {
				why(fmt.Sprintf("bitmap undecodable (%s, %d bytes; roaring rejects it)", d.Bitmap.Mode, len(nv)), false)
			}
			return nil
		}
		switch d.Bitmap.Mode {
		case "":
		case "missing-one":
			if err := data.Delete(one); err != nil {
				return err
			}
		case "missing-all":
			for _, k := range vkeys {
				if err := data.Delete(k); err != nil {
					return err
				}
			}
		case "empty-one":
			if err := putOne([]byte{}); err != nil {
				return err
			}
		case "trunc-one":
			n := d.Bitmap.N
			if n >= len(orig) {
				n = len(orig) - 1
			}
			if err := putOne(orig[:n]); err != nil {
				return err
			}
		case "garbage-one":
			if err := putOne(bytes.Repeat([]byte{0xff}, len(orig)+3)); err != nil {
				return err
			}
		case "cookie-one":
			// valid "no run containers" cookie 12346, 65536 containers announced, no data
			if err := putOne([]byte{0x3a, 0x30, 0x00, 0x00, 0x00, 0x00, 0x01, 0x00}); err != nil {
				return err
			}
		case "garbage-all":
			for _, k := range vkeys {
				one = k
				if err := putOne([]byte("this is not a roaring bitmap")); err != nil {
					return err
				}
			}
		default:
			c15Abort("unknown bitmap damage %q", d.Bitmap.Mode)
		}

		// bucket level
		switch d.Bucket {
		case "":
		case "remove":
			if err := tx.DeleteBucket([]byte("data")); err != nil {
				return err
			}
			exp = c15Expect{MustErrAlways: true, Why: "no data bucket"}
		case "empty":
			if err := tx.DeleteBucket([]byte("data")); err != nil {
				return err
			}
			if _, err := tx.CreateBucket([]byte("data")); err != nil {
				return err
			}
			exp = c15Expect{MustErrAlways: true, Why: "data bucket empty: schema and row counter missing"}
		case "rename":
			nb, err := tx.CreateBucket([]byte("datb"))
			if err != nil {
				return err
			}
			if err := data.ForEach(func(k, v []byte) error {
				if v == nil {
					return nil
				}
				return nb.Put(k, v)
			}); err != nil {
				return err
			}
			if err := tx.DeleteBucket([]byte("data")); err != nil {
				return err
			}
			exp = c15Expect{MustErrAlways: true, Why: "no data bucket (the only bucket is called datb)"}
		default:
			c15Abort("unknown bucket damage %q", d.Bucket)
		}
		return nil
	})
	if err != nil {
		c15Abort("damaging failed: %v", err)
	}
	if err := db.Close(); err != nil {
		c15Abort("close after damaging: %v", err)
	}
	return exp
}

// ---------------------------------------------------------------------------------------------------------------
// one sequence on one damaged file

func (r *c15Run) runDamaged(in c15Input) {
	r.stats.Cases++
	if !in.Damage.intact() {
		r.stats.Nontrivial++
	}
	base, ok := r.bases[in.Base]
	if !ok {
		c15Abort("unknown base %q", in.Base)
	}
	path := filepath.Join(r.freshDir(), "index.updog")
	if err := os.WriteFile(path, base, 0644); err != nil {
		c15Abort("copy base: %v", err)
	}
	exp := c15Apply(path, in.Damage)

	for step, opt := range in.Opens {
		mustErr := exp.MustErrAlways || (exp.MustErrPreload && opt == "preload")
		mustOpen := in.Damage.intact()
		where := fmt.Sprintf("step %d of %v (option %s)", step+1, in.Opens, opt)

		var idx *updog.Index
		var err error
		g := c15Guarded(10*time.Second, func() { idx, err = updog.OpenIndex(path, c15Opts(opt)...) })
		if g.Panic != "" {
			// the panicking call leaked its file descriptor and mmap; let the os.File finalizers reclaim descriptors
			// from time to time so that a long search on a defective tree does not run into RLIMIT_NOFILE
			r.panics++
			if r.panics%200 == 0 {
				runtime.GC()
				runtime.GC()
			}
		}
		switch {
		case g.Panic != "":
			what := "OpenIndex panics on a bbolt file that is not a complete index"
			if exp.Why != "" {
				what += " (" + exp.Why + ")"
			}
			cause := exp.Why
			if i := strings.Index(cause, " ("); i >= 0 {
				cause = cause[:i]
			}
			if i := strings.Index(cause, ":"); i >= 0 {
				cause = cause[:i]
			}
			r.report("panic/"+cause, c15Case{What: what + ", " + where, Input: in,
				Expected: "an error (or, where the statement does not require rejection, a successful open); never a panic", Got: map[string]string{"panic": g.Panic}})
			return
		case g.TimedOut:
			r.report("hang", c15Case{What: "OpenIndex does not return within 10s, " + where, Input: in,
				Expected: "OpenIndex returns", Got: "no return within 10s (file lock still held by an earlier step?)"})
			return
		case err == nil && idx == nil:
			r.report("nil-nil", c15Case{What: "OpenIndex returned neither an index nor an error, " + where, Input: in, Expected: "index or error", Got: "(nil, nil)"})
			return
		case err == nil && mustErr:
			r.report("accepted", c15Case{What: "OpenIndex accepts a file that is not a complete index (" + exp.Why + "), " + where, Input: in,
				Expected: "an error", Got: "opened without error"})
			// fall through to the close checks with the handle we got
		case err != nil && mustOpen:
			r.report("valid-rejected", c15Case{What: "the undamaged index cannot be opened (again), " + where, Input: in,
				Expected: "successful open: after a failed open / after Close the file can be opened again immediately", Got: err.Error()})
			return
		}

		if err != nil {
			if free, msg := r.lockFree(path, "not-released-after-failure"); !free {
				r.report("not-released-after-failure", c15Case{
					What:  "OpenIndex returned an error (" + err.Error() + ") but keeps the file locked: the next open of the same path blocks, " + where,
					Input: in, Expected: "after a failed open, bbolt.Open(path, Timeout=150ms) succeeds at once",
					Got: map[string]string{"OpenIndex_error": err.Error(), "bbolt.Open": msg}})
				return
			}
			continue
		}

		// opened: Close twice, then the file must be free
		var cerr1, cerr2 error
		g = c15Guarded(10*time.Second, func() { cerr1 = idx.Close() })
		if g.Panic != "" || g.TimedOut {
			r.report("close-panic", c15Case{What: "Close panics or hangs, " + where, Input: in, Expected: "Close returns", Got: fmt.Sprintf("%+v", g)})
			return
		}
		g = c15Guarded(10*time.Second, func() { cerr2 = idx.Close() })
		if g.Panic != "" || g.TimedOut {
			r.report("second-close-panic", c15Case{What: "the second Close on the same index panics or hangs, " + where, Input: in,
				Expected: "Close may be called more than once", Got: fmt.Sprintf("%+v", g)})
			return
		}
		_ = cerr2
		if cerr1 != nil {
			r.report("close-error", c15Case{What: "Close of a successfully opened index returns an error, " + where, Input: in, Expected: "nil", Got: cerr1.Error()})
			return
		}
		if free, msg := r.lockFree(path, "not-released-after-close"); !free {
			r.report("not-released-after-close", c15Case{What: "after Close the file is still locked, " + where, Input: in,
				Expected: "bbolt.Open(path, Timeout=150ms) succeeds at once", Got: msg})
			return
		}
	}
}

func c15ListDir(dir string) []string {
	es, err := os.ReadDir(dir)
	if err != nil {
		return []string{"<unreadable: " + err.Error() + ">"}
	}
	var names []string
	for _, e := range es {
		names = append(names, e.Name())
	}
	sort.Strings(names)
	return names
}

func (r *c15Run) runNonexistent(in c15Input) {
	r.stats.Cases++
	r.stats.Nontrivial++
	dir := r.freshDir()
	path := filepath.Join(dir, "missing.updog")
	target := ""
	switch in.Nonexistent {
	case "plain":
	case "nodir":
		path = filepath.Join(dir, "no-such-dir", "missing.updog")
	case "dangling-symlink":
		target = filepath.Join(dir, "target-of-link")
		if err := os.Symlink(target, path); err != nil {
			c15Abort("symlink: %v", err)
		}
	default:
		c15Abort("unknown nonexistent kind %q", in.Nonexistent)
	}
	before := c15ListDir(dir)
	for step, opt := range in.Opens {
		where := fmt.Sprintf("step %d of %v (option %s), kind %s", step+1, in.Opens, opt, in.Nonexistent)
		var idx *updog.Index
		var err error
		g := c15Guarded(10*time.Second, func() { idx, err = updog.OpenIndex(path, c15Opts(opt)...) })
		// whatever OpenIndex did: the path must still not exist and nothing may have appeared next to it
		after := c15ListDir(dir)
		statTarget := path
		if target != "" {
			statTarget = target
		}
		_, serr := os.Stat(statTarget)
		if serr == nil || fmt.Sprint(before) != fmt.Sprint(after) {
			r.report("nonexistent-created", c15Case{What: "OpenIndex on a nonexistent path created it, " + where, Input: in,
				Expected: map[string]interface{}{"dir": before, "stat": "not exist", "OpenIndex": "error"},
				Got:      map[string]interface{}{"dir": after, "stat_error": fmt.Sprint(serr), "OpenIndex": fmt.Sprintf("err=%v guard=%+v", err, g)}})
			return
		}
		if g.Panic != "" || g.TimedOut {
			r.report("nonexistent-panic", c15Case{What: "OpenIndex on a nonexistent path panics or hangs, " + where, Input: in, Expected: "an error", Got: fmt.Sprintf("%+v", g)})
			return
		}
		if err == nil {
			if idx != nil {
				c15Guarded(5*time.Second, func() { _ = idx.Close() })
			}
			r.report("nonexistent-accepted", c15Case{What: "OpenIndex on a nonexistent path succeeds, " + where, Input: in, Expected: "an error", Got: "no error"})
			return
		}
	}
}

// ---------------------------------------------------------------------------------------------------------------

func TestVerifHarnessC15(t *testing.T) {
	bound := os.Getenv("VERIF_BOUND")
	if bound == "" {
		bound = "quick"
	}
	seed := int64(1)
	if s := os.Getenv("VERIF_SEED"); s != "" {
		if v, err := strconv.ParseInt(s, 10, 64); err == nil {
			seed = v
		}
	}
	r := &c15Run{t: t, dir: t.TempDir(), out: os.Getenv("VERIF_OUT"), kinds: map[string]bool{}}
	c15Base = r.dir
	defer r.writeStats()
	r.buildBases()

	if os.Getenv("VERIF_MODE") == "replay" {
		r.stats.Bound = "replay of one case"
		b, err := os.ReadFile(os.Getenv("VERIF_CASE"))
		if err != nil {
			c15Abort("cannot read VERIF_CASE: %v", err)
		}
		var c c15Case
		if err := json.Unmarshal(b, &c); err != nil {
			c15Abort("cannot parse VERIF_CASE: %v", err)
		}
		if len(c.Input.Opens) == 0 {
			c.Input.Opens = []string{"ondemand"}
		}
		if c.Input.Nonexistent != "" {
			r.runNonexistent(c.Input)
		} else {
			if c.Input.Base == "" {
				c.Input.Base = "tiny"
			}
			r.runDamaged(c.Input)
		}
		r.writeStats()
		if r.first != nil {
			t.Fatalf("C15 violated (replay): %s", r.first.What)
		}
		return
	}

	// ---- the damage alphabet
	schemaLen := func(base string) int {
		// length of the stored schema, to place truncation points
		p := filepath.Join(r.freshDir(), "probe.updog")
		_ = os.WriteFile(p, r.bases[base], 0644)
		db, err := bbolt.Open(p, 0644, &bbolt.Options{Timeout: time.Second, ReadOnly: true})
		if err != nil {
			c15Abort("probe open: %v", err)
		}
		defer db.Close()
		n := 0
		_ = db.View(func(tx *bbolt.Tx) error { n = len(tx.Bucket([]byte("data")).Get([]byte{'S'})); return nil })
		return n
	}
	sl := map[string]int{"tiny": schemaLen("tiny"), "medium": schemaLen("medium")}

	schemaMods := func(base string, all bool) []c15Mod {
		n := sl[base]
		m := []c15Mod{{Mode: "missing"}, {Mode: "empty"}, {Mode: "trunc", N: 1}, {Mode: "trunc", N: n / 2}, {Mode: "trunc", N: n - 1}, {Mode: "garbage"}, {Mode: "subbucket"}}
		if all {
			step := 1
			if n > 200 {
				step = n / 60 // long schemas: about 60 evenly spread truncation points
			}
			for i := 2; i < n-1; i += step {
				if i != n/2 {
					m = append(m, c15Mod{Mode: "trunc", N: i})
				}
			}
		}
		return m
	}
	counterMods := []c15Mod{{Mode: "missing"}, {Mode: "len", N: 0}, {Mode: "len", N: 1}, {Mode: "len", N: 3}, {Mode: "len", N: 5}, {Mode: "len", N: 8}}
	bitmapMods := []c15Mod{{Mode: "garbage-one"}, {Mode: "empty-one"}, {Mode: "trunc-one", N: 1}, {Mode: "trunc-one", N: 5}, {Mode: "trunc-one", N: 1 << 20},
		{Mode: "cookie-one"}, {Mode: "garbage-all"}, {Mode: "missing-one"}, {Mode: "missing-all"}}
	bucketMods := []string{"remove", "empty", "rename"}

	var pairs, same [][]string
	for _, a := range c15OptNames {
		same = append(same, []string{a, a})
		for _, b := range c15OptNames {
			pairs = append(pairs, []string{a, b})
		}
	}
	var triples [][]string
	for _, a := range c15OptNames {
		for _, b := range c15OptNames {
			for _, c := range c15OptNames {
				triples = append(triples, []string{a, b, c})
			}
		}
	}

	// ---- 1. cheapest, most likely to fail
	r.runDamaged(c15Input{Base: "tiny", Damage: c15Damage{Bucket: "remove"}, Opens: []string{"ondemand", "ondemand"}})
	r.runDamaged(c15Input{Base: "tiny", Damage: c15Damage{Counter: c15Mod{Mode: "missing"}}, Opens: []string{"ondemand", "ondemand"}})
	r.runDamaged(c15Input{Base: "tiny", Damage: c15Damage{Bitmap: c15Mod{Mode: "garbage-one"}}, Opens: []string{"preload", "ondemand"}})
	r.runDamaged(c15Input{Base: "tiny", Damage: c15Damage{Schema: c15Mod{Mode: "missing"}}, Opens: []string{"ondemand", "ondemand"}})
	for _, kind := range []string{"plain", "nodir", "dangling-symlink"} {
		for _, p := range pairs {
			r.runNonexistent(c15Input{Nonexistent: kind, Opens: p})
		}
	}
	// the undamaged index: open/close/close/open/close/close/open
	for _, base := range []string{"tiny", "medium"} {
		for _, tr := range triples {
			r.runDamaged(c15Input{Base: base, Opens: tr})
		}
	}

	// ---- 2. every single damage x every pair of options
	single := func(base string, seqs [][]string, allTrunc bool) {
		for _, b := range bucketMods {
			for _, s := range seqs {
				r.runDamaged(c15Input{Base: base, Damage: c15Damage{Bucket: b}, Opens: s})
			}
		}
		for _, m := range schemaMods(base, allTrunc) {
			for _, s := range seqs {
				r.runDamaged(c15Input{Base: base, Damage: c15Damage{Schema: m}, Opens: s})
			}
		}
		for _, m := range counterMods {
			for _, s := range seqs {
				r.runDamaged(c15Input{Base: base, Damage: c15Damage{Counter: m}, Opens: s})
			}
		}
		for _, m := range bitmapMods {
			for _, which := range []int{0, -1} {
				for _, s := range seqs {
					r.runDamaged(c15Input{Base: base, Damage: c15Damage{Bitmap: m, Which: which}, Opens: s})
				}
			}
		}
	}
	single("tiny", pairs, false)
	single("medium", same, false)

	// ---- 3. every subset of the parts damaged together (product of the alphabets, including "intact")
	product := func(base string, seqs [][]string, sm, cm, bm []c15Mod) {
		for _, s := range append([]c15Mod{{}}, sm...) {
			for _, c := range append([]c15Mod{{}}, cm...) {
				for _, b := range append([]c15Mod{{}}, bm...) {
					n := 0
					for _, m := range []c15Mod{s, c, b} {
						if m.Mode != "" {
							n++
						}
					}
					if n < 2 {
						continue // covered above
					}
					for _, q := range seqs {
						r.runDamaged(c15Input{Base: base, Damage: c15Damage{Schema: s, Counter: c, Bitmap: b}, Opens: q})
					}
				}
			}
		}
	}
	if bound == "thorough" {
		product("tiny", pairs, schemaMods("tiny", false), counterMods, bitmapMods)
		product("medium", same, schemaMods("medium", false), counterMods, bitmapMods)
		single("tiny", triples, true)
		single("medium", pairs, true)
		// truncations of a bitmap at every length, every bitmap of the tiny index
		for which := 0; which < 4; which++ {
			for n := 0; n < 40; n++ {
				for _, s := range [][]string{{"preload", "preload"}, {"preload", "ondemand"}} {
					r.runDamaged(c15Input{Base: "tiny", Damage: c15Damage{Bitmap: c15Mod{Mode: "trunc-one", N: n}, Which: which}, Opens: s})
				}
			}
		}
		// seeded random: bucket-level damage on top of random key damage, random sequences of length 2..4
		rng := rand.New(rand.NewSource(seed))
		pick := func(ms []c15Mod) c15Mod {
			if rng.Intn(3) == 0 {
				return c15Mod{}
			}
			return ms[rng.Intn(len(ms))]
		}
		for i := 0; i < 1500; i++ {
			base := []string{"tiny", "medium"}[rng.Intn(2)]
			d := c15Damage{Schema: pick(schemaMods(base, true)), Counter: pick(counterMods), Bitmap: pick(bitmapMods), Which: rng.Intn(6) - 1}
			if rng.Intn(8) == 0 {
				d.Bucket = bucketMods[rng.Intn(3)]
			}
			var seq []string
			for j := 2 + rng.Intn(3); j > 0; j-- {
				seq = append(seq, c15OptNames[rng.Intn(3)])
			}
			r.runDamaged(c15Input{Base: base, Damage: d, Opens: seq})
		}
	} else {
		product("tiny", same, []c15Mod{{Mode: "missing"}, {Mode: "trunc", N: sl["tiny"] / 2}, {Mode: "garbage"}},
			counterMods, []c15Mod{{Mode: "garbage-one"}, {Mode: "trunc-one", N: 5}, {Mode: "missing-one"}, {Mode: "garbage-all"}})
	}

	r.stats.Exhaustive = false
	r.stats.Bound = fmt.Sprintf("bound=%s seed=%d: nonexistent paths (plain, missing directory, dangling symlink) x 9 option pairs; undamaged tiny (3 rows) and medium (400 rows, 453 values) index x 27 open/close/close sequences; "+
		"every single damage (bucket removed/emptied/renamed; schema missing/empty/truncated/garbage/nested bucket; counter missing/0/1/3/5/8 bytes; bitmap garbage/empty/truncated/bad cookie/removed, first and last key) x option sequences; "+
		"all combinations of schema x counter x bitmap damages (%s); each step followed by a bbolt.Open(Timeout=150ms) lock probe, successful opens by Close, Close",
		bound, seed, map[string]string{"quick": "reduced alphabet, same-option pairs", "thorough": "full alphabet, 9 option pairs on tiny, all truncation lengths, 1500 seeded random damage/sequence combinations"}[bound])
	r.writeStats()
	if r.first != nil {
		var ks []string
		for k := range r.kinds {
			ks = append(ks, k)
		}
		sort.Strings(ks)
		t.Fatalf("C15 violated: %s (kinds found: %v)", r.first.What, ks)
	}
}
