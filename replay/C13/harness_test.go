package main

// Harness for property C13 — "gRPC service answers each query of a batch like the library, in order".
//
// Observation points
//   via "rpc"     : a real `updog server` process (this test binary re-executed in child mode, where it calls
//                   the repository's serverCmd with the chosen --enable-cache/--max-cache-size/
//                   --enable-preloaded-data settings) is queried over gRPC on 127.0.0.1.
//   via "handler" : (&server{idx}).Query is called directly (fast, large volume).
//   via "sql"     : database/sql with DSN grpc://host:port against such a server process, compared with
//                   database/sql with DSN file:<copy of the same index file>.
//   via "convert" : ToProtobufResult -> wire -> ToResult round trip and ToQuery against the harness' own conversion.
//
// Oracle. Every query of a batch is converted by the harness itself (not by internal/convert) into a library
// query and executed with updog.Index.Execute on a byte-identical copy of the index file, opened with the same
// cache/preload setting and fed the same query history (so cache-key collisions, a matter of another property,
// cancel out). The response must hold one result per query, in order, tagged id (or 1-based position if id is 0),
// with equal total count and equal groups (columns, values, counts, order). A batch with a query the library
// rejects (unknown column in the expression or in group-by, or no expression at all) must make the call fail.
//
// VERIF_HINT containing "utf8only" leaves out the datasets with values that are not valid UTF-8.

import (
	"bytes"
	"context"
	"database/sql"
	"encoding/json"
	"fmt"
	"io"
	"math/rand"
	"net"
	"os"
	"os/exec"
	"path/filepath"
	"reflect"
	"strconv"
	"strings"
	"sync"
	"testing"
	"time"

	"github.com/akrennmair/updog"
	"github.com/akrennmair/updog/internal/convert"
	proto "github.com/akrennmair/updog/proto/updog/v1"
	"google.golang.org/grpc"
	"google.golang.org/grpc/credentials/insecure"
	gproto "google.golang.org/protobuf/proto"
)

// ---------------------------------------------------------------------------------------------
// case format

type c13SrvOpt struct {
	Cache     bool   `json:"cache"`
	CacheSize uint64 `json:"cache_size"`
	Preload   bool   `json:"preload"`
}

func (o c13SrvOpt) libOptions() []updog.IndexOption {
	var opts []updog.IndexOption
	if o.Cache {
		opts = append(opts, updog.WithCache(updog.NewLRUCache(o.CacheSize)))
	}
	if o.Preload {
		opts = append(opts, updog.WithPreloadedData())
	}
	return opts
}

type c13Q struct {
	ID      int32    `json:"id"`
	Expr    *c13Expr `json:"expr"` // null = query message without expression
	GroupBy []string `json:"group_by"`
}

type c13SQLStep struct {
	Query   c13Str   `json:"query"`
	Args    []c13Str `json:"args"`
	Prepare bool     `json:"prepare"`
}

type c13Field struct {
	Column c13Str `json:"column"`
	Value  c13Str `json:"value"`
}

type c13ResGroup struct {
	Fields []c13Field `json:"fields"`
	Count  uint64     `json:"count"`
}

type c13Res struct {
	ID     int32         `json:"id"`
	Count  uint64        `json:"total_count"`
	Groups []c13ResGroup `json:"groups"`
}

type c13Case struct {
	Via     string       `json:"via"` // rpc | handler | sql | convert
	Rows    []c13Row     `json:"rows,omitempty"`
	Server  c13SrvOpt    `json:"server"`
	Batches [][]c13Q     `json:"batches,omitempty"` // rpc/handler: sent in this order to one server; convert: queries to convert
	SQL     []c13SQLStep `json:"sql,omitempty"`
	Results []c13Res     `json:"results,omitempty"` // convert: results to round-trip
}

type c13Problem struct {
	What     string
	Index    int // failing batch / step
	Expected interface{}
	Got      interface{}
}

const c13CallTimeout = 10 * time.Second

// ---------------------------------------------------------------------------------------------
// own conversions

func c13ToPB(e *c13Expr) *proto.Query_Expression {
	if e == nil {
		return nil
	}
	switch e.Op {
	case "eq":
		return &proto.Query_Expression{Value: &proto.Query_Expression_Eq{Eq: &proto.Query_Expression_Equal{Column: e.Col, Value: string(e.Val), Placeholder: int32(e.Ph)}}}
	case "not":
		return &proto.Query_Expression{Value: &proto.Query_Expression_Not_{Not: &proto.Query_Expression_Not{Expr: c13ToPB(e.Kids[0])}}}
	case "and":
		x := &proto.Query_Expression_And{}
		for _, k := range e.Kids {
			x.Exprs = append(x.Exprs, c13ToPB(k))
		}
		return &proto.Query_Expression{Value: &proto.Query_Expression_And_{And: x}}
	case "or":
		x := &proto.Query_Expression_Or{}
		for _, k := range e.Kids {
			x.Exprs = append(x.Exprs, c13ToPB(k))
		}
		return &proto.Query_Expression{Value: &proto.Query_Expression_Or_{Or: x}}
	}
	panic("bad op")
}

func c13Request(batch []c13Q) *proto.QueryRequest {
	req := &proto.QueryRequest{}
	for _, q := range batch {
		req.Queries = append(req.Queries, &proto.Query{Id: q.ID, Expr: c13ToPB(q.Expr), GroupBy: append([]string(nil), q.GroupBy...)})
	}
	return req
}

func c13ResFromLib(r *updog.Result, id int32) c13Res {
	out := c13Res{ID: id, Count: r.Count, Groups: []c13ResGroup{}}
	for _, g := range r.Groups {
		gg := c13ResGroup{Count: g.Count, Fields: []c13Field{}}
		for _, f := range g.Fields {
			gg.Fields = append(gg.Fields, c13Field{c13Str(f.Column), c13Str(f.Value)})
		}
		out.Groups = append(out.Groups, gg)
	}
	return out
}

func c13ResFromPB(r *proto.Result) c13Res {
	out := c13Res{ID: r.GetQueryId(), Count: r.GetTotalCount(), Groups: []c13ResGroup{}}
	for _, g := range r.GetGroups() {
		gg := c13ResGroup{Count: g.GetCount(), Fields: []c13Field{}}
		for _, f := range g.GetFields() {
			gg.Fields = append(gg.Fields, c13Field{c13Str(f.GetColumn()), c13Str(f.GetValue())})
		}
		out.Groups = append(out.Groups, gg)
	}
	return out
}

// ---------------------------------------------------------------------------------------------
// child process: a real `updog server`

func c13MaybeChild() {
	if os.Getenv("VERIF_C13_CHILD") != "1" {
		return
	}
	go func() { // the parent keeps our stdin open; EOF means the parent is gone
		io.Copy(io.Discard, os.Stdin)
		os.Exit(0)
	}()
	size, _ := strconv.ParseUint(os.Getenv("VERIF_C13_CACHESIZE"), 10, 64)
	cfg := &serverConfig{
		addr:                os.Getenv("VERIF_C13_ADDR"),
		debugAddr:           "127.0.0.1:0",
		indexFile:           os.Getenv("VERIF_C13_FILE"),
		enableCache:         os.Getenv("VERIF_C13_CACHE") == "1",
		maxCacheSize:        size,
		enablePreloadedData: os.Getenv("VERIF_C13_PRELOAD") == "1",
	}
	err := serverCmd(cfg)
	fmt.Fprintln(os.Stderr, "serverCmd returned:", err)
	os.Exit(3)
}

type c13Server struct {
	cmd    *exec.Cmd
	stdin  io.WriteCloser
	addr   string
	mu     sync.Mutex
	stderr bytes.Buffer
	done   chan struct{}
	conn   *grpc.ClientConn
	client proto.QueryServiceClient
}

type c13LockedWriter struct {
	mu  *sync.Mutex
	buf *bytes.Buffer
}

func (w c13LockedWriter) Write(p []byte) (int, error) {
	w.mu.Lock()
	defer w.mu.Unlock()
	return w.buf.Write(p)
}

func c13FreeAddr() string {
	l, err := net.Listen("tcp", "127.0.0.1:0")
	if err != nil {
		panic(err)
	}
	defer l.Close()
	return l.Addr().String()
}

func c13StartServer(file string, o c13SrvOpt) (*c13Server, error) {
	var lastErr error
	for attempt := 0; attempt < 5; attempt++ {
		s := &c13Server{addr: c13FreeAddr(), done: make(chan struct{})}
		cmd := exec.Command(os.Args[0], "-test.run=^TestVerifHarnessC13$", "-test.timeout=20m")
		b := func(x bool) string {
			if x {
				return "1"
			}
			return "0"
		}
		cmd.Env = append(os.Environ(), "VERIF_C13_CHILD=1", "VERIF_C13_ADDR="+s.addr, "VERIF_C13_FILE="+file,
			"VERIF_C13_CACHE="+b(o.Cache), "VERIF_C13_CACHESIZE="+strconv.FormatUint(o.CacheSize, 10), "VERIF_C13_PRELOAD="+b(o.Preload))
		cmd.Stderr = c13LockedWriter{&s.mu, &s.stderr}
		cmd.Stdout = c13LockedWriter{&s.mu, &s.stderr}
		stdin, err := cmd.StdinPipe()
		if err != nil {
			return nil, err
		}
		s.stdin = stdin
		if err := cmd.Start(); err != nil {
			return nil, err
		}
		s.cmd = cmd
		go func() { cmd.Wait(); close(s.done) }()
		ready := false
		deadline := time.Now().Add(15 * time.Second)
		for time.Now().Before(deadline) && s.alive() {
			c, err := net.DialTimeout("tcp", s.addr, 200*time.Millisecond)
			if err == nil {
				c.Close()
				ready = true
				break
			}
			time.Sleep(5 * time.Millisecond)
		}
		if !ready {
			lastErr = fmt.Errorf("server process did not come up: %s", s.stderrTail())
			s.stop()
			continue
		}
		conn, err := grpc.NewClient(s.addr, grpc.WithTransportCredentials(insecure.NewCredentials()))
		if err != nil {
			s.stop()
			return nil, err
		}
		s.conn, s.client = conn, proto.NewQueryServiceClient(conn)
		ctx, cancel := context.WithTimeout(context.Background(), c13CallTimeout)
		_, err = s.client.Query(ctx, &proto.QueryRequest{}, grpc.WaitForReady(true))
		cancel()
		if err != nil {
			lastErr = fmt.Errorf("server process does not answer an empty request: %v; %s", err, s.stderrTail())
			s.stop()
			continue
		}
		return s, nil
	}
	return nil, lastErr
}

func (s *c13Server) alive() bool {
	select {
	case <-s.done:
		return false
	default:
		return true
	}
}

func (s *c13Server) stderrTail() string {
	s.mu.Lock()
	defer s.mu.Unlock()
	b := s.stderr.Bytes()
	if len(b) > 1500 {
		b = b[len(b)-1500:]
	}
	return string(b)
}

func (s *c13Server) stop() {
	if s.conn != nil {
		s.conn.Close()
	}
	if s.cmd != nil && s.cmd.Process != nil {
		s.cmd.Process.Kill()
	}
	if s.stdin != nil {
		s.stdin.Close()
	}
	select {
	case <-s.done:
	case <-time.After(5 * time.Second):
	}
}

// ---------------------------------------------------------------------------------------------
// running batches

type c13Caller func(req *proto.QueryRequest) (resp *proto.QueryResponse, err error, panicked string)

type c13Env struct {
	baseDir string
	counter int
}

func (env *c13Env) freshDir() string {
	env.counter++
	dir := filepath.Join(env.baseDir, fmt.Sprintf("case%d", env.counter))
	if err := os.MkdirAll(dir, 0o755); err != nil {
		panic(err)
	}
	return dir
}

func c13BuildFiles(dir string, rows []c13Row, names ...string) []string {
	master := filepath.Join(dir, "master.updog")
	if err := c13BuildIndex(master, rows); err != nil {
		panic(fmt.Sprintf("harness: cannot build index: %v", err))
	}
	var out []string
	for _, n := range names {
		p := filepath.Join(dir, n)
		if err := c13CopyFile(p, master); err != nil {
			panic(err)
		}
		out = append(out, p)
	}
	return out
}

// c13Mirror computes the expected outcome of a batch on the reference index (same order, stop at the first
// rejected query, like a sequential evaluation).
func c13Mirror(lib *updog.Index, batch []c13Q) (results []c13Res, invalid string) {
	for i, q := range batch {
		id := q.ID
		if id == 0 {
			id = int32(i + 1)
		}
		if q.Expr == nil {
			return nil, fmt.Sprintf("query #%d has no expression", i+1)
		}
		res, err, panicked := c13LibExec(lib, q.Expr, q.GroupBy)
		if panicked {
			return nil, fmt.Sprintf("query #%d makes the library panic: %v", i+1, err)
		}
		if err != nil {
			return nil, fmt.Sprintf("query #%d is rejected by the library: %v", i+1, err)
		}
		results = append(results, c13ResFromLib(res, id))
	}
	if results == nil {
		results = []c13Res{}
	}
	return results, ""
}

func c13CheckBatch(lib *updog.Index, call c13Caller, batch []c13Q) *c13Problem {
	expRes, invalid := c13Mirror(lib, batch)
	resp, err, panicked := call(c13Request(batch))
	if panicked != "" {
		return &c13Problem{What: "the request handler panicked", Expected: "a response or an error", Got: panicked}
	}
	if invalid != "" {
		if err == nil {
			got := []c13Res{}
			for _, r := range resp.GetResults() {
				got = append(got, c13ResFromPB(r))
			}
			return &c13Problem{What: "a batch with an invalid query was answered with a response instead of an error", Expected: "error: " + invalid, Got: got}
		}
		return nil
	}
	if err != nil {
		return &c13Problem{What: "a batch of valid queries was answered with an error", Expected: expRes, Got: "error: " + err.Error()}
	}
	got := []c13Res{}
	for _, r := range resp.GetResults() {
		got = append(got, c13ResFromPB(r))
	}
	if len(got) != len(expRes) {
		return &c13Problem{What: fmt.Sprintf("the response holds %d results for %d queries", len(got), len(expRes)), Expected: expRes, Got: got}
	}
	for i := range got {
		if got[i].ID != expRes[i].ID {
			return &c13Problem{What: fmt.Sprintf("result #%d carries the wrong query id", i+1), Expected: expRes, Got: got}
		}
		if !reflect.DeepEqual(got[i], expRes[i]) {
			return &c13Problem{What: fmt.Sprintf("result #%d differs from the library's result (total count / groups)", i+1), Expected: expRes, Got: got}
		}
	}
	return nil
}

// c13RunBatches runs all batches of the case against one fresh server + one fresh reference index.
func c13RunBatches(env *c13Env, c c13Case) *c13Problem {
	dir := env.freshDir()
	defer os.RemoveAll(dir)
	files := c13BuildFiles(dir, c.Rows, "srv.updog", "lib.updog")
	lib, err := updog.OpenIndex(files[1], c.Server.libOptions()...)
	if err != nil {
		panic(fmt.Sprintf("harness: cannot open reference index: %v", err))
	}
	defer func() { lib.Close() }()

	var call c13Caller
	var srv *c13Server
	switch c.Via {
	case "handler":
		idx, err := updog.OpenIndex(files[0], c.Server.libOptions()...)
		if err != nil {
			panic(fmt.Sprintf("harness: cannot open index: %v", err))
		}
		defer idx.Close()
		h := &server{idx: idx}
		call = func(req *proto.QueryRequest) (resp *proto.QueryResponse, err error, panicked string) {
			defer func() {
				if r := recover(); r != nil {
					resp, err, panicked = nil, nil, fmt.Sprintf("panic: %v", r)
				}
			}()
			// what the handler sees is always a decoded wire message
			wire, merr := gproto.Marshal(req)
			if merr != nil {
				return nil, merr, ""
			}
			dec := &proto.QueryRequest{}
			if uerr := gproto.Unmarshal(wire, dec); uerr != nil {
				return nil, uerr, ""
			}
			resp, err = h.Query(context.Background(), dec)
			if err != nil {
				return nil, err, ""
			}
			// ... and what the client sees is the decoded wire form of the response
			rwire, merr := gproto.Marshal(resp)
			if merr != nil {
				return nil, fmt.Errorf("response cannot be encoded: %v", merr), ""
			}
			rdec := &proto.QueryResponse{}
			if uerr := gproto.Unmarshal(rwire, rdec); uerr != nil {
				return nil, fmt.Errorf("response cannot be decoded: %v", uerr), ""
			}
			return rdec, nil, ""
		}
	case "rpc":
		srv, err = c13StartServer(files[0], c.Server)
		if err != nil {
			return &c13Problem{What: "the `updog server` process could not be started on a valid index file", Expected: "a running server", Got: err.Error()}
		}
		defer func() { srv.stop() }()
		call = func(req *proto.QueryRequest) (*proto.QueryResponse, error, string) {
			ctx, cancel := context.WithTimeout(context.Background(), c13CallTimeout)
			defer cancel()
			resp, err := srv.client.Query(ctx, req)
			return resp, err, ""
		}
	default:
		panic("bad via " + c.Via)
	}

	for i, batch := range c.Batches {
		if srv != nil && !srv.alive() {
			// the previous (invalid) batch killed the server process; that is C14's matter. Start over.
			srv.stop()
			if err := c13CopyFile(files[0], filepath.Join(dir, "master.updog")); err != nil {
				panic(err)
			}
			srv, err = c13StartServer(files[0], c.Server)
			if err != nil {
				return &c13Problem{What: "the `updog server` process could not be restarted", Index: i, Expected: "a running server", Got: err.Error()}
			}
			lib.Close()
			lib, err = updog.OpenIndex(files[1], c.Server.libOptions()...)
			if err != nil {
				panic(err)
			}
		}
		if p := c13CheckBatch(lib, call, batch); p != nil {
			p.Index = i
			return p
		}
	}
	return nil
}

// ---------------------------------------------------------------------------------------------
// sql: grpc:// against file:

type c13SQLObs struct {
	Rejected bool       `json:"rejected"`
	Error    string     `json:"error,omitempty"`
	Panic    string     `json:"panic,omitempty"`
	Hang     bool       `json:"hang,omitempty"`
	Columns  []string   `json:"columns,omitempty"`
	Types    []string   `json:"types,omitempty"`
	Rows     [][]c13Str `json:"rows"` // values rendered as text; NULL as "\u0000NULL"
}

func c13SQLObserve(db *sql.DB, st c13SQLStep) c13SQLObs {
	ch := make(chan c13SQLObs, 1)
	go func() {
		var o c13SQLObs
		defer func() {
			if r := recover(); r != nil {
				o = c13SQLObs{Panic: fmt.Sprint(r)}
			}
			ch <- o
		}()
		o = c13SQLRun(db, st)
	}()
	select {
	case o := <-ch:
		return o
	case <-time.After(c13CallTimeout):
		return c13SQLObs{Hang: true}
	}
}

func c13SQLRun(db *sql.DB, st c13SQLStep) c13SQLObs {
	args := make([]interface{}, len(st.Args))
	for i, a := range st.Args {
		args[i] = string(a)
	}
	var rows *sql.Rows
	var err error
	if st.Prepare {
		stmt, perr := db.Prepare(string(st.Query))
		if perr != nil {
			return c13SQLObs{Rejected: true, Error: perr.Error()}
		}
		defer stmt.Close()
		rows, err = stmt.Query(args...)
	} else {
		rows, err = db.Query(string(st.Query), args...)
	}
	if err != nil {
		return c13SQLObs{Rejected: true, Error: err.Error()}
	}
	defer rows.Close()
	o := c13SQLObs{Rows: [][]c13Str{}}
	if o.Columns, err = rows.Columns(); err != nil {
		return c13SQLObs{Rejected: true, Error: err.Error()}
	}
	cts, err := rows.ColumnTypes()
	if err != nil {
		return c13SQLObs{Rejected: true, Error: err.Error()}
	}
	for _, ct := range cts {
		o.Types = append(o.Types, ct.DatabaseTypeName())
	}
	for rows.Next() {
		dest := make([]interface{}, len(o.Columns))
		ptrs := make([]interface{}, len(o.Columns))
		for i := range dest {
			ptrs[i] = &dest[i]
		}
		if err := rows.Scan(ptrs...); err != nil {
			return c13SQLObs{Rejected: true, Error: "Scan: " + err.Error()}
		}
		var r []c13Str
		for _, v := range dest {
			switch x := v.(type) {
			case nil:
				r = append(r, "\x00NULL")
			case string:
				r = append(r, c13Str("s:"+x))
			case []byte:
				r = append(r, c13Str("s:"+string(x)))
			case int64:
				r = append(r, c13Str("i:"+strconv.FormatInt(x, 10)))
			default:
				r = append(r, c13Str(fmt.Sprintf("?:%T(%v)", v, v)))
			}
		}
		o.Rows = append(o.Rows, r)
	}
	if err := rows.Err(); err != nil {
		return c13SQLObs{Rejected: true, Error: "Rows.Err: " + err.Error()}
	}
	return o
}

func c13RunSQL(env *c13Env, c c13Case) *c13Problem {
	dir := env.freshDir()
	defer os.RemoveAll(dir)
	files := c13BuildFiles(dir, c.Rows, "srv.updog", "file.updog")
	srv, err := c13StartServer(files[0], c.Server)
	if err != nil {
		return &c13Problem{What: "the `updog server` process could not be started on a valid index file", Expected: "a running server", Got: err.Error()}
	}
	defer srv.stop()
	dbG, err := sql.Open("updog", "grpc://"+srv.addr)
	if err != nil {
		return &c13Problem{What: "sql.Open failed for a grpc:// data source", Expected: "a handle", Got: err.Error()}
	}
	defer dbG.Close()
	// the file data source gets the options that correspond to the server's settings, so that both sides
	// run the same library configuration through the same query history
	dsn := "file:" + files[1] + "?preload=" + strconv.FormatBool(c.Server.Preload)
	if c.Server.Cache {
		dsn += "&lrucache=true&lrucachesize=" + strconv.FormatUint(c.Server.CacheSize, 10)
	}
	dbF, err := sql.Open("updog", dsn)
	if err != nil {
		return &c13Problem{What: "sql.Open failed for a file data source", Expected: "a handle", Got: err.Error()}
	}
	defer dbF.Close()
	for i, st := range c.SQL {
		exp := c13SQLObserve(dbF, st)
		if exp.Panic != "" || exp.Hang {
			continue // the file data source itself misbehaves: not this property's comparison
		}
		got := c13SQLObserve(dbG, st)
		same := got.Panic == "" && !got.Hang && exp.Rejected == got.Rejected
		if same && !exp.Rejected {
			same = reflect.DeepEqual(exp.Columns, got.Columns) && reflect.DeepEqual(exp.Types, got.Types) && reflect.DeepEqual(exp.Rows, got.Rows)
		}
		if !same {
			return &c13Problem{What: "the grpc:// data source returned other rows than the file data source", Index: i, Expected: exp, Got: got}
		}
	}
	return nil
}

// ---------------------------------------------------------------------------------------------
// conversion round trips

func c13RunConvert(c c13Case) (p *c13Problem) {
	defer func() {
		if r := recover(); r != nil {
			p = &c13Problem{What: "a conversion function panicked", Expected: "a value", Got: fmt.Sprint(r)}
		}
	}()
	for i, r := range c.Results {
		lr := &updog.Result{Count: r.Count}
		for _, g := range r.Groups {
			lg := updog.ResultGroup{Count: g.Count}
			for _, f := range g.Fields {
				lg.Fields = append(lg.Fields, updog.ResultField{Column: string(f.Column), Value: string(f.Value)})
			}
			lr.Groups = append(lr.Groups, lg)
		}
		pb := convert.ToProtobufResult(lr, r.ID)
		wire, err := gproto.Marshal(pb)
		if err != nil {
			return &c13Problem{What: "a library result cannot be put on the wire", Index: i, Expected: r, Got: err.Error()}
		}
		dec := &proto.Result{}
		if err := gproto.Unmarshal(wire, dec); err != nil {
			return &c13Problem{What: "an encoded result cannot be decoded", Index: i, Expected: r, Got: err.Error()}
		}
		if got := c13ResFromPB(dec); !reflect.DeepEqual(got, c13Normalise(r)) {
			return &c13Problem{What: "library result -> protobuf loses information", Index: i, Expected: r, Got: got}
		}
		back := convert.ToResult(dec)
		if got := c13ResFromLib(back, r.ID); !reflect.DeepEqual(got, c13Normalise(r)) {
			return &c13Problem{What: "protobuf result -> library result loses information", Index: i, Expected: r, Got: got}
		}
	}
	for bi, batch := range c.Batches {
		for _, q := range batch {
			if q.Expr == nil {
				continue
			}
			pb := &proto.Query{Id: q.ID, Expr: c13ToPB(q.Expr), GroupBy: q.GroupBy}
			wire, err := gproto.Marshal(pb)
			if err != nil {
				continue
			}
			dec := &proto.Query{}
			if err := gproto.Unmarshal(wire, dec); err != nil {
				return &c13Problem{What: "an encoded query cannot be decoded", Index: bi, Expected: q, Got: err.Error()}
			}
			got := convert.ToQuery(dec)
			want := c13ToLib(q.Expr)
			if !reflect.DeepEqual(got.Expr, want) || !c13SameStrings(got.GroupBy, q.GroupBy) {
				return &c13Problem{What: "protobuf query -> library query loses information", Index: bi, Expected: map[string]interface{}{"expr": want.String(), "group_by": q.GroupBy},
					Got: map[string]interface{}{"expr": fmt.Sprint(got.Expr), "group_by": got.GroupBy}}
			}
		}
	}
	return nil
}

func c13Normalise(r c13Res) c13Res {
	out := c13Res{ID: r.ID, Count: r.Count, Groups: []c13ResGroup{}}
	for _, g := range r.Groups {
		gg := c13ResGroup{Count: g.Count, Fields: []c13Field{}}
		gg.Fields = append(gg.Fields, g.Fields...)
		out.Groups = append(out.Groups, gg)
	}
	return out
}

func c13SameStrings(a, b []string) bool {
	if len(a) != len(b) {
		return false
	}
	for i := range a {
		if a[i] != b[i] {
			return false
		}
	}
	return true
}

func c13RunCase(env *c13Env, c c13Case) *c13Problem {
	switch c.Via {
	case "rpc", "handler":
		return c13RunBatches(env, c)
	case "sql":
		return c13RunSQL(env, c)
	case "convert":
		return c13RunConvert(c)
	}
	panic("bad via " + c.Via)
}

// ---------------------------------------------------------------------------------------------
// generators

var c13ColPool = []c13ColSpec{
	{"a", []string{"1", "2", "3"}},
	{"b", []string{"x", "y"}},
	{"c", []string{"foo", "bar", "quux", ""}},
	{"d", []string{"d00", "d01", "d02", "d03", "d04", "d05", "d06", "d07", "d08", "d09", "d10", "d11"}},
	{"B_2", []string{`q"uote`, `""`, " sp ", "ünï", "日本", "a;b", "$1"}},
	{"my col", []string{"1", "two words"}},
	{"ünï", []string{"ä", "ö"}},
	{"", []string{"", "empty-named"}},
}

var c13NonUTF8Cols = []c13ColSpec{
	{"a", []string{"1", "2"}},
	{"latin1", []string{"caf\xe9", "na\xefve", "plain"}},
}

func c13FixedDatasets() [][]c13Row {
	return [][]c13Row{
		{
			{"a": "1", "b": "2", "c": "foo"},
			{"a": "1", "b": "3", "c": "bar"},
			{"a": "5", "b": "2", "c": "foo"},
			{"c": "quux"},
		},
		{
			{"my col": "two words", "ünï": "ä", "": "empty-named", "a": "1"},
			{"my col": "1", "ünï": "ö", "": "", "a": "1"},
			{"my col": "1", "a": "2", "B_2": `q"uote`},
			{"B_2": "日本", "a": "2"},
			{"ünï": "ä"},
		},
	}
}

func c13RandomDataset(rng *rand.Rand, maxRows int) []c13Row {
	perm := rng.Perm(len(c13ColPool))
	nc := 1 + rng.Intn(5)
	var cols []c13ColSpec
	for _, i := range perm[:nc] {
		cols = append(cols, c13ColPool[i])
	}
	p := []float64{1.0, 0.8, 0.5}[rng.Intn(3)]
	return c13GenRows(rng, cols, 1+rng.Intn(maxRows), p)
}

func c13RandomQuery(rng *rand.Rand, cols []string, vals map[string][]string, maxGroupBy int) c13Q {
	e := c13GenExpr(rng, cols, vals, 1+rng.Intn(3))
	var gb []string
	for k := rng.Intn(maxGroupBy + 1); k > 0; k-- {
		gb = append(gb, cols[rng.Intn(len(cols))])
	}
	if gb == nil {
		gb = []string{}
	}
	return c13Q{Expr: e, GroupBy: gb}
}

func c13InvalidQuery(rng *rand.Rand, cols []string, vals map[string][]string) c13Q {
	q := c13RandomQuery(rng, cols, vals, 2)
	switch rng.Intn(3) {
	case 0:
		q.Expr = c13And(q.Expr, c13Eq("no such column", "1"))
	case 1:
		q.GroupBy = append(q.GroupBy, "no_such_column")
	default:
		q.Expr = c13Not(c13Eq("NOPE", ""))
	}
	return q
}

// c13EnumBatches: systematic batches, simplest first.
func c13EnumBatches(rows []c13Row, withNoExpr bool) [][]c13Q {
	cols, vals := c13ValuesOf(rows)
	c0, c1 := cols[0], cols[len(cols)-1]
	v0 := vals[c0][0]
	all := c13Or(c13Eq(c0, v0), c13Not(c13Eq(c0, v0)))
	none := c13Eq(c0, "zz-absent")
	g := func(s ...string) []string { return append([]string{}, s...) }
	q := func(id int32, e *c13Expr, gb []string) c13Q { return c13Q{ID: id, Expr: e, GroupBy: gb} }
	bad := q(0, c13Eq("no_such_column", "1"), g())
	badGB := q(0, all, g("no_such_column"))
	batches := [][]c13Q{
		{},
		{q(0, c13Eq(c0, v0), g())},
		{q(0, all, g(c0))},
		{q(7, all, g(c0, c1))},
		{q(0, none, g(c0))},
		{q(0, c13Eq(c0, v0), g()), q(0, all, g(c1)), q(0, none, g())},                          // ids by position
		{q(3, c13Eq(c0, v0), g()), q(2, all, g(c1)), q(1, none, g())},                          // explicit ids
		{q(5, c13Eq(c0, v0), g()), q(5, all, g(c1)), q(5, none, g())},                          // duplicate ids
		{q(2, c13Eq(c0, v0), g()), q(0, all, g(c1)), q(0, none, g(c0)), q(3, all, g())},        // zero ids colliding with explicit ones
		{q(-1, c13Eq(c0, v0), g()), q(2147483647, all, g(c1)), q(-2147483648, all, g(c1, c0))}, // extreme ids
		{q(0, all, g(c0)), q(0, all, g(c0)), q(0, all, g(c0))},                                 // the same query three times
		{bad},
		{badGB},
		{bad, q(0, all, g())},
		{q(0, all, g()), bad},
		{q(0, all, g()), badGB, q(0, all, g())},
		{q(9, all, g(c0)), q(0, c13Eq(c0, v0), g()), q(0, c13Not(c13Eq("no_such_column", "")), g())},
	}
	for _, c := range cols {
		for _, v := range vals[c] {
			batches = append(batches, []c13Q{q(0, c13Eq(c, v), g(c)), q(0, c13Not(c13Eq(c, v)), g(cols...))})
		}
	}
	if withNoExpr {
		batches = append(batches, []c13Q{q(0, all, g()), {ID: 0, Expr: nil, GroupBy: g()}})
	}
	return batches
}

func c13RandomBatches(rng *rand.Rand, rows []c13Row, n int, maxGroupBy int) [][]c13Q {
	cols, vals := c13ValuesOf(rows)
	var out [][]c13Q
	for i := 0; i < n; i++ {
		var b []c13Q
		nq := rng.Intn(6)
		if rng.Intn(20) == 0 {
			nq = 20 + rng.Intn(30)
		}
		idMode := rng.Intn(4)
		for k := 0; k < nq; k++ {
			q := c13RandomQuery(rng, cols, vals, maxGroupBy)
			switch idMode {
			case 1:
				q.ID = int32(rng.Intn(5))
			case 2:
				q.ID = int32(rng.Uint32())
			case 3:
				q.ID = int32(nq - k)
			}
			b = append(b, q)
		}
		if nq > 0 && rng.Intn(5) == 0 {
			b[rng.Intn(nq)] = c13InvalidQuery(rng, cols, vals)
		}
		if b == nil {
			b = []c13Q{}
		}
		out = append(out, b)
	}
	return out
}

func c13IsIdent(s string) bool {
	if s == "" {
		return false
	}
	for i := 0; i < len(s); i++ {
		b := s[i]
		letter := (b >= 'a' && b <= 'z') || (b >= 'A' && b <= 'Z')
		if i == 0 && !letter {
			return false
		}
		if !letter && !(b >= '0' && b <= '9') && b != '_' {
			return false
		}
	}
	return true
}

func c13SQLSteps(rng *rand.Rand, rows []c13Row, n int) []c13SQLStep {
	allCols, vals := c13ValuesOf(rows)
	var cols []string
	for _, c := range allCols {
		if c13IsIdent(c) {
			cols = append(cols, c)
		}
	}
	if len(cols) == 0 {
		return nil
	}
	c0 := cols[0]
	v0 := vals[c0][0]
	eq := func(c, v string) string { return c + " = " + c13Quote(v) }
	steps := []c13SQLStep{
		{Query: c13Str(eq(c0, v0))},
		{Query: c13Str(eq(c0, v0) + " ; " + c0)},
		{Query: c13Str(eq(c0, v0) + " | ^" + eq(c0, v0) + " ; " + c0 + ", " + cols[len(cols)-1]), Prepare: true},
		{Query: c13Str(eq(c0, "zz-absent"))},
		{Query: c13Str(eq(c0, "zz-absent") + " ; " + c0)},
		{Query: c13Str(c0 + " = $1 ; " + c0), Args: []c13Str{c13Str(v0)}},
		{Query: c13Str(c0 + " = $1 | " + c0 + " = $2"), Args: []c13Str{c13Str(v0), "zz-absent"}, Prepare: true},
		{Query: c13Str(`nosuchcol = "1"`)},
		{Query: c13Str(eq(c0, v0) + " ; nosuchcol"), Prepare: true},
		{Query: c13Str(eq(c0, v0) + " ;")},
		{Query: ""},
	}
	for i := 0; i < n; i++ {
		e := c13GenExpr(rng, cols, vals, 1+rng.Intn(3))
		var gb []string
		for k := rng.Intn(4); k > 0; k-- {
			gb = append(gb, cols[rng.Intn(len(cols))])
		}
		st := c13SQLStep{Prepare: rng.Intn(2) == 0, Args: []c13Str{}}
		if rng.Intn(2) == 0 {
			pe, args := c13Abstract(rng, e)
			for _, a := range args {
				st.Args = append(st.Args, c13Str(a))
			}
			e = pe
		}
		st.Query = c13Str(c13RenderQuery(e, gb))
		steps = append(steps, st)
	}
	return steps
}

func c13RandomResults(rng *rand.Rand, n int) []c13Res {
	strs := []string{"", "a", "count", "my col", "ünï", "日本", `q"uote`, " ", "\n", "0", "zz"}
	var out []c13Res
	for i := 0; i < n; i++ {
		r := c13Res{ID: int32(rng.Uint32()), Count: rng.Uint64() >> uint(rng.Intn(64)), Groups: []c13ResGroup{}}
		if i%7 == 0 {
			r.Count = ^uint64(0)
		}
		ng := rng.Intn(5)
		nf := rng.Intn(4)
		for g := 0; g < ng; g++ {
			grp := c13ResGroup{Count: rng.Uint64() >> uint(rng.Intn(64)), Fields: []c13Field{}}
			for f := 0; f < nf; f++ {
				grp.Fields = append(grp.Fields, c13Field{c13Str(strs[rng.Intn(len(strs))]), c13Str(strs[rng.Intn(len(strs))])})
			}
			r.Groups = append(r.Groups, grp)
		}
		out = append(out, r)
	}
	return out
}

// ---------------------------------------------------------------------------------------------

func TestVerifHarnessC13(t *testing.T) {
	c13MaybeChild()
	stats := &c13Stats{}
	defer stats.write()
	env := &c13Env{baseDir: t.TempDir()}

	fail := func(c c13Case, p *c13Problem) {
		in := c
		switch c.Via {
		case "rpc", "handler":
			in.Batches = c.Batches[:p.Index+1]
		case "sql":
			in.SQL = c.SQL[:p.Index+1]
		}
		v := &c13Violation{Property: "C13", What: fmt.Sprintf("%s (via %s, last listed batch/step)", p.What, c.Via), Input: in, Expected: p.Expected, Got: p.Got}
		v.write()
		b, _ := json.Marshal(v)
		if len(b) > 6000 {
			b = append(b[:6000], "..."...)
		}
		t.Fatalf("C13 violated: %s\n%s", v.What, b)
	}
	// minimise: the failing batch/step alone on a fresh server, then without server options
	check := func(c c13Case) {
		p := c13RunCase(env, c)
		if p == nil {
			return
		}
		switch c.Via {
		case "rpc", "handler":
			single := c
			single.Batches = c.Batches[p.Index : p.Index+1]
			if p2 := c13RunCase(env, single); p2 != nil {
				p2.Index = 0
				c, p = single, p2
				plain := c
				plain.Server = c13SrvOpt{}
				if p3 := c13RunCase(env, plain); p3 != nil {
					p3.Index = 0
					c, p = plain, p3
				}
				// drop queries of the batch that are not needed
				for i := 0; i < len(c.Batches[0]); {
					cand := c
					cand.Batches = [][]c13Q{append(append([]c13Q{}, c.Batches[0][:i]...), c.Batches[0][i+1:]...)}
					if p4 := c13RunCase(env, cand); p4 != nil && p4.What == p.What {
						p4.Index = 0
						c, p = cand, p4
					} else {
						i++
					}
				}
			}
		case "sql":
			single := c
			single.SQL = c.SQL[p.Index : p.Index+1]
			if p2 := c13RunCase(env, single); p2 != nil {
				p2.Index = 0
				c, p = single, p2
			}
		}
		// fewer rows
		last := func(c c13Case) int {
			if c.Via == "sql" {
				return len(c.SQL) - 1
			}
			return len(c.Batches) - 1
		}
		if c.Via != "convert" && p.Index == last(c) {
			for i := 0; i < len(c.Rows); {
				cand := c
				cand.Rows = append(append([]c13Row{}, c.Rows[:i]...), c.Rows[i+1:]...)
				if p2 := c13RunCase(env, cand); p2 != nil && p2.What == p.What && p2.Index == p.Index {
					c, p = cand, p2
				} else {
					i++
				}
			}
		}
		// a failure seen on the direct handler call is reported from the real server process if it shows there too
		if c.Via == "handler" {
			viaRPC := c
			viaRPC.Via = "rpc"
			if p2 := c13RunCase(env, viaRPC); p2 != nil && p2.Index == p.Index {
				c, p = viaRPC, p2
			}
		}
		fail(c, p)
	}

	if os.Getenv("VERIF_MODE") == "replay" {
		raw, err := os.ReadFile(os.Getenv("VERIF_CASE"))
		if err != nil {
			t.Fatalf("cannot read VERIF_CASE: %v", err)
		}
		var wrap struct {
			Input c13Case `json:"input"`
		}
		if err := json.Unmarshal(raw, &wrap); err != nil {
			t.Fatalf("cannot decode VERIF_CASE: %v", err)
		}
		stats.Bound = "replay of one case"
		stats.Cases = 1
		if p := c13RunCase(env, wrap.Input); p != nil {
			fail(wrap.Input, p)
		}
		return
	}

	thorough := c13Thorough()
	seed := c13Seed()
	rng := rand.New(rand.NewSource(seed))
	utf8only := strings.Contains(strings.ToLower(os.Getenv("VERIF_HINT")), "utf8only")
	srvOpts := []c13SrvOpt{
		{Cache: true, CacheSize: 50 * 1024 * 1024}, // the server's defaults
		{},
		{Preload: true},
		{Cache: true, CacheSize: 300, Preload: true},
	}
	nRandomDatasets, nHandlerBatches, nRPCBatches, nSQL, maxRows, maxGroupBy, nResults := 6, 150, 60, 60, 30, 3, 500
	budget := 17 * time.Second
	if thorough {
		srvOpts = append(srvOpts, c13SrvOpt{Cache: true, CacheSize: 0}, c13SrvOpt{Cache: true, CacheSize: 1 << 20, Preload: true})
		nRandomDatasets, nHandlerBatches, nRPCBatches, nSQL, maxRows, maxGroupBy, nResults = 24, 300, 120, 150, 300, 5, 5000
		budget = 230 * time.Second
	}
	stats.Bound = fmt.Sprintf("seed %d: 2 fixed + %d random datasets (<=%d rows, <=5 of 8 columns incl. \"\", \"my col\", non-ASCII names)%s x %d server settings {cache on/off/sizes, preload on/off} x (systematic batches: empty batch, 1..4 queries, zero/explicit/duplicate/extreme ids, invalid member first/middle/last, query without expression [rpc only] + random batches of 0..50 queries depth<=3, 0..%d group-by columns, 20%% with an invalid member: %d per handler run, %d per rpc run against a real server process) + %d sql steps grpc:// vs file: per dataset + %d result round trips",
		seed, nRandomDatasets, maxRows, map[bool]string{true: "", false: " + 1 dataset with non-UTF-8 values"}[utf8only], len(srvOpts), maxGroupBy, nHandlerBatches, nRPCBatches, nSQL, nResults)
	start := time.Now()
	datasets := c13FixedDatasets()
	for i := 0; i < nRandomDatasets; i++ {
		datasets = append(datasets, c13RandomDataset(rng, maxRows))
	}
	truncated := false
	countBatches := func(di int, c c13Case) {
		for _, b := range c.Batches {
			stats.Cases++
			if len(b) > 0 {
				jb, _ := json.Marshal(b)
				stats.nontrivial(fmt.Sprintf("%d/%s", di, jb))
			}
		}
		for _, st := range c.SQL {
			stats.nontrivial(fmt.Sprintf("%d/sql/%s/%v", di, st.Query, st.Args))
		}
		stats.Cases += len(c.SQL) + len(c.Results)
	}
	runDataset := func(di int, rows []c13Row) {
		for oi, so := range srvOpts {
			if time.Since(start) > budget {
				truncated = true
				return
			}
			r := rand.New(rand.NewSource(seed*7919 + int64(di)*101 + int64(oi)))
			hc := c13Case{Via: "handler", Rows: rows, Server: so, Batches: append(c13EnumBatches(rows, false), c13RandomBatches(r, rows, nHandlerBatches, maxGroupBy)...)}
			countBatches(di, hc)
			check(hc)
			rc := c13Case{Via: "rpc", Rows: rows, Server: so, Batches: append(c13EnumBatches(rows, true), c13RandomBatches(r, rows, nRPCBatches, maxGroupBy)...)}
			// the batch with a query without expression may kill the server: keep it last
			last := len(c13EnumBatches(rows, true)) - 1
			rc.Batches = append(append(append([][]c13Q{}, rc.Batches[:last]...), rc.Batches[last+1:]...), rc.Batches[last])
			countBatches(di, rc)
			check(rc)
			if oi == di%len(srvOpts) {
				sc := c13Case{Via: "sql", Rows: rows, Server: so, SQL: c13SQLSteps(r, rows, nSQL)}
				if len(sc.SQL) > 0 {
					countBatches(di, sc)
					check(sc)
				}
			}
		}
	}
	for di, rows := range datasets {
		if di == 1 {
			cc := c13Case{Via: "convert", Results: c13RandomResults(rng, nResults), Batches: c13RandomBatches(rng, datasets[1], nResults/5, 3)}
			countBatches(-1, cc)
			check(cc)
		}
		runDataset(di, rows)
		if truncated {
			break
		}
		if di == 0 && !utf8only {
			runDataset(len(datasets), c13GenRows(rand.New(rand.NewSource(seed)), c13NonUTF8Cols, 12, 0.9))
		}
	}
	if truncated {
		stats.Bound += fmt.Sprintf(" [stopped by the time budget after %v]", budget)
	}
	t.Logf("C13: %d batches/steps in %v", stats.Cases, time.Since(start))
}
