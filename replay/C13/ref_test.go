package main

// Shared reference model for the C13 harness: datasets, expression trees, a row-by-row evaluator
// (the slow, obviously correct oracle), a query-text renderer, JSON helpers and generators.
// Nothing in this file calls the code under test except c13BuildIndex (IndexWriter) and c13ToLib
// (construction of updog expression values).

import (
	"encoding/hex"
	"encoding/json"
	"fmt"
	"math/rand"
	"os"
	"sort"
	"strconv"
	"strings"
	"unicode/utf8"

	"github.com/akrennmair/updog"
)

// c13Str is a byte string that survives JSON even when it is not valid UTF-8.
type c13Str string

func (s c13Str) MarshalJSON() ([]byte, error) {
	if utf8.ValidString(string(s)) {
		return json.Marshal(string(s))
	}
	return json.Marshal(map[string]string{"hex": hex.EncodeToString([]byte(s))})
}

func (s *c13Str) UnmarshalJSON(b []byte) error {
	var str string
	if err := json.Unmarshal(b, &str); err == nil {
		*s = c13Str(str)
		return nil
	}
	var m map[string]string
	if err := json.Unmarshal(b, &m); err != nil {
		return err
	}
	raw, err := hex.DecodeString(m["hex"])
	if err != nil {
		return err
	}
	*s = c13Str(raw)
	return nil
}

// c13Row is one row of a dataset: column name -> value. A column may be absent from a row.
type c13Row map[string]c13Str

func c13RowsToMaps(rows []c13Row) []map[string]string {
	out := make([]map[string]string, 0, len(rows))
	for _, r := range rows {
		m := map[string]string{}
		for k, v := range r {
			m[k] = string(v)
		}
		out = append(out, m)
	}
	return out
}

// c13Expr is the harness' own expression tree.
type c13Expr struct {
	Op   string     `json:"op"` // eq | not | and | or
	Col  string     `json:"col,omitempty"`
	Val  c13Str     `json:"val,omitempty"`
	Ph   int        `json:"ph,omitempty"` // placeholder number (>0) instead of Val
	Kids []*c13Expr `json:"kids,omitempty"`
}

func c13Eq(col, val string) *c13Expr   { return &c13Expr{Op: "eq", Col: col, Val: c13Str(val)} }
func c13Ph(col string, n int) *c13Expr { return &c13Expr{Op: "eq", Col: col, Ph: n} }
func c13Not(k *c13Expr) *c13Expr       { return &c13Expr{Op: "not", Kids: []*c13Expr{k}} }
func c13And(kids ...*c13Expr) *c13Expr { return &c13Expr{Op: "and", Kids: kids} }
func c13Or(kids ...*c13Expr) *c13Expr  { return &c13Expr{Op: "or", Kids: kids} }
func (e *c13Expr) maxPlaceholder() int {
	m := 0
	if e.Op == "eq" && e.Ph > m {
		m = e.Ph
	}
	for _, k := range e.Kids {
		if n := k.maxPlaceholder(); n > m {
			m = n
		}
	}
	return m
}

// subst returns a copy with every placeholder $n replaced by args[n-1].
func (e *c13Expr) subst(args []string) *c13Expr {
	c := &c13Expr{Op: e.Op, Col: e.Col, Val: e.Val, Ph: e.Ph}
	if c.Op == "eq" && c.Ph > 0 {
		c.Val = c13Str(args[c.Ph-1])
		c.Ph = 0
	}
	for _, k := range e.Kids {
		c.Kids = append(c.Kids, k.subst(args))
	}
	return c
}

// canon is a structural key that ignores operand order of and/or (used to avoid duplicate operands).
func (e *c13Expr) canon() string {
	switch e.Op {
	case "eq":
		return "E" + strconv.Quote(e.Col) + strconv.Quote(string(e.Val)) + strconv.Itoa(e.Ph)
	case "not":
		return "N(" + e.Kids[0].canon() + ")"
	default:
		ks := make([]string, 0, len(e.Kids))
		for _, k := range e.Kids {
			ks = append(ks, k.canon())
		}
		sort.Strings(ks)
		return strings.ToUpper(e.Op[:1]) + "[" + strings.Join(ks, ",") + "]"
	}
}

// evalRow is the row-by-row semantics: eq holds iff the row has the column with exactly that value.
func (e *c13Expr) evalRow(row c13Row) bool {
	switch e.Op {
	case "eq":
		v, ok := row[e.Col]
		return ok && string(v) == string(e.Val)
	case "not":
		return !e.Kids[0].evalRow(row)
	case "and":
		for _, k := range e.Kids {
			if !k.evalRow(row) {
				return false
			}
		}
		return true
	case "or":
		for _, k := range e.Kids {
			if k.evalRow(row) {
				return true
			}
		}
		return false
	}
	panic("bad op " + e.Op)
}

func (e *c13Expr) columns(into map[string]bool) {
	if e.Op == "eq" {
		into[e.Col] = true
	}
	for _, k := range e.Kids {
		k.columns(into)
	}
}

type c13Group struct {
	Vals  []c13Str `json:"values"`
	Count uint64   `json:"count"`
}

type c13Result struct {
	Count  uint64     `json:"count"`
	Groups []c13Group `json:"groups"`
}

func c13Schema(rows []c13Row) map[string]bool {
	s := map[string]bool{}
	for _, r := range rows {
		for k := range r {
			s[k] = true
		}
	}
	return s
}

// c13Model evaluates a query row by row. It returns an error iff the query mentions a column
// (in the expression or in group-by) that no row of the dataset has.
// Groups: matching rows that have every group-by column, grouped by their value tuple, in
// lexicographic (bytewise) tuple order; rows lacking a group-by column belong to no group.
func c13Model(rows []c13Row, e *c13Expr, groupBy []string) (*c13Result, error) {
	sch := c13Schema(rows)
	for _, g := range groupBy {
		if !sch[g] {
			return nil, fmt.Errorf("unknown group-by column %q", g)
		}
	}
	cols := map[string]bool{}
	e.columns(cols)
	for c := range cols {
		if !sch[c] {
			return nil, fmt.Errorf("unknown column %q", c)
		}
	}
	res := &c13Result{}
	type acc struct {
		vals []c13Str
		n    uint64
	}
	groups := map[string]*acc{}
	for _, r := range rows {
		if !e.evalRow(r) {
			continue
		}
		res.Count++
		if len(groupBy) == 0 {
			continue
		}
		vals := make([]c13Str, 0, len(groupBy))
		ok := true
		for _, g := range groupBy {
			v, has := r[g]
			if !has {
				ok = false
				break
			}
			vals = append(vals, v)
		}
		if !ok {
			continue
		}
		var kb strings.Builder
		for _, v := range vals {
			kb.WriteString(strconv.Itoa(len(v)))
			kb.WriteByte(':')
			kb.WriteString(string(v))
		}
		a := groups[kb.String()]
		if a == nil {
			a = &acc{vals: vals}
			groups[kb.String()] = a
		}
		a.n++
	}
	for _, a := range groups {
		res.Groups = append(res.Groups, c13Group{Vals: a.vals, Count: a.n})
	}
	sort.Slice(res.Groups, func(i, j int) bool {
		a, b := res.Groups[i].Vals, res.Groups[j].Vals
		for k := range a {
			if a[k] != b[k] {
				return string(a[k]) < string(b[k])
			}
		}
		return false
	})
	return res, nil
}

// c13FromLib converts a library result into the harness' result form.
func c13FromLib(r *updog.Result) *c13Result {
	out := &c13Result{Count: r.Count}
	for _, g := range r.Groups {
		gg := c13Group{Count: g.Count}
		for _, f := range g.Fields {
			gg.Vals = append(gg.Vals, c13Str(f.Value))
		}
		out.Groups = append(out.Groups, gg)
	}
	return out
}

func c13ResultsEqual(a, b *c13Result) bool {
	if a.Count != b.Count || len(a.Groups) != len(b.Groups) {
		return false
	}
	for i := range a.Groups {
		if a.Groups[i].Count != b.Groups[i].Count || len(a.Groups[i].Vals) != len(b.Groups[i].Vals) {
			return false
		}
		for j := range a.Groups[i].Vals {
			if a.Groups[i].Vals[j] != b.Groups[i].Vals[j] {
				return false
			}
		}
	}
	return true
}

// c13ToLib builds the library expression for a tree without placeholders (the harness' own
// conversion; it does not use internal/convert).
func c13ToLib(e *c13Expr) updog.Expression {
	switch e.Op {
	case "eq":
		return &updog.ExprEqual{Column: e.Col, Value: string(e.Val)}
	case "not":
		return &updog.ExprNot{Expr: c13ToLib(e.Kids[0])}
	case "and":
		x := &updog.ExprAnd{}
		for _, k := range e.Kids {
			x.Exprs = append(x.Exprs, c13ToLib(k))
		}
		return x
	case "or":
		x := &updog.ExprOr{}
		for _, k := range e.Kids {
			x.Exprs = append(x.Exprs, c13ToLib(k))
		}
		return x
	}
	panic("bad op " + e.Op)
}

// c13LibExec runs the query on the library index with a fresh Query value; panics are returned as errors
// with the flag set.
func c13LibExec(idx *updog.Index, e *c13Expr, groupBy []string) (res *updog.Result, err error, panicked bool) {
	defer func() {
		if r := recover(); r != nil {
			res, err, panicked = nil, fmt.Errorf("library panicked: %v", r), true
		}
	}()
	gb := append([]string(nil), groupBy...)
	res, err = idx.Execute(&updog.Query{Expr: c13ToLib(e), GroupBy: gb})
	return res, err, false
}

// ---- query text ----

func c13Quote(s string) string { return `"` + strings.ReplaceAll(s, `"`, `""`) + `"` }

func (e *c13Expr) render() string {
	switch e.Op {
	case "eq":
		if e.Ph > 0 {
			return e.Col + " = $" + strconv.Itoa(e.Ph)
		}
		return e.Col + " = " + c13Quote(string(e.Val))
	case "not":
		k := e.Kids[0]
		if k.Op == "and" || k.Op == "or" {
			return "^(" + k.render() + ")"
		}
		return "^" + k.render()
	default:
		sep := " & "
		if e.Op == "or" {
			sep = " | "
		}
		parts := make([]string, 0, len(e.Kids))
		for _, k := range e.Kids {
			if k.Op == "and" || k.Op == "or" {
				parts = append(parts, "("+k.render()+")")
			} else {
				parts = append(parts, k.render())
			}
		}
		return strings.Join(parts, sep)
	}
}

func c13RenderQuery(e *c13Expr, groupBy []string) string {
	s := e.render()
	if len(groupBy) > 0 {
		s += " ; " + strings.Join(groupBy, ", ")
	}
	return s
}

// ---- index files ----

func c13BuildIndex(path string, rows []c13Row) error {
	w := updog.NewIndexWriter(path)
	for _, r := range c13RowsToMaps(rows) {
		if _, err := w.AddRow(r); err != nil {
			return err
		}
	}
	return w.Flush()
}

func c13CopyFile(dst, src string) error {
	b, err := os.ReadFile(src)
	if err != nil {
		return err
	}
	return os.WriteFile(dst, b, 0o644)
}

// ---- generators ----

type c13ColSpec struct {
	Name string
	Vals []string
}

// c13GenRows makes n rows over the given columns; each cell is present with probability pPresent.
func c13GenRows(rng *rand.Rand, cols []c13ColSpec, n int, pPresent float64) []c13Row {
	rows := make([]c13Row, 0, n)
	for i := 0; i < n; i++ {
		r := c13Row{}
		for _, c := range cols {
			if rng.Float64() < pPresent {
				r[c.Name] = c13Str(c.Vals[rng.Intn(len(c.Vals))])
			}
		}
		rows = append(rows, r)
	}
	return rows
}

// c13ValuesOf lists, per column (sorted), the values present in the dataset (sorted).
func c13ValuesOf(rows []c13Row) (cols []string, vals map[string][]string) {
	set := map[string]map[string]bool{}
	for _, r := range rows {
		for k, v := range r {
			if set[k] == nil {
				set[k] = map[string]bool{}
			}
			set[k][string(v)] = true
		}
	}
	vals = map[string][]string{}
	for k, m := range set {
		cols = append(cols, k)
		for v := range m {
			vals[k] = append(vals[k], v)
		}
		sort.Strings(vals[k])
	}
	sort.Strings(cols)
	return cols, vals
}

// c13GenExpr makes a random tree over existing columns; values are mostly existing ones, sometimes
// absent ones. and/or never get two operands that are equal up to operand order (the library's
// cache keys are out of scope here).
func c13GenExpr(rng *rand.Rand, cols []string, vals map[string][]string, depth int) *c13Expr {
	if depth <= 0 || rng.Intn(4) == 0 {
		col := cols[rng.Intn(len(cols))]
		var v string
		if rng.Intn(6) == 0 {
			v = []string{"zz-absent", "", "0"}[rng.Intn(3)]
		} else {
			vs := vals[col]
			v = vs[rng.Intn(len(vs))]
		}
		return c13Eq(col, v)
	}
	if rng.Intn(3) == 0 {
		return c13Not(c13GenExpr(rng, cols, vals, depth-1))
	}
	op := "and"
	if rng.Intn(2) == 0 {
		op = "or"
	}
	n := 2 + rng.Intn(3)
	e := &c13Expr{Op: op}
	seen := map[string]bool{}
	for tries := 0; len(e.Kids) < n && tries < 20; tries++ {
		k := c13GenExpr(rng, cols, vals, depth-1)
		key := k.canon()
		if seen[key] {
			continue
		}
		seen[key] = true
		e.Kids = append(e.Kids, k)
	}
	if len(e.Kids) < 2 {
		return e.Kids[0]
	}
	return e
}

// c13Abstract returns a copy of a placeholder-free tree in which some leaves are turned into
// placeholders $1..$k (numbered contiguously), together with the k values to bind.
func c13Abstract(rng *rand.Rand, e *c13Expr) (*c13Expr, []string) {
	var args []string
	var walk func(e *c13Expr) *c13Expr
	walk = func(e *c13Expr) *c13Expr {
		c := &c13Expr{Op: e.Op, Col: e.Col, Val: e.Val}
		if e.Op == "eq" && rng.Intn(2) == 0 {
			n := 0
			for i, a := range args {
				if a == string(e.Val) && rng.Intn(2) == 0 {
					n = i + 1
					break
				}
			}
			if n == 0 {
				args = append(args, string(e.Val))
				n = len(args)
			}
			c.Val, c.Ph = "", n
		}
		for _, k := range e.Kids {
			c.Kids = append(c.Kids, walk(k))
		}
		return c
	}
	return walk(e), args
}

// c13HasDupOperands reports whether some and/or node has two operands equal up to operand order.
func (e *c13Expr) hasDupOperands() bool {
	if e.Op == "and" || e.Op == "or" {
		seen := map[string]bool{}
		for _, k := range e.Kids {
			c := k.canon()
			if seen[c] {
				return true
			}
			seen[c] = true
		}
	}
	for _, k := range e.Kids {
		if k.hasDupOperands() {
			return true
		}
	}
	return false
}

// ---- env / output ----

type c13Stats struct {
	Cases      int    `json:"cases"`
	Nontrivial int    `json:"distinct_nontrivial"`
	Bound      string `json:"bound"`
	Exhaustive bool   `json:"exhaustive"`
	seen       map[string]bool
}

func (s *c13Stats) nontrivial(key string) {
	if s.seen == nil {
		s.seen = map[string]bool{}
	}
	if !s.seen[key] {
		s.seen[key] = true
		s.Nontrivial++
	}
}

func (s *c13Stats) write() {
	p := os.Getenv("VERIF_STATS")
	if p == "" {
		return
	}
	b, _ := json.Marshal(s)
	_ = os.WriteFile(p, b, 0o644)
}

type c13Violation struct {
	Property string      `json:"property"`
	What     string      `json:"what"`
	Input    interface{} `json:"input"`
	Expected interface{} `json:"expected"`
	Got      interface{} `json:"got"`
}

func (v *c13Violation) write() {
	p := os.Getenv("VERIF_OUT")
	if p == "" {
		return
	}
	b, err := json.Marshal(v)
	if err != nil {
		b, _ = json.Marshal(map[string]string{"property": v.Property, "what": v.What, "marshal_error": err.Error()})
	}
	_ = os.WriteFile(p, b, 0o644)
}

func c13Seed() int64 {
	if s := os.Getenv("VERIF_SEED"); s != "" {
		if n, err := strconv.ParseInt(s, 10, 64); err == nil {
			return n
		}
	}
	return 1
}

func c13Thorough() bool { return os.Getenv("VERIF_BOUND") == "thorough" }
