package driver

// Real-code harness for property C11:
//
//   "Binding arguments to a parsed query replaces every placeholder $n by the n-th argument and changes nothing
//    else, and leaves the parsed query itself untouched, so a prepared statement can be executed any number of
//    times with different arguments and each execution returns what a one-shot query with those literal values
//    returns. Supplying fewer arguments than the highest placeholder number yields an error, never a panic or a
//    silently different query."
//
// Two observation levels:
//
//  F  queryparser.ReplacePlaceholders on trees built by the harness. Oracle: c11Subst (a recursive copy that
//     replaces placeholder leaves), a snapshot of the argument tree taken before the call (must be unchanged
//     afterwards, also after the *result* has been scribbled over: no sharing). With too few values the function
//     has no way to report an error through its present signature, so at this level only a normal return (a
//     silently different query) is reported; the error clause is checked at level D where users observe it.
//     The function is called through reflection so that a fix that adds an error result does not break the build.
//
//  D  database/sql with the updog driver on an index file written by the harness: DB.Query(text, args...) (direct
//     path), DB.Prepare + Stmt.Query(args...) in sequences on ONE statement (prepared path), and driver.Stmt.Query
//     reached through Conn.Raw, where the statement's stored tree is snapshotted and compared after every
//     execution. Oracle for every execution that succeeds: the rows of the one-shot query whose text has the
//     argument values spelled as literals (exactly what the statement says). Too few arguments: an error is
//     required on both paths. Too many arguments: the statement does not say; an error is tolerated, rows must be
//     the one-shot rows.
//
// VERIF_HINT containing "skipfew" leaves out the too-few-arguments executions (to look for other violations on a
// tree where that one is known).

import (
	"context"
	"database/sql"
	sqldriver "database/sql/driver"
	"encoding/base64"
	"encoding/json"
	"fmt"
	"math/rand"
	"os"
	"path/filepath"
	"reflect"
	"strconv"
	"strings"
	"sync/atomic"
	"testing"
	"time"
	"unicode/utf8"
	"unsafe"

	"github.com/akrennmair/updog"
	"github.com/akrennmair/updog/internal/queryparser"
	updogv1 "github.com/akrennmair/updog/proto/updog/v1"
)

// ---------------------------------------------------------------------------------------------------------------
// trees

type c11Node struct {
	Op   string // "eq", "not", "and", "or"
	Col  string
	Val  string
	Ph   int32
	Kids []*c11Node
}

func c11Eq(col, val string) *c11Node     { return &c11Node{Op: "eq", Col: col, Val: val} }
func c11Ph(col string, n int32) *c11Node { return &c11Node{Op: "eq", Col: col, Ph: n} }
func c11Not(k *c11Node) *c11Node         { return &c11Node{Op: "not", Kids: []*c11Node{k}} }
func c11And(k ...*c11Node) *c11Node      { return &c11Node{Op: "and", Kids: k} }
func c11Or(k ...*c11Node) *c11Node       { return &c11Node{Op: "or", Kids: k} }

func c11ToProto(n *c11Node) *updogv1.Query_Expression {
	switch n.Op {
	case "eq":
		return &updogv1.Query_Expression{Value: &updogv1.Query_Expression_Eq{Eq: &updogv1.Query_Expression_Equal{Column: n.Col, Value: n.Val, Placeholder: n.Ph}}}
	case "not":
		return &updogv1.Query_Expression{Value: &updogv1.Query_Expression_Not_{Not: &updogv1.Query_Expression_Not{Expr: c11ToProto(n.Kids[0])}}}
	}
	kids := make([]*updogv1.Query_Expression, len(n.Kids))
	for i, k := range n.Kids {
		kids[i] = c11ToProto(k)
	}
	if n.Op == "and" {
		return &updogv1.Query_Expression{Value: &updogv1.Query_Expression_And_{And: &updogv1.Query_Expression_And{Exprs: kids}}}
	}
	return &updogv1.Query_Expression{Value: &updogv1.Query_Expression_Or_{Or: &updogv1.Query_Expression_Or{Exprs: kids}}}
}

func c11FromProto(e *updogv1.Query_Expression) *c11Node {
	if e == nil {
		return &c11Node{Op: "invalid:nil"}
	}
	switch v := e.Value.(type) {
	case *updogv1.Query_Expression_Eq:
		if v.Eq == nil {
			return &c11Node{Op: "invalid:nil eq"}
		}
		return &c11Node{Op: "eq", Col: v.Eq.Column, Val: v.Eq.Value, Ph: v.Eq.Placeholder}
	case *updogv1.Query_Expression_Not_:
		if v.Not == nil {
			return &c11Node{Op: "invalid:nil not"}
		}
		return &c11Node{Op: "not", Kids: []*c11Node{c11FromProto(v.Not.Expr)}}
	case *updogv1.Query_Expression_And_:
		n := &c11Node{Op: "and"}
		if v.And != nil {
			for _, k := range v.And.Exprs {
				n.Kids = append(n.Kids, c11FromProto(k))
			}
		}
		return n
	case *updogv1.Query_Expression_Or_:
		n := &c11Node{Op: "or"}
		if v.Or != nil {
			for _, k := range v.Or.Exprs {
				n.Kids = append(n.Kids, c11FromProto(k))
			}
		}
		return n
	}
	return &c11Node{Op: "invalid:unset"}
}

type c11Snap struct {
	Expr    *c11Node
	GroupBy []string
	Id      int32
}

func c11Snapshot(q *updogv1.Query) *c11Snap {
	if q == nil {
		return nil
	}
	return &c11Snap{Expr: c11FromProto(q.Expr), GroupBy: append([]string{}, q.GroupBy...), Id: q.Id}
}

func c11SameNode(a, b *c11Node) bool {
	if a.Op != b.Op || a.Col != b.Col || a.Val != b.Val || a.Ph != b.Ph || len(a.Kids) != len(b.Kids) {
		return false
	}
	for i := range a.Kids {
		if !c11SameNode(a.Kids[i], b.Kids[i]) {
			return false
		}
	}
	return true
}

func c11SameSnap(a, b *c11Snap) bool {
	if a == nil || b == nil {
		return a == b
	}
	if a.Id != b.Id || len(a.GroupBy) != len(b.GroupBy) || !c11SameNode(a.Expr, b.Expr) {
		return false
	}
	for i := range a.GroupBy {
		if a.GroupBy[i] != b.GroupBy[i] {
			return false
		}
	}
	return true
}

// c11Subst: the reference meaning of binding.
func c11Subst(n *c11Node, vals []string) *c11Node {
	c := &c11Node{Op: n.Op, Col: n.Col, Val: n.Val, Ph: n.Ph}
	if n.Op == "eq" && n.Ph > 0 {
		c.Val, c.Ph = vals[n.Ph-1], 0
	}
	for _, k := range n.Kids {
		c.Kids = append(c.Kids, c11Subst(k, vals))
	}
	return c
}

func c11MaxPh(n *c11Node) int {
	m := 0
	if n.Op == "eq" && int(n.Ph) > m {
		m = int(n.Ph)
	}
	for _, k := range n.Kids {
		if x := c11MaxPh(k); x > m {
			m = x
		}
	}
	return m
}

func c11Show(b *strings.Builder, n *c11Node) {
	if b.Len() > 2500 {
		return
	}
	if n.Op == "eq" {
		if n.Ph != 0 {
			fmt.Fprintf(b, "(eq %s $%d", n.Col, n.Ph)
			if n.Val != "" {
				fmt.Fprintf(b, " value=%q", n.Val)
			}
			b.WriteString(")")
		} else {
			fmt.Fprintf(b, "(eq %s %q)", n.Col, n.Val)
		}
		return
	}
	b.WriteString("(" + n.Op)
	for _, k := range n.Kids {
		b.WriteString(" ")
		c11Show(b, k)
	}
	b.WriteString(")")
}

func c11ShowSnap(s *c11Snap) string {
	if s == nil {
		return "<nil query>"
	}
	var b strings.Builder
	c11Show(&b, s.Expr)
	fmt.Fprintf(&b, " group-by=%q id=%d", s.GroupBy, s.Id)
	return b.String()
}

// c11Text spells a tree as query text; every compound operand is parenthesised, so the text needs no precedence.
func c11Quote(s string) string { return `"` + strings.ReplaceAll(s, `"`, `""`) + `"` }

func c11Text(n *c11Node) string {
	switch n.Op {
	case "eq":
		if n.Ph > 0 {
			return fmt.Sprintf("%s = $%d", n.Col, n.Ph)
		}
		return n.Col + " = " + c11Quote(n.Val)
	case "not":
		return "^ " + c11Operand(n.Kids[0])
	}
	op := " & "
	if n.Op == "or" {
		op = " | "
	}
	parts := make([]string, len(n.Kids))
	for i, k := range n.Kids {
		parts[i] = c11Operand(k)
	}
	return strings.Join(parts, op)
}

func c11Operand(n *c11Node) string {
	if n.Op == "eq" {
		return c11Text(n)
	}
	return "( " + c11Text(n) + " )"
}

func c11QueryText(n *c11Node, groupBy []string) string {
	s := c11Text(n)
	if len(groupBy) > 0 {
		s += " ; " + strings.Join(groupBy, ", ")
	}
	return s
}

// ---------------------------------------------------------------------------------------------------------------
// arguments

type c11Arg struct {
	S    *string `json:"s,omitempty"`
	SB64 *string `json:"s_b64,omitempty"` // string that is not valid UTF-8
	I    *int64  `json:"i,omitempty"`
}

func c11S(s string) c11Arg {
	if !utf8.ValidString(s) {
		b := base64.StdEncoding.EncodeToString([]byte(s))
		return c11Arg{SB64: &b}
	}
	return c11Arg{S: &s}
}
func c11I(i int64) c11Arg { return c11Arg{I: &i} }

func (a c11Arg) goValue() interface{} {
	switch {
	case a.I != nil:
		if *a.I%2 != 0 && *a.I > -1<<31 && *a.I < 1<<31 {
			return int(*a.I) // plain int and int64 both occur
		}
		return *a.I
	case a.SB64 != nil:
		b, _ := base64.StdEncoding.DecodeString(*a.SB64)
		return string(b)
	case a.S != nil:
		return *a.S
	}
	return ""
}

// literal: the value a one-shot query has to spell for this argument
func (a c11Arg) literal() string {
	if a.I != nil {
		return strconv.FormatInt(*a.I, 10)
	}
	return a.goValue().(string)
}

func c11Literals(args []c11Arg) []string {
	out := make([]string, len(args))
	for i, a := range args {
		out[i] = a.literal()
	}
	return out
}

func c11GoArgs(args []c11Arg) []interface{} {
	out := make([]interface{}, len(args))
	for i, a := range args {
		out[i] = a.goValue()
	}
	return out
}

// ---------------------------------------------------------------------------------------------------------------
// violations, guarded calls

type c11Violation struct {
	what     string
	input    map[string]interface{}
	expected string
	got      string
}

type c11Outcome struct {
	cols    []string
	rows    [][]string
	err     error
	pan     interface{}
	timeout bool
}

func (o c11Outcome) String() string {
	switch {
	case o.timeout:
		return "did not return within 20 s"
	case o.pan != nil:
		return fmt.Sprintf("panic: %v", o.pan)
	case o.err != nil:
		return fmt.Sprintf("error: %v", o.err)
	}
	s := fmt.Sprintf("columns %q rows %q", o.cols, o.rows)
	if len(s) > 1500 {
		s = s[:1500] + "..."
	}
	return s
}

func (o c11Outcome) ok() bool { return !o.timeout && o.pan == nil && o.err == nil }

func c11SameRows(a, b c11Outcome) bool {
	return fmt.Sprintf("%q|%q", a.cols, a.rows) == fmt.Sprintf("%q|%q", b.cols, b.rows)
}

// c11Guard runs f with panic capture and a watchdog.
func c11Guard(f func() c11Outcome) c11Outcome {
	ch := make(chan c11Outcome, 1)
	go func() {
		defer func() {
			if r := recover(); r != nil {
				ch <- c11Outcome{pan: r}
			}
		}()
		ch <- f()
	}()
	select {
	case o := <-ch:
		return o
	case <-time.After(20 * time.Second):
		return c11Outcome{timeout: true}
	}
}

func c11ReadRows(rows *sql.Rows, err error) c11Outcome {
	if err != nil {
		return c11Outcome{err: err}
	}
	defer rows.Close()
	cols, err := rows.Columns()
	if err != nil {
		return c11Outcome{err: err}
	}
	o := c11Outcome{cols: cols}
	for rows.Next() {
		vals := make([]interface{}, len(cols))
		ptrs := make([]interface{}, len(cols))
		for i := range vals {
			ptrs[i] = &vals[i]
		}
		if err := rows.Scan(ptrs...); err != nil {
			return c11Outcome{err: err}
		}
		r := make([]string, len(cols))
		for i, v := range vals {
			if b, ok := v.([]byte); ok {
				v = string(b)
			}
			r[i] = fmt.Sprintf("%T:%v", v, v)
		}
		o.rows = append(o.rows, r)
	}
	if err := rows.Err(); err != nil {
		return c11Outcome{err: err}
	}
	return o
}

// ---------------------------------------------------------------------------------------------------------------
// level F: ReplacePlaceholders

// c11Replace calls queryparser.ReplacePlaceholders(query, values) whatever its result list is (query[, error]).
func c11Replace(q *updogv1.Query, vals []string) (res *updogv1.Query, err error, pan interface{}) {
	defer func() {
		if r := recover(); r != nil {
			pan = r
		}
	}()
	out := reflect.ValueOf(queryparser.ReplacePlaceholders).Call([]reflect.Value{reflect.ValueOf(q), reflect.ValueOf(vals)})
	for _, o := range out {
		switch v := o.Interface().(type) {
		case *updogv1.Query:
			res = v
		case error:
			err = v
		}
	}
	return res, err, nil
}

func c11Scribble(e *updogv1.Query_Expression) {
	if e == nil {
		return
	}
	switch v := e.Value.(type) {
	case *updogv1.Query_Expression_Eq:
		if v.Eq != nil {
			v.Eq.Column, v.Eq.Value, v.Eq.Placeholder = "SCRIBBLED", "SCRIBBLED", 77
		}
	case *updogv1.Query_Expression_Not_:
		if v.Not != nil {
			c11Scribble(v.Not.Expr)
		}
	case *updogv1.Query_Expression_And_:
		if v.And != nil {
			for _, k := range v.And.Exprs {
				c11Scribble(k)
			}
			if len(v.And.Exprs) > 0 {
				v.And.Exprs[0] = &updogv1.Query_Expression{}
			}
		}
	case *updogv1.Query_Expression_Or_:
		if v.Or != nil {
			for _, k := range v.Or.Exprs {
				c11Scribble(k)
			}
			if len(v.Or.Exprs) > 0 {
				v.Or.Exprs[0] = &updogv1.Query_Expression{}
			}
		}
	}
}

type c11FCase struct {
	Expr    *c11Node `json:"expr"`
	GroupBy []string `json:"group_by"`
	Id      int32    `json:"id"`
	Values  []c11Arg `json:"values"` // strings only
}

func c11CheckF(c *c11FCase) *c11Violation {
	vals := c11Literals(c.Values)
	input := map[string]interface{}{"level": "ReplacePlaceholders", "expr": c.Expr, "group_by": c.GroupBy, "id": c.Id, "values": c.Values,
		"tree": c11ShowSnap(&c11Snap{Expr: c.Expr, GroupBy: c.GroupBy, Id: c.Id})}
	q := &updogv1.Query{Id: c.Id, Expr: c11ToProto(c.Expr), GroupBy: append([]string(nil), c.GroupBy...)}
	before := c11Snapshot(q)
	valsCopy := append([]string(nil), vals...)
	res, err, pan := c11Replace(q, vals)
	after := c11Snapshot(q)
	if !c11SameSnap(before, after) {
		return &c11Violation{"ReplacePlaceholders modified the query it was given", input, c11ShowSnap(before), c11ShowSnap(after)}
	}
	for i := range vals {
		if vals[i] != valsCopy[i] {
			return &c11Violation{"ReplacePlaceholders modified the value list", input, fmt.Sprintf("%q", valsCopy), fmt.Sprintf("%q", vals)}
		}
	}
	if c11MaxPh(c.Expr) > len(vals) {
		// too few values: anything but a normal return of a query
		if pan == nil && err == nil && res != nil {
			return &c11Violation{"ReplacePlaceholders silently returned a query although fewer values than the highest placeholder were supplied", input,
				"no query (an error where the signature allows one)", c11ShowSnap(c11Snapshot(res))}
		}
		return nil
	}
	if pan != nil {
		return &c11Violation{"ReplacePlaceholders panicked although enough values were supplied", input, "the bound query", fmt.Sprintf("panic: %v", pan)}
	}
	if err != nil || res == nil {
		return &c11Violation{"ReplacePlaceholders failed although enough values were supplied", input, "the bound query", fmt.Sprintf("query=%v err=%v", res, err)}
	}
	want := &c11Snap{Expr: c11Subst(c.Expr, vals), GroupBy: c.GroupBy, Id: c.Id}
	got := c11Snapshot(res)
	if !c11SameSnap(want, got) {
		return &c11Violation{"ReplacePlaceholders did not produce the tree with every $n replaced by the n-th value and nothing else changed", input, c11ShowSnap(want), c11ShowSnap(got)}
	}
	// no sharing between the result and the original
	c11Scribble(res.Expr)
	for i := range res.GroupBy {
		res.GroupBy[i] = "SCRIBBLED"
	}
	if len(res.GroupBy) > 0 {
		_ = append(res.GroupBy[:0], "SCRIBBLED")
	}
	res.Id = 99
	if after2 := c11Snapshot(q); !c11SameSnap(before, after2) {
		return &c11Violation{"the query returned by ReplacePlaceholders shares storage with the original (writing to the result changed the original)", input, c11ShowSnap(before), c11ShowSnap(after2)}
	}
	return nil
}

// ---------------------------------------------------------------------------------------------------------------
// level D: database/sql

type c11Exec struct {
	Args []c11Arg `json:"args"`
}

type c11DCase struct {
	Path  string              `json:"path"` // "direct", "prepared", "raw"
	Query string              `json:"query"`
	MaxPh int                 `json:"highest_placeholder"`
	Execs []c11Exec           `json:"executions"`
	Rows  []map[string]string `json:"index_rows,omitempty"`
	expr  *c11Node
	gb    []string
}

type c11Env struct {
	t          *testing.T
	dir        string
	nfile      int
	rows       []map[string]string
	customRows bool
	db         *sql.DB
	oneShot    map[string]c11Outcome
}

// c11Rows: the content of the index (deterministic, skewed so that different bindings give different counts).
func c11Rows() []map[string]string {
	a := []string{"1", "1", "1", "2", "2", "42", `x"y`, "é", "-7"}
	b := []string{"1", "2", "2", "2", "l\nb", "", "", "42"}
	c := []string{"foo", "foo", "foo", "bar", `x"y`, "$1", "1"}
	var rows []map[string]string
	x := uint32(12345)
	next := func(n int) int {
		x = x*1664525 + 1013904223
		return int((x >> 16) % uint32(n))
	}
	for i := 0; i < 150; i++ {
		r := map[string]string{}
		if next(10) > 0 {
			r["a"] = a[next(len(a))]
		}
		if next(8) > 0 {
			r["b"] = b[next(len(b))]
		}
		if next(6) > 0 {
			r["c"] = c[next(len(c))]
		}
		rows = append(rows, r)
	}
	return rows
}

func (e *c11Env) newIndexFile() (string, error) {
	e.nfile++
	path := filepath.Join(e.dir, fmt.Sprintf("c11_%d.updog", e.nfile))
	w := updog.NewIndexWriter(path)
	for _, r := range e.rows {
		if _, err := w.AddRow(r); err != nil {
			return "", err
		}
	}
	return path, w.Flush()
}

func (e *c11Env) open() error {
	path, err := e.newIndexFile()
	if err != nil {
		return err
	}
	db, err := sql.Open("updog", "file:"+path)
	if err != nil {
		return err
	}
	e.db = db
	e.oneShot = map[string]c11Outcome{}
	return nil
}

// reference: the one-shot query with the values spelled as literals, run through the real DB.Query.
func (e *c11Env) reference(c *c11DCase, args []c11Arg) (string, c11Outcome) {
	lit := c11QueryText(c11Subst(c.expr, c11Literals(args)), c.gb)
	if o, ok := e.oneShot[lit]; ok {
		return lit, o
	}
	o := c11Guard(func() c11Outcome { return c11ReadRows(e.db.Query(lit)) })
	if len(e.oneShot) < 200000 {
		e.oneShot[lit] = o
	}
	return lit, o
}

func (e *c11Env) checkD(c *c11DCase) *c11Violation {
	input := map[string]interface{}{"level": "database/sql", "path": c.Path, "query": c.Query, "highest_placeholder": c.MaxPh, "executions": c.Execs}
	if e.customRows {
		input["index_rows"] = e.rows
	} else {
		input["index"] = "the harness' built-in 150-row table over columns a, b, c (c11Rows)"
	}
	viol := func(what, exp, got string, k int) *c11Violation {
		in := map[string]interface{}{}
		for key, v := range input {
			in[key] = v
		}
		in["failing_execution"] = k
		return &c11Violation{what, in, exp, got}
	}
	var stmt *sql.Stmt
	var rawConn *sql.Conn
	var rawStmt sqldriver.Stmt
	var rawSnap *c11Snap
	switch c.Path {
	case "prepared":
		o := c11Guard(func() c11Outcome {
			s, err := e.db.Prepare(c.Query)
			stmt = s
			return c11Outcome{err: err}
		})
		if !o.ok() {
			return viol("DB.Prepare failed on a well-formed query", "a statement", o.String(), -1)
		}
		defer stmt.Close()
	case "raw":
		o := c11Guard(func() c11Outcome {
			cn, err := e.db.Conn(context.Background())
			if err != nil {
				return c11Outcome{err: err}
			}
			rawConn = cn
			return c11Outcome{err: cn.Raw(func(dc interface{}) error {
				s, err := dc.(sqldriver.Conn).Prepare(c.Query)
				rawStmt = s
				return err
			})}
		})
		if rawConn != nil {
			defer rawConn.Close()
		}
		if !o.ok() {
			return viol("driver Conn.Prepare failed on a well-formed query", "a statement", o.String(), -1)
		}
		rawSnap = c11Snapshot(c11StmtQuery(rawStmt))
	}
	for k, ex := range c.Execs {
		few := len(ex.Args) < c.MaxPh
		var got c11Outcome
		switch c.Path {
		case "direct":
			got = c11Guard(func() c11Outcome { return c11ReadRows(e.db.Query(c.Query, c11GoArgs(ex.Args)...)) })
		case "prepared":
			got = c11Guard(func() c11Outcome { return c11ReadRows(stmt.Query(c11GoArgs(ex.Args)...)) })
		case "raw":
			if len(ex.Args) != c.MaxPh {
				continue // database/sql never calls driver.Stmt.Query with a count different from NumInput
			}
			got = c11Guard(func() c11Outcome { return c11RawQuery(rawStmt, ex.Args) })
		}
		desc := fmt.Sprintf("execution %d with arguments %q", k, c11Literals(ex.Args))
		if got.pan != nil || got.timeout {
			exp := "rows of the one-shot query"
			if few {
				exp = "an error (fewer arguments than the highest placeholder number)"
			}
			return viol(c.Path+" path: "+desc+" did not return normally", exp, got.String(), k)
		}
		if few {
			if got.err == nil {
				return viol(c.Path+" path: "+desc+" succeeded although fewer arguments than the highest placeholder number were supplied (a silently different query ran)",
					"an error", got.String(), k)
			}
			continue
		}
		if len(ex.Args) > c.MaxPh && got.err != nil {
			continue // the statement does not say what surplus arguments do; an error is acceptable
		}
		lit, ref := e.reference(c, ex.Args)
		if ref.pan != nil || ref.timeout {
			// the one-shot query itself misbehaves: not this property's subject (no placeholders involved); skip
			continue
		}
		if (ref.err != nil) != (got.err != nil) || (ref.err == nil && !c11SameRows(ref, got)) {
			return viol(c.Path+" path: "+desc+" does not return what the one-shot query with literal values returns",
				fmt.Sprintf("one-shot %q -> %s", lit, ref.String()), got.String(), k)
		}
		if rawSnap != nil {
			if now := c11Snapshot(c11StmtQuery(rawStmt)); !c11SameSnap(rawSnap, now) {
				return viol("raw path: "+desc+" changed the tree stored in the prepared statement", c11ShowSnap(rawSnap), c11ShowSnap(now), k)
			}
		}
	}
	return nil
}

func c11RawQuery(st sqldriver.Stmt, args []c11Arg) c11Outcome {
	dv := make([]sqldriver.Value, len(args))
	for i, a := range args {
		dv[i] = a.goValue()
	}
	rows, err := st.Query(dv)
	if err != nil {
		return c11Outcome{err: err}
	}
	defer rows.Close()
	o := c11Outcome{cols: append([]string{}, rows.Columns()...)}
	for {
		vals := make([]sqldriver.Value, len(o.cols))
		if err := rows.Next(vals); err != nil {
			break
		}
		r := make([]string, len(vals))
		for i, v := range vals {
			r[i] = fmt.Sprintf("%T:%v", v, v)
		}
		o.rows = append(o.rows, r)
	}
	return o
}

// c11StmtQuery digs the stored *updogv1.Query out of a driver statement (first field of that type), nil if none.
func c11StmtQuery(st sqldriver.Stmt) *updogv1.Query {
	v := reflect.ValueOf(st)
	for v.IsValid() && (v.Kind() == reflect.Ptr || v.Kind() == reflect.Interface) {
		if v.IsNil() {
			return nil
		}
		v = v.Elem()
	}
	if !v.IsValid() || v.Kind() != reflect.Struct {
		return nil
	}
	want := reflect.TypeOf((*updogv1.Query)(nil))
	for i := 0; i < v.NumField(); i++ {
		if f := v.Field(i); f.Type() == want {
			return (*updogv1.Query)(unsafe.Pointer(f.Pointer()))
		}
	}
	return nil
}

// ---------------------------------------------------------------------------------------------------------------
// generators

var c11StringPool = []string{"1", "2", "42", `x"y`, "l\nb", "é", "", "foo", "$1", "-7", `"`, `""`, "a = \"1\"", " 1", "1 ", "bar", "日本", "\x00", "nope"}

func c11ArgPool() []c11Arg {
	var p []c11Arg
	for _, s := range c11StringPool {
		p = append(p, c11S(s))
	}
	return append(p, c11I(1), c11I(2), c11I(42), c11I(-7), c11I(0), c11I(1<<40))
}

func c11ArgLists(pool []c11Arg, maxLen int) [][]c11Arg {
	lists := [][]c11Arg{{}}
	prev := [][]c11Arg{{}}
	for l := 1; l <= maxLen; l++ {
		var cur [][]c11Arg
		for _, p := range prev {
			for _, a := range pool {
				cur = append(cur, append(append([]c11Arg{}, p...), a))
			}
		}
		lists = append(lists, cur...)
		prev = cur
	}
	return lists
}

type c11Gen struct{ rng *rand.Rand }

func (g *c11Gen) leaf(maxPh int, cols []string) *c11Node {
	col := cols[g.rng.Intn(len(cols))]
	if g.rng.Intn(5) < 3 {
		return c11Ph(col, int32(1+g.rng.Intn(maxPh)))
	}
	return c11Eq(col, c11StringPool[g.rng.Intn(len(c11StringPool))])
}

func (g *c11Gen) tree(depth, maxPh int, cols []string) *c11Node {
	if depth == 0 || g.rng.Intn(4) == 0 {
		return g.leaf(maxPh, cols)
	}
	switch g.rng.Intn(5) {
	case 0:
		return c11Not(g.tree(depth-1, maxPh, cols))
	case 1, 2:
		n := &c11Node{Op: "and"}
		for k := 1 + g.rng.Intn(3); k > 0; k-- {
			n.Kids = append(n.Kids, g.tree(depth-1, maxPh, cols))
		}
		return n
	}
	n := &c11Node{Op: "or"}
	for k := 1 + g.rng.Intn(3); k > 0; k-- {
		n.Kids = append(n.Kids, g.tree(depth-1, maxPh, cols))
	}
	return n
}

func (g *c11Gen) args(n int, pool []c11Arg) []c11Arg {
	out := make([]c11Arg, n)
	for i := range out {
		out[i] = pool[g.rng.Intn(len(pool))]
	}
	return out
}

// ---------------------------------------------------------------------------------------------------------------
// JSON helpers

func (n *c11Node) MarshalJSON() ([]byte, error) {
	m := map[string]interface{}{"op": n.Op}
	if n.Op == "eq" {
		m["col"] = n.Col
		if n.Ph != 0 {
			m["ph"] = n.Ph
		}
		if utf8.ValidString(n.Val) {
			if n.Val != "" || n.Ph == 0 {
				m["val"] = n.Val
			}
		} else {
			m["val_b64"] = base64.StdEncoding.EncodeToString([]byte(n.Val))
		}
	} else {
		m["kids"] = n.Kids
	}
	return json.Marshal(m)
}

func (n *c11Node) UnmarshalJSON(b []byte) error {
	var m struct {
		Op     string     `json:"op"`
		Col    string     `json:"col"`
		Val    string     `json:"val"`
		ValB64 string     `json:"val_b64"`
		Ph     int32      `json:"ph"`
		Kids   []*c11Node `json:"kids"`
	}
	if err := json.Unmarshal(b, &m); err != nil {
		return err
	}
	n.Op, n.Col, n.Val, n.Ph, n.Kids = m.Op, m.Col, m.Val, m.Ph, m.Kids
	if m.ValB64 != "" {
		raw, err := base64.StdEncoding.DecodeString(m.ValB64)
		if err != nil {
			return err
		}
		n.Val = string(raw)
	}
	switch n.Op {
	case "eq":
	case "not":
		if len(n.Kids) != 1 {
			return fmt.Errorf("not needs one operand")
		}
	case "and", "or":
		if len(n.Kids) == 0 {
			return fmt.Errorf("%s without operands", n.Op)
		}
	default:
		return fmt.Errorf("unknown op %q", n.Op)
	}
	return nil
}

func c11WriteJSON(path string, v interface{}) {
	if path == "" {
		return
	}
	if b, err := json.Marshal(v); err == nil {
		_ = os.WriteFile(path, b, 0644)
	}
}

// ---------------------------------------------------------------------------------------------------------------
// the test

type c11Run struct {
	t          *testing.T
	env        *c11Env
	cases      int64
	nontrivial int64
	viol       *c11Violation
	deadline   time.Time
	timedOut   bool
	skipFew    bool
}

func (r *c11Run) f(c *c11FCase) bool {
	if r.viol != nil || r.timedOut {
		return false
	}
	atomic.AddInt64(&r.cases, 1)
	if c11MaxPh(c.Expr) > 0 {
		r.nontrivial++
	}
	r.viol = c11CheckF(c)
	return r.viol == nil
}

func (r *c11Run) d(path string, expr *c11Node, gb []string, execs [][]c11Arg) bool {
	if r.viol != nil || r.timedOut {
		return false
	}
	if time.Now().After(r.deadline) {
		r.timedOut = true
		return false
	}
	c := &c11DCase{Path: path, Query: c11QueryText(expr, gb), MaxPh: c11MaxPh(expr), expr: expr, gb: gb}
	for _, a := range execs {
		if r.skipFew && len(a) < c.MaxPh {
			continue
		}
		c.Execs = append(c.Execs, c11Exec{Args: a})
	}
	if len(c.Execs) == 0 {
		return true
	}
	atomic.AddInt64(&r.cases, int64(len(c.Execs)))
	if c.MaxPh > 0 {
		r.nontrivial += int64(len(c.Execs))
	}
	r.viol = r.env.checkD(c)
	if r.viol != nil {
		if k, ok := r.viol.input["failing_execution"].(int); ok && k >= 0 && k < len(c.Execs) && len(c.Execs) > 1 {
			// does the failing execution fail on its own (fresh index file, fresh sql.DB)? then report that smaller case
			fresh := &c11Env{t: r.t, dir: r.env.dir, nfile: r.env.nfile + 1000, rows: r.env.rows, customRows: r.env.customRows}
			if err := fresh.open(); err == nil {
				c2 := *c
				c2.Execs = []c11Exec{c.Execs[k]}
				if v2 := fresh.checkD(&c2); v2 != nil {
					r.viol = v2
				}
			}
		}
	}
	return r.viol == nil
}

func TestVerifHarnessC11(t *testing.T) {
	start := time.Now()
	bound := os.Getenv("VERIF_BOUND")
	if bound == "" {
		bound = "quick"
	}
	seed := int64(1)
	if s := os.Getenv("VERIF_SEED"); s != "" {
		if n, err := strconv.ParseInt(s, 10, 64); err == nil {
			seed = n
		}
	}
	env := &c11Env{t: t, dir: t.TempDir(), rows: c11Rows()}
	r := &c11Run{t: t, env: env, skipFew: strings.Contains(strings.ToLower(os.Getenv("VERIF_HINT")), "skipfew")}
	boundText := ""
	writeStats := func() {
		c11WriteJSON(os.Getenv("VERIF_STATS"), map[string]interface{}{"cases": atomic.LoadInt64(&r.cases), "distinct_nontrivial": r.nontrivial, "bound": boundText, "exhaustive": false})
	}
	report := func(v *c11Violation) {
		c11WriteJSON(os.Getenv("VERIF_OUT"), map[string]interface{}{"property": "C11", "what": v.what, "input": v.input, "expected": v.expected, "got": v.got})
		in, _ := json.Marshal(v.input)
		if len(in) > 1200 {
			in = append(in[:1200], "..."...)
		}
		t.Fatalf("C11 violated: %s\n input   : %s\n expected: %s\n got     : %s", v.what, in, v.expected, v.got)
	}
	fatalHarness := func(format string, a ...interface{}) {
		fmt.Fprintf(os.Stderr, "C11 HARNESS ERROR: "+format+"\n", a...)
		os.Exit(2)
	}

	if os.Getenv("VERIF_MODE") == "replay" {
		raw, err := os.ReadFile(os.Getenv("VERIF_CASE"))
		if err != nil {
			fatalHarness("cannot read VERIF_CASE: %v", err)
		}
		var head struct {
			Input struct {
				Level string `json:"level"`
			} `json:"input"`
		}
		if err := json.Unmarshal(raw, &head); err != nil {
			fatalHarness("cannot decode VERIF_CASE: %v", err)
		}
		boundText = "replay of one case"
		r.cases, r.nontrivial = 1, 1
		var v *c11Violation
		if head.Input.Level == "ReplacePlaceholders" {
			var c struct {
				Input c11FCase `json:"input"`
			}
			if err := json.Unmarshal(raw, &c); err != nil || c.Input.Expr == nil {
				fatalHarness("cannot decode VERIF_CASE: %v", err)
			}
			v = c11CheckF(&c.Input)
		} else {
			var c struct {
				Input c11DCase `json:"input"`
			}
			if err := json.Unmarshal(raw, &c); err != nil {
				fatalHarness("cannot decode VERIF_CASE: %v", err)
			}
			if len(c.Input.Rows) > 0 {
				env.rows, env.customRows = c.Input.Rows, true
			}
			pq, err := queryparser.ParseQuery(c.Input.Query)
			if err != nil {
				fatalHarness("the case's query text does not parse: %v", err)
			}
			c.Input.expr, c.Input.gb = c11FromProto(pq.Expr), pq.GroupBy
			if c.Input.MaxPh == 0 {
				c.Input.MaxPh = c11MaxPh(c.Input.expr)
			}
			if err := env.open(); err != nil {
				fatalHarness("cannot create the index: %v", err)
			}
			v = env.checkD(&c.Input)
		}
		writeStats()
		if v != nil {
			report(v)
		}
		return
	}

	limit := 18 * time.Second
	if bound == "thorough" {
		limit = 240 * time.Second
	}
	r.deadline = start.Add(limit)
	if err := env.open(); err != nil {
		fatalHarness("cannot create the index: %v", err)
	}
	c11Search(r, bound, seed, &boundText)
	if r.timedOut {
		boundText += fmt.Sprintf(" [stopped early at the %v time limit]", limit)
	}
	writeStats()
	if r.viol != nil {
		report(r.viol)
	}
	t.Logf("C11: %d cases, no violation (%s) in %v", r.cases, boundText, time.Since(start).Round(time.Millisecond))
}

func c11Search(r *c11Run, bound string, seed int64, boundText *string) {
	thorough := bound == "thorough"
	pool := c11ArgPool()
	small := []c11Arg{c11S("1"), c11S("2"), c11S(`x"y`), c11I(42)}
	gbs := [][]string{nil, {"c"}, {"a", "b"}}

	nF, nD, seqLen := 50000, 2500, 3
	if thorough {
		nF, nD, seqLen = 1500000, 80000, 5
	}
	*boundText = fmt.Sprintf("bound=%s seed=%d: level F (ReplacePlaceholders): every tree of <=2 leaves over 7 leaf kinds x value lists of length 0..4 over 3 strings, %d seeded random trees (depth<=4, placeholders 1..6 with repeats/gaps, "+
		"19 nasty strings) with too few/exact/too many values, incl. no-sharing check; level D (database/sql, 150-row index, columns a,b,c): direct and prepared path, 24 query shapes x every argument list of length 0..%d over {\"1\",\"2\",'x\"y',42} "+
		"as one execution sequence per statement; every sequence of <=%d executions over 5 argument lists for 3 statements; %d seeded random queries (depth<=3, group-by none/c/a,b) each with a random sequence of 1..6 executions "+
		"(too few/exact/too many; strings with quotes/newlines/non-ASCII/NUL, int64) on the direct, prepared and raw driver.Stmt path with statement-tree snapshots. skipfew=%v",
		bound, seed, nF, map[bool]int{false: 3, true: 5}[thorough], seqLen, nD, r.skipFew)

	// ---- the likely failures first: too few arguments on both paths, repeated execution
	first := []struct {
		e *c11Node
		a [][]c11Arg
	}{
		{c11Ph("a", 1), [][]c11Arg{{c11S("1")}, {}, {c11S("2")}, {c11S("1"), c11S("2")}}},
		{c11And(c11Ph("a", 1), c11Ph("b", 2)), [][]c11Arg{{c11S("1"), c11S("2")}, {c11S("1")}, {}, {c11S("2"), c11S("2")}, {c11S("1"), c11S("2")}}},
		{c11Ph("a", 2), [][]c11Arg{{c11S("x"), c11S("1")}, {c11S("1")}, {c11S("x"), c11S("2")}}},
		{c11Or(c11Ph("a", 1), c11Ph("b", 1)), [][]c11Arg{{c11S("1")}, {c11S("2")}, {c11I(42)}, {c11S("1")}}},
		{c11Eq("a", "1"), [][]c11Arg{{}, {c11S("1")}, {}}},
	}
	for _, path := range []string{"prepared", "direct", "raw"} {
		for _, f := range first {
			for _, gb := range gbs[:2] {
				if !r.d(path, f.e, gb, f.a) {
					return
				}
			}
		}
	}

	// ---- level F, enumerated
	leaves := []*c11Node{c11Ph("a", 1), c11Ph("a", 2), c11Ph("b", 1), c11Ph("b", 3), c11Eq("c", `x"y`), c11Eq("a", ""), c11Ph("c", 4)}
	var trees []*c11Node
	trees = append(trees, leaves...)
	for _, x := range leaves {
		trees = append(trees, c11Not(x), c11And(x), c11Or(x), c11Not(c11Not(x)))
		for _, y := range leaves {
			trees = append(trees, c11And(x, y), c11Or(x, y), c11And(x, c11Not(y)), c11Or(c11Not(x), c11And(y)), c11Not(c11Or(x, y)))
		}
	}
	strs := []c11Arg{c11S("v"), c11S(""), c11S("q\"\n é")}
	valueLists := c11ArgLists(strs, 4)
	for i, tr := range trees {
		for j, vl := range valueLists {
			var gb []string
			if (i+j)%3 == 0 {
				gb = []string{"a", "c"}
			}
			if !r.f(&c11FCase{Expr: tr, GroupBy: gb, Id: int32((i + j) % 4), Values: vl}) {
				return
			}
		}
	}

	// ---- level F, random
	g := &c11Gen{rng: rand.New(rand.NewSource(seed))}
	cols := []string{"a", "b", "c", "d_1"}
	strPool := pool[:len(c11StringPool)]
	for i := 0; i < nF; i++ {
		tr := g.tree(1+g.rng.Intn(4), 1+g.rng.Intn(6), cols)
		m := c11MaxPh(tr)
		n := m
		switch g.rng.Intn(6) {
		case 0:
			n = g.rng.Intn(m + 1) // possibly too few
		case 1:
			n = m + 1 + g.rng.Intn(3) // too many
		}
		var gb []string
		if g.rng.Intn(2) == 0 {
			gb = cols[:1+g.rng.Intn(3)]
		}
		if !r.f(&c11FCase{Expr: tr, GroupBy: gb, Id: int32(g.rng.Intn(3)), Values: g.args(n, strPool)}) {
			return
		}
	}

	// ---- level D, enumerated: query shapes x all short argument lists, executed as one long sequence per statement
	a1, a2, b1, b2, b3 := c11Ph("a", 1), c11Ph("a", 2), c11Ph("b", 1), c11Ph("b", 2), c11Ph("b", 3)
	shapes := []*c11Node{
		a1, a2, c11Not(a1), c11And(a1, b2), c11And(a2, b1), c11Or(a1, b1), c11Or(a1, a2), c11And(a1, b3), c11Or(c11Ph("a", 3), b1),
		c11And(a1, c11Eq("b", "2")), c11Or(c11Eq("a", `x"y`), b1), c11And(c11Not(a1), b2), c11Not(c11Or(a1, b2)), c11And(a1, c11Or(b2, c11Ph("c", 3))),
		c11Or(c11And(a1, b1), c11And(a2, b2)), c11And(a1, a1), c11Or(a1, c11Not(a1)), c11Ph("c", 1), c11And(c11Ph("c", 2), a1), c11Ph("d", 1),
		c11And(a1, c11Eq("d", "1")), c11Eq("b", "l\nb"), c11Or(c11Eq("c", "$1"), c11Ph("c", 1)), c11Not(c11Not(c11Ph("b", 2))),
	}
	listLen := 3
	if thorough {
		listLen = 5
	}
	lists := c11ArgLists(small, listLen)
	for i, sh := range shapes {
		for _, path := range []string{"direct", "prepared", "raw"} {
			gb := gbs[i%len(gbs)]
			if i == len(shapes)-1 {
				gb = []string{"nosuchcolumn"}
			}
			if !r.d(path, sh, gb, lists) {
				return
			}
		}
	}

	// ---- level D: every execution history of <= seqLen executions over 5 argument lists, one statement each
	hist := [][]c11Arg{{c11S("1"), c11S("2")}, {c11S("2"), c11S("1")}, {c11S(`x"y`), c11I(42)}, {c11S("1")}, {c11S("1"), c11S("2"), c11S("3")}}
	var seqs [][][]c11Arg
	var rec func(cur [][]c11Arg, left int)
	rec = func(cur [][]c11Arg, left int) {
		if len(cur) > 0 {
			seqs = append(seqs, append([][]c11Arg{}, cur...))
		}
		if left == 0 {
			return
		}
		for _, h := range hist {
			rec(append(cur, h), left-1)
		}
	}
	rec(nil, seqLen)
	for _, sh := range []*c11Node{c11And(a1, b2), c11Or(a2, b1), c11And(c11Not(a1), c11Or(b2, c11Eq("c", "foo")))} {
		for _, path := range []string{"prepared", "raw", "direct"} {
			for _, s := range seqs {
				if !r.d(path, sh, []string{"c"}, s) {
					return
				}
			}
		}
	}

	// ---- level D, random
	g = &c11Gen{rng: rand.New(rand.NewSource(seed + 1))}
	dcols := []string{"a", "b", "c"}
	for i := 0; i < nD; i++ {
		tr := g.tree(1+g.rng.Intn(3), 1+g.rng.Intn(4), dcols)
		m := c11MaxPh(tr)
		var execs [][]c11Arg
		for k := 1 + g.rng.Intn(6); k > 0; k-- {
			n := m
			switch g.rng.Intn(8) {
			case 0:
				n = g.rng.Intn(m + 1)
			case 1:
				n = m + 1 + g.rng.Intn(2)
			}
			execs = append(execs, g.args(n, pool))
		}
		path := []string{"prepared", "direct", "raw"}[i%3]
		if !r.d(path, tr, gbs[g.rng.Intn(len(gbs))], execs) {
			return
		}
	}
}
