package main

// Real-code harness for property C19 — "`updog create` ingests a CSV faithfully in both modes".
//
// Oracle: the harness GENERATES (header, records) first and encodes them into a CSV file with its own
// RFC-4180 encoder (c19Encode), so the expected parse is known by construction and does not depend on
// encoding/csv. The real create command (in-process createCmd and, for a subset, the built binary) is run on
// the file in normal and --big mode; the resulting index is compared against a row-by-row reference over the
// generated records (schema, value counts, NOT/OR/AND probes, full-row multiplicities, small group-bys, and
// the stored row-id sets for "record i is row i"). Malformed files (ragged records, bare/unterminated
// quotes) and pre-existing outputs must make the command fail and leave the existing output byte-identical.
//
// Environment: VERIF_MODE, VERIF_CASE, VERIF_BOUND, VERIF_SEED, VERIF_OUT, VERIF_STATS (see ../README.md) and
//   VERIF_REPO            repository root used for `go build ./cmd/updog` (default: derived from the cwd, /repo)
//   VERIF_C19_KEEPGOING=1 do not stop at the first violation: log one violation per class, still fail with
//                         the first one (exploration aid, does not change the verdict)
//   VERIF_C19_EXCLUDE=crlf remove fields containing the two-byte sequence CR LF from the INPUT SPACE (default:
//                         included; this narrows the quantifier, it does not change the oracle)

import (
	"bytes"
	"context"
	"crypto/sha256"
	"encoding/base64"
	"encoding/binary"
	"encoding/json"
	"fmt"
	"math/rand"
	"os"
	"os/exec"
	"path/filepath"
	"reflect"
	"runtime"
	"runtime/debug"
	"sort"
	"strconv"
	"strings"
	"sync"
	"sync/atomic"
	"testing"
	"time"
	"unicode/utf8"

	"github.com/RoaringBitmap/roaring"
	"github.com/akrennmair/updog"
	"github.com/cespare/xxhash/v2"
	"go.etcd.io/bbolt"
)

// ---------------------------------------------------------------------------------------------------------
// byte-exact strings in JSON

// c19B is a string that survives a JSON round trip byte for byte (invalid UTF-8 is carried as {"b64": ...}).
type c19B string

func (b c19B) MarshalJSON() ([]byte, error) {
	s := string(b)
	if utf8.ValidString(s) {
		return json.Marshal(s)
	}
	return json.Marshal(map[string]string{"b64": base64.StdEncoding.EncodeToString([]byte(s))})
}

func (b *c19B) UnmarshalJSON(data []byte) error {
	var s string
	if err := json.Unmarshal(data, &s); err == nil {
		*b = c19B(s)
		return nil
	}
	var m map[string]string
	if err := json.Unmarshal(data, &m); err != nil {
		return err
	}
	raw, err := base64.StdEncoding.DecodeString(m["b64"])
	if err != nil {
		return err
	}
	*b = c19B(raw)
	return nil
}

func c19ToB(in []string) []c19B {
	out := make([]c19B, len(in))
	for i, s := range in {
		out[i] = c19B(s)
	}
	return out
}

func c19FromB(in []c19B) []string {
	out := make([]string, len(in))
	for i, s := range in {
		out[i] = string(s)
	}
	return out
}

// ---------------------------------------------------------------------------------------------------------
// case / violation format

type c19Style struct {
	CRLF      bool `json:"crlf_line_terminators"`
	NoFinalNL bool `json:"no_final_newline"`
	QuoteAll  bool `json:"quote_all_fields"`
}

// c19Case is one input: a CSV file, how it is run, and (for well-formed files) the records it encodes.
// Both modes (normal and --big) are always run on a case.
type c19Case struct {
	Name    string     `json:"name"`
	Kind    string     `json:"kind"`              // "wellformed" | "malformed"
	CSVB64  string     `json:"csv_b64"`           // authoritative bytes of the input file
	CSVText string     `json:"csv_text"`          // the same bytes as a Go-quoted literal (informational)
	Header  []c19B     `json:"header,omitempty"`  // well-formed: raw header fields the file encodes
	Records [][]c19B   `json:"records,omitempty"` // well-formed: the records the file encodes, in order
	Style   *c19Style  `json:"style,omitempty"`   // well-formed: how header/records were encoded
	Defect  string     `json:"defect,omitempty"`  // malformed: what is wrong with the file
	Present string     `json:"output_present"`    // "none" | "garbage" | "empty" | "index": pre-existing output file
	Via     string     `json:"via"`               // "inprocess" (createCmd) | "binary" (built updog executable)
	csv     []byte     `json:"-"`
	base    string     `json:"-"`
	header  []string   `json:"-"`
	records [][]string `json:"-"`
}

type c19Violation struct {
	Property string      `json:"property"`
	What     string      `json:"what"`
	Input    *c19Case    `json:"input"`
	Expected interface{} `json:"expected"`
	Got      interface{} `json:"got"`
	class    string
}

func (c *c19Case) finish() *c19Case {
	if c.Present == "" {
		c.Present = "none"
	}
	if c.Via == "" {
		c.Via = "inprocess"
	}
	c.CSVB64 = base64.StdEncoding.EncodeToString(c.csv)
	txt := string(c.csv)
	if len(txt) > 1500 {
		txt = txt[:1500] + "...(truncated, see csv_b64)"
	}
	c.CSVText = strconv.Quote(txt)
	return c
}

func c19Wellformed(name string, header []string, records [][]string, st c19Style) *c19Case {
	c := &c19Case{Name: name, base: name, Kind: "wellformed", header: header, records: records, Style: &st}
	c.Header = c19ToB(header)
	for _, r := range records {
		c.Records = append(c.Records, c19ToB(r))
	}
	c.csv = c19Encode(header, records, st)
	return c.finish()
}

func c19Malformed(name, defect string, csv []byte) *c19Case {
	c := &c19Case{Name: name, base: name, Kind: "malformed", Defect: defect, csv: csv}
	return c.finish()
}

func (c *c19Case) with(present, via string) *c19Case {
	d := *c
	d.Present = present
	d.Via = via
	return d.finish()
}

func (c *c19Case) hasCRLFField() bool {
	for _, r := range c.records {
		for _, f := range r {
			if strings.Contains(f, "\r\n") {
				return true
			}
		}
	}
	return false
}

// ---------------------------------------------------------------------------------------------------------
// reference CSV encoder (RFC 4180) and reference header normalisation

func c19EncField(f string, nFields int, st c19Style) string {
	need := st.QuoteAll || strings.ContainsAny(f, "\",\r\n") || (f == "" && nFields == 1)
	if !need {
		return f
	}
	return `"` + strings.ReplaceAll(f, `"`, `""`) + `"`
}

func c19EncodeMatrix(header []string, records [][]string, st c19Style) [][]string {
	all := make([][]string, 0, len(records)+1)
	all = append(all, header)
	all = append(all, records...)
	out := make([][]string, len(all))
	for i, rec := range all {
		out[i] = make([]string, len(rec))
		for j, f := range rec {
			out[i][j] = c19EncField(f, len(rec), st)
		}
	}
	return out
}

func c19Join(enc [][]string, st c19Style) []byte {
	term := "\n"
	if st.CRLF {
		term = "\r\n"
	}
	var b bytes.Buffer
	for i, rec := range enc {
		b.WriteString(strings.Join(rec, ","))
		if i < len(enc)-1 || !st.NoFinalNL {
			b.WriteString(term)
		}
	}
	return b.Bytes()
}

func c19Encode(header []string, records [][]string, st c19Style) []byte {
	return c19Join(c19EncodeMatrix(header, records, st), st)
}

// c19Norm is the reference normalisation: lower-case, then every character (code point) outside a-z becomes '_'.
// "lower-cased" is ambiguous for the two non-ASCII code points whose Unicode lower case is an ASCII letter
// (U+0130 -> i, U+212A KELVIN SIGN -> k); for those both readings are accepted (strict = ASCII, alt = Unicode).
func c19Norm(h string) (strict, alt string) {
	var s, a strings.Builder
	for _, r := range h {
		switch {
		case r >= 'a' && r <= 'z':
			s.WriteRune(r)
			a.WriteRune(r)
		case r >= 'A' && r <= 'Z':
			s.WriteRune(r + ('a' - 'A'))
			a.WriteRune(r + ('a' - 'A'))
		case r == 0x130:
			s.WriteByte('_')
			a.WriteByte('i')
		case r == 0x212A:
			s.WriteByte('_')
			a.WriteByte('k')
		default:
			s.WriteByte('_')
			a.WriteByte('_')
		}
	}
	return s.String(), a.String()
}

// c19HeaderOK: valid UTF-8 fields that stay distinct after normalisation (under either reading).
func c19HeaderOK(header []string) bool {
	seen := map[string]int{}
	for j, h := range header {
		if !utf8.ValidString(h) {
			return false
		}
		s, a := c19Norm(h)
		for _, nm := range []string{s, a} {
			if k, ok := seen[nm]; ok && k != j {
				return false
			}
			seen[nm] = j
		}
	}
	return len(header) > 0
}

// ---------------------------------------------------------------------------------------------------------
// harness state

type c19H struct {
	t         *testing.T
	base      string
	bin       string
	binErr    string
	binDone   chan struct{}
	start     time.Time
	hardStop  time.Time
	cases     int64
	dirSeq    int64
	mu        sync.Mutex
	distinct  map[[32]byte]bool
	boundText []string
	exhaust   bool
	truncated int32
	keepGoing bool
	exclCRLF  bool
	first     *c19Violation
	seenClass map[string]bool
	thorough  bool
}

func (h *c19H) newDir() string {
	d := filepath.Join(h.base, fmt.Sprintf("c%06d", atomic.AddInt64(&h.dirSeq, 1)))
	if err := os.MkdirAll(d, 0o755); err != nil {
		h.t.Fatalf("harness: mkdir: %v", err)
	}
	return d
}

func (h *c19H) note(c *c19Case) {
	nontrivial := c.Kind == "malformed" || len(c.records) > 0
	if !nontrivial {
		return
	}
	sum := sha256.Sum256(c.csv)
	h.mu.Lock()
	h.distinct[sum] = true
	h.mu.Unlock()
}

func (h *c19H) writeStats() {
	p := os.Getenv("VERIF_STATS")
	if p == "" {
		return
	}
	h.mu.Lock()
	n := len(h.distinct)
	h.mu.Unlock()
	bound := strings.Join(h.boundText, "; ")
	if atomic.LoadInt32(&h.truncated) != 0 {
		bound += "; (search cut short by the wall-clock guard)"
	}
	st := map[string]interface{}{
		"cases":               atomic.LoadInt64(&h.cases),
		"distinct_nontrivial": n,
		"bound":               bound,
		"exhaustive":          false,
	}
	data, _ := json.Marshal(st)
	_ = os.WriteFile(p, data, 0o644)
}

func (h *c19H) report(v *c19Violation) {
	v.Property = "C19"
	if p := os.Getenv("VERIF_OUT"); p != "" {
		data, err := json.Marshal(v)
		if err != nil {
			h.t.Logf("harness: cannot marshal violation: %v", err)
		} else if err := os.WriteFile(p, data, 0o644); err != nil {
			h.t.Logf("harness: cannot write VERIF_OUT: %v", err)
		}
	}
}

// ---------------------------------------------------------------------------------------------------------
// running the create command

type c19Res struct {
	failed   bool // command reported failure (error / non-zero exit)
	panicked bool
	hung     bool
	msg      string
}

func (r c19Res) String() string {
	switch {
	case r.hung:
		return "did not finish within the watchdog timeout: " + r.msg
	case r.panicked:
		return "panic: " + r.msg
	case r.failed:
		return "failed: " + r.msg
	}
	return "succeeded (exit status 0 / nil error)"
}

func c19Trunc(s string, n int) string {
	if len(s) > n {
		return s[:n] + "...(truncated)"
	}
	return s
}

func (h *c19H) create(via, in, out string, big bool, dir string, timeout time.Duration) c19Res {
	atomic.AddInt64(&h.cases, 1)
	if via == "binary" {
		args := []string{"create"}
		if big {
			args = append(args, "-b")
		}
		args = append(args, "-o", out, in)
		return h.runBin(dir, timeout, args...)
	}
	ch := make(chan c19Res, 1)
	go func() {
		defer func() {
			if r := recover(); r != nil {
				ch <- c19Res{failed: true, panicked: true, msg: c19Trunc(fmt.Sprintf("%v\n%s", r, debug.Stack()), 3000)}
			}
		}()
		err := createCmd(&globalConfig{}, &createConfig{outputFile: out, inputFile: in, big: big})
		if err != nil {
			ch <- c19Res{failed: true, msg: err.Error()}
			return
		}
		ch <- c19Res{}
	}()
	select {
	case r := <-ch:
		return r
	case <-time.After(timeout):
		return c19Res{hung: true, msg: fmt.Sprintf("createCmd still running after %v", timeout)}
	}
}

func (h *c19H) runBin(dir string, timeout time.Duration, args ...string) c19Res {
	ctx, cancel := context.WithTimeout(context.Background(), timeout)
	defer cancel()
	cmd := exec.CommandContext(ctx, h.bin, args...)
	cmd.Dir = dir
	cmd.Env = append(os.Environ(), "TMPDIR="+dir)
	var stderr, stdout bytes.Buffer
	cmd.Stderr = &stderr
	cmd.Stdout = &stdout
	err := cmd.Run()
	if ctx.Err() != nil {
		return c19Res{hung: true, msg: fmt.Sprintf("updog %s still running after %v", strings.Join(args, " "), timeout)}
	}
	if err == nil {
		return c19Res{}
	}
	msg := fmt.Sprintf("%v; stderr: %s", err, c19Trunc(stderr.String(), 1500))
	r := c19Res{failed: true, msg: msg}
	if strings.Contains(stderr.String(), "panic:") || strings.Contains(stderr.String(), "goroutine ") {
		r.panicked = true
	}
	return r
}

func (h *c19H) startBuild() {
	h.binDone = make(chan struct{})
	go func() {
		defer close(h.binDone)
		repo := os.Getenv("VERIF_REPO")
		if repo == "" {
			if wd, err := os.Getwd(); err == nil {
				cand := filepath.Clean(filepath.Join(wd, "..", ".."))
				if _, err := os.Stat(filepath.Join(cand, "go.mod")); err == nil {
					repo = cand
				}
			}
		}
		if repo == "" {
			repo = "/repo"
		}
		binDir := filepath.Join(h.base, "bin")
		_ = os.MkdirAll(binDir, 0o755)
		out := filepath.Join(binDir, "updog")
		ctx, cancel := context.WithTimeout(context.Background(), 150*time.Second)
		defer cancel()
		cmd := exec.CommandContext(ctx, "go", "build", "-o", out, "./cmd/updog")
		cmd.Dir = repo
		env := os.Environ()
		for _, kv := range []string{"GOFLAGS=-mod=mod", "GOPROXY=off", "GOSUMDB=off", "GOTOOLCHAIN=local"} {
			if os.Getenv(strings.SplitN(kv, "=", 2)[0]) == "" {
				env = append(env, kv)
			}
		}
		cmd.Env = env
		if outp, err := cmd.CombinedOutput(); err != nil {
			h.binErr = fmt.Sprintf("go build ./cmd/updog in %s failed: %v: %s", repo, err, c19Trunc(string(outp), 2000))
			return
		}
		h.bin = out
	}()
}

// ---------------------------------------------------------------------------------------------------------
// pre-existing output files

type c19Sentinel struct {
	path  string
	data  []byte
	mtime time.Time
	mode  os.FileMode
}

func c19MakeSentinel(path, kind string) (*c19Sentinel, error) {
	switch kind {
	case "empty":
		if err := os.WriteFile(path, nil, 0o644); err != nil {
			return nil, err
		}
	case "index":
		w := updog.NewIndexWriter(path)
		if _, err := w.AddRow(map[string]string{"k": "v", "other": "w"}); err != nil {
			return nil, err
		}
		if err := w.Flush(); err != nil {
			return nil, err
		}
	default: // garbage
		buf := make([]byte, 2000)
		rng := rand.New(rand.NewSource(19))
		for i := range buf {
			buf[i] = byte(rng.Intn(256))
		}
		copy(buf, "C19 sentinel: this pre-existing output must not be touched\n")
		if err := os.WriteFile(path, buf, 0o644); err != nil {
			return nil, err
		}
	}
	old := time.Date(2001, 2, 3, 4, 5, 6, 0, time.UTC)
	if err := os.Chtimes(path, old, old); err != nil {
		return nil, err
	}
	data, err := os.ReadFile(path)
	if err != nil {
		return nil, err
	}
	fi, err := os.Stat(path)
	if err != nil {
		return nil, err
	}
	return &c19Sentinel{path: path, data: data, mtime: fi.ModTime(), mode: fi.Mode()}, nil
}

// changed returns "" if the file is untouched, otherwise a description.
func (s *c19Sentinel) changed() string {
	data, err := os.ReadFile(s.path)
	if err != nil {
		return "existing output can no longer be read: " + err.Error()
	}
	if !bytes.Equal(data, s.data) {
		return fmt.Sprintf("content changed: %d bytes before, %d bytes after (sha256 %x -> %x)", len(s.data), len(data), sha256.Sum256(s.data), sha256.Sum256(data))
	}
	fi, err := os.Stat(s.path)
	if err != nil {
		return "existing output can no longer be stat'ed: " + err.Error()
	}
	if !fi.ModTime().Equal(s.mtime) {
		return fmt.Sprintf("modification time changed from %v to %v (content equal)", s.mtime, fi.ModTime())
	}
	if fi.Mode() != s.mode {
		return fmt.Sprintf("file mode changed from %v to %v", s.mode, fi.Mode())
	}
	return ""
}

// ---------------------------------------------------------------------------------------------------------
// checking one case

var c19Modes = []string{"normal", "big"}

func c19Timeout(c *c19Case) time.Duration {
	if len(c.csv) > 100000 {
		return 90 * time.Second
	}
	return 6 * time.Second
}

func (h *c19H) runCase(c *c19Case) *c19Violation {
	h.note(c)
	dir := h.newDir()
	defer os.RemoveAll(dir)
	in := filepath.Join(dir, "in.csv")
	if err := os.WriteFile(in, c.csv, 0o644); err != nil {
		h.t.Fatalf("harness: write input: %v", err)
	}
	mk := func(class, what string, expected, got interface{}) *c19Violation {
		return &c19Violation{What: what, Input: c, Expected: expected, Got: got, class: class}
	}
	cmdline := func(mode, out string) string {
		b := ""
		if mode == "big" {
			b = "-b "
		}
		if c.Via == "binary" {
			return "`updog create " + b + "-o " + filepath.Base(out) + " in.csv` (built binary)"
		}
		return "createCmd(big=" + strconv.FormatBool(mode == "big") + ") (in-process)"
	}
	to := c19Timeout(c)

	// expectFail runs create against a pre-existing output and demands failure + untouched file.
	expectFailPresent := func(mode string) *c19Violation {
		out := filepath.Join(dir, "present_"+mode+".updog")
		s, err := c19MakeSentinel(out, c.Present)
		if err != nil {
			h.t.Fatalf("harness: cannot create pre-existing output (%s): %v", c.Present, err)
		}
		res := h.create(c.Via, in, out, mode == "big", dir, to)
		if res.hung {
			return mk("hang", mode+" mode: "+cmdline(mode, out)+" with an already existing output did not terminate", "non-zero exit, existing output untouched", res.String())
		}
		if !res.failed {
			return mk("present_exit_zero", mode+" mode: "+cmdline(mode, out)+" reported success although the output file already existed ("+c.Present+")", "non-zero exit status / error", res.String())
		}
		if ch := s.changed(); ch != "" {
			return mk("present_touched", mode+" mode: "+cmdline(mode, out)+" modified the already existing output file ("+c.Present+")", "existing output byte-identical and untouched", ch+"; command "+res.String())
		}
		return nil
	}

	switch c.Kind {
	case "malformed":
		for _, mode := range c19Modes {
			out := filepath.Join(dir, "out_"+mode+".updog")
			res := h.create(c.Via, in, out, mode == "big", dir, to)
			if res.hung {
				return mk("hang", mode+" mode: "+cmdline(mode, out)+" on a malformed CSV ("+c.Defect+") did not terminate", "non-zero exit", res.String())
			}
			if !res.failed {
				return mk("malformed_exit_zero", mode+" mode: "+cmdline(mode, out)+" reported success on a malformed CSV ("+c.Defect+")", "non-zero exit status / error", res.String())
			}
		}
		if c.Present != "none" {
			for _, mode := range c19Modes {
				if v := expectFailPresent(mode); v != nil {
					return v
				}
			}
		}
		return nil

	case "wellformed":
		snaps := map[string]*c19Snap{}
		for _, mode := range c19Modes {
			out := filepath.Join(dir, "out_"+mode+".updog")
			res := h.create(c.Via, in, out, mode == "big", dir, to)
			if res.hung {
				return mk("hang", mode+" mode: "+cmdline(mode, out)+" on a well-formed CSV did not terminate", "exit status 0 and an index holding the records", res.String())
			}
			if res.panicked {
				return mk("panic_create", mode+" mode: "+cmdline(mode, out)+" panicked on a well-formed CSV", "exit status 0 and an index holding the records", res.String())
			}
			if res.failed {
				return mk("create_failed", mode+" mode: "+cmdline(mode, out)+" failed on a well-formed CSV with the output file absent", "exit status 0 and an index holding the records", res.String())
			}
			if c.Via == "binary" {
				for _, extra := range [][]string{{"schema", "-f", out}, {"schema", "--full", "-f", out}} {
					atomic.AddInt64(&h.cases, 1)
					r := h.runBin(dir, 30*time.Second, extra...)
					if r.hung || r.failed {
						return mk("schema_cmd", mode+" mode: `updog "+strings.Join(extra[:len(extra)-1], " ")+" <out>` does not exit 0 on the index created from a well-formed CSV", "exit status 0", r.String())
					}
				}
			}
			snap, v := h.verify(out, c, mode)
			if v != nil {
				return v
			}
			snaps[mode] = snap
		}
		if !reflect.DeepEqual(snaps["normal"], snaps["big"]) {
			return mk("mode_divergence", "normal and --big mode produce observationally different indexes for the same CSV", snaps["normal"].describe(), snaps["big"].describe())
		}
		if c.Present != "none" {
			for _, mode := range c19Modes {
				if v := expectFailPresent(mode); v != nil {
					return v
				}
			}
		}
		return nil
	}
	h.t.Fatalf("harness: unknown case kind %q", c.Kind)
	return nil
}

// ---------------------------------------------------------------------------------------------------------
// index verification against the row-by-row reference

type c19SchemaCol struct {
	Name   string
	Values []string
}

type c19Snap struct {
	Schema []c19SchemaCol
	Probes []string
}

func (s *c19Snap) describe() interface{} {
	if s == nil {
		return nil
	}
	var cols []string
	for _, c := range s.Schema {
		cols = append(cols, fmt.Sprintf("%q: %s", c.Name, c19QuoteList(c.Values, 30)))
	}
	pr := s.Probes
	if len(pr) > 60 {
		pr = append(append([]string{}, pr[:60]...), fmt.Sprintf("... %d more", len(s.Probes)-60))
	}
	return map[string]interface{}{"schema": cols, "probes": pr}
}

func c19QuoteList(in []string, max int) string {
	var parts []string
	for i, s := range in {
		if i >= max {
			parts = append(parts, fmt.Sprintf("... %d more", len(in)-max))
			break
		}
		parts = append(parts, strconv.Quote(c19Trunc(s, 200)))
	}
	return "[" + strings.Join(parts, ", ") + "]"
}

func (h *c19H) verify(path string, c *c19Case, mode string) (*c19Snap, *c19Violation) {
	type out struct {
		snap *c19Snap
		v    *c19Violation
	}
	ch := make(chan out, 1)
	go func() {
		defer func() {
			if r := recover(); r != nil {
				ch <- out{nil, &c19Violation{
					What:     mode + " mode: opening/querying the index created from a well-formed CSV panicked",
					Input:    c,
					Expected: "OpenIndex, GetSchema and Execute probes work on the created index",
					Got:      c19Trunc(fmt.Sprintf("panic: %v\n%s", r, debug.Stack()), 3000),
					class:    "panic_query",
				}}
			}
		}()
		s, v := c19VerifyInner(path, c, mode)
		ch <- out{s, v}
	}()
	select {
	case o := <-ch:
		return o.snap, o.v
	case <-time.After(120 * time.Second):
		return nil, &c19Violation{
			What:     mode + " mode: opening/querying the index created from a well-formed CSV did not finish within 120s",
			Input:    c,
			Expected: "OpenIndex, GetSchema and Execute probes terminate",
			Got:      "watchdog timeout (possibly a file lock left behind by create)",
			class:    "hang",
		}
	}
}

func c19SortedKeys(m map[string][]uint32) []string {
	keys := make([]string, 0, len(m))
	for k := range m {
		keys = append(keys, k)
	}
	sort.Strings(keys)
	return keys
}

func c19NearMisses(v string) []string {
	return []string{
		v + " ", " " + v, strings.ToLower(v), strings.ToUpper(v), strings.TrimSpace(v),
		strings.ReplaceAll(v, "\r\n", "\n"), strings.ReplaceAll(v, "\n", "\r\n"), v + "\n", strings.TrimRight(v, "\r\n"),
		strings.ReplaceAll(v, `"`, `""`), `"` + v + `"`, strings.ReplaceAll(v, `""`, `"`), strings.ToValidUTF8(v, "�"),
	}
}

func c19VerifyInner(path string, c *c19Case, mode string) (*c19Snap, *c19Violation) {
	header, records := c.header, c.records
	n, m := len(records), len(header)
	mk := func(class, what string, expected, got interface{}) *c19Violation {
		return &c19Violation{What: mode + " mode: " + what, Input: c, Expected: expected, Got: got, class: class}
	}

	idx, err := updog.OpenIndex(path)
	if err != nil {
		return nil, mk("open_failed", "updog.OpenIndex fails on the index created from a well-formed CSV", "index opens", err.Error())
	}
	closed := false
	closeIdx := func() {
		if !closed {
			closed = true
			_ = idx.Close()
		}
	}
	defer closeIdx()

	sch := idx.GetSchema()
	snap := &c19Snap{}
	got := map[string][]string{}
	var gotNames []string
	for _, col := range sch.Columns {
		vals := []string{}
		for _, v := range col.Values {
			vals = append(vals, v.Value)
		}
		if _, dup := got[col.Name]; dup {
			return nil, mk("schema_columns", "GetSchema lists a column twice", "distinct column names", strconv.Quote(col.Name))
		}
		got[col.Name] = vals
		gotNames = append(gotNames, col.Name)
		snap.Schema = append(snap.Schema, c19SchemaCol{Name: col.Name, Values: vals})
	}

	strict := make([]string, m)
	alt := make([]string, m)
	for j, hname := range header {
		strict[j], alt[j] = c19Norm(hname)
	}
	wantNames := append([]string{}, strict...)
	sort.Strings(wantNames)

	if n == 0 {
		// No records: nothing can be demanded about which columns exist, only that no values/rows appear.
		allowed := map[string]bool{}
		for j := range header {
			allowed[strict[j]] = true
			allowed[alt[j]] = true
		}
		for name, vals := range got {
			if !allowed[name] || len(vals) != 0 {
				return nil, mk("schema_columns", "index created from a header-only CSV contains values or a column that is not a normalised header field",
					"no values; columns (if any) among "+c19QuoteList(wantNames, 50), fmt.Sprintf("column %q with values %s", name, c19QuoteList(vals, 20)))
			}
		}
		for j := range header {
			res, err := idx.Execute(&updog.Query{Expr: &updog.ExprEqual{Column: strict[j], Value: "x"}})
			r := "error"
			if err == nil {
				r = fmt.Sprintf("count=%d", res.Count)
				if res.Count != 0 {
					return nil, mk("count", "index created from a header-only CSV reports rows", "count 0 (or unknown column)", r)
				}
			}
			snap.Probes = append(snap.Probes, fmt.Sprintf("count(%s = \"x\") => %s", strict[j], r))
		}
		return snap, nil
	}

	// --- schema: exactly the normalised header columns
	names := make([]string, m)
	for j := range header {
		if _, ok := got[strict[j]]; ok {
			names[j] = strict[j]
		} else if _, ok := got[alt[j]]; ok {
			names[j] = alt[j]
		} else {
			return nil, mk("schema_columns", fmt.Sprintf("header field %q (position %d) has no column named by its normalisation", header[j], j),
				"columns "+c19QuoteList(wantNames, 50), "columns "+c19QuoteList(gotNames, 50))
		}
	}
	if len(got) != m {
		return nil, mk("schema_columns", "the index has columns that are not normalised header fields",
			"columns "+c19QuoteList(wantNames, 50), "columns "+c19QuoteList(gotNames, 50))
	}

	// --- reference: value -> ascending row ids, per column
	ref := make([]map[string][]uint32, m)
	for j := 0; j < m; j++ {
		ref[j] = map[string][]uint32{}
	}
	for i, rec := range records {
		for j := 0; j < m; j++ {
			ref[j][rec[j]] = append(ref[j][rec[j]], uint32(i))
		}
	}
	for j := 0; j < m; j++ {
		want := c19SortedKeys(ref[j])
		have := append([]string{}, got[names[j]]...)
		sort.Strings(have) // the order in which GetSchema lists values is not part of the property
		if !reflect.DeepEqual(want, have) {
			return nil, mk("schema_values", fmt.Sprintf("column %q (header field %q, position %d) does not hold exactly the field contents of that CSV column", names[j], header[j], j),
				c19QuoteList(want, 40), c19QuoteList(have, 40))
		}
	}

	cnt := func(j int, p string) uint64 { return uint64(len(ref[j][p])) }
	eq := func(j int, v string) updog.Expression { return &updog.ExprEqual{Column: names[j], Value: v} }

	var viol *c19Violation
	probe := func(class, key string, q *updog.Query, want uint64) bool {
		res, err := idx.Execute(q)
		if err != nil {
			viol = mk("probe_error", "Execute fails for probe "+key, fmt.Sprintf("count=%d", want), "error: "+err.Error())
			return false
		}
		snap.Probes = append(snap.Probes, fmt.Sprintf("%s => count=%d", key, res.Count))
		if res.Count != want {
			viol = mk(class, "probe "+key+" disagrees with counting the CSV records row by row", fmt.Sprintf("count=%d", want), fmt.Sprintf("count=%d", res.Count))
			return false
		}
		return true
	}

	// --- row count (NOT flips over [0, rows))
	absent := "\x00C19-absent\x00"
	for {
		if _, ok := ref[0][absent]; !ok {
			break
		}
		absent += "!"
	}
	allRows := func() updog.Expression { return &updog.ExprNot{Expr: eq(0, absent)} }
	if !probe("row_count", fmt.Sprintf("count(NOT %s = <absent value>) [number of rows]", names[0]), &updog.Query{Expr: allRows()}, uint64(n)) {
		return nil, viol
	}

	// --- value probes: every column is asked for values of every column (catches header/field mix-ups), near misses, absent
	union := map[string]bool{}
	for j := 0; j < m; j++ {
		for v := range ref[j] {
			union[v] = true
		}
	}
	unionList := make([]string, 0, len(union))
	for v := range union {
		unionList = append(unionList, v)
	}
	sort.Strings(unionList)
	sample := unionList
	if len(sample) > 60 {
		s2 := append([]string{}, sample[:20]...)
		step := len(sample) / 30
		for i := 20; i < len(sample); i += step {
			s2 = append(s2, sample[i])
		}
		s2 = append(s2, sample[len(sample)-1])
		sample = s2
	}
	for j := 0; j < m; j++ {
		pset := map[string]bool{absent: true}
		for _, v := range sample {
			pset[v] = true
		}
		own := c19SortedKeys(ref[j])
		// always probe the values of the first and the last record
		pset[records[0][j]] = true
		pset[records[n-1][j]] = true
		for i, v := range own {
			if i >= 12 {
				break
			}
			pset[v] = true
			for _, nm := range c19NearMisses(v) {
				pset[nm] = true
			}
		}
		plist := make([]string, 0, len(pset))
		for p := range pset {
			plist = append(plist, p)
		}
		sort.Strings(plist)
		for _, p := range plist {
			if !probe("value_count", fmt.Sprintf("count(%s = %s)", names[j], strconv.Quote(c19Trunc(p, 120))), &updog.Query{Expr: eq(j, p)}, cnt(j, p)) {
				return nil, viol
			}
		}
		for i, v := range own {
			if i >= 3 {
				break
			}
			if !probe("not_count", fmt.Sprintf("count(NOT %s = %s)", names[j], strconv.Quote(c19Trunc(v, 120))), &updog.Query{Expr: &updog.ExprNot{Expr: eq(j, v)}}, uint64(n)-cnt(j, v)) {
				return nil, viol
			}
		}
		if len(own) <= 300 {
			var ors []updog.Expression
			for _, v := range own {
				ors = append(ors, eq(j, v))
			}
			if !probe("one_value_per_column", fmt.Sprintf("count(OR over all %d values of %s) [every row has a value in the column]", len(own), names[j]), &updog.Query{Expr: &updog.ExprOr{Exprs: ors}}, uint64(n)) {
				return nil, viol
			}
		}
	}

	// --- full-row probes: multiplicity of complete records (AND over all columns)
	rowKey := func(r []string) string {
		var b strings.Builder
		for _, f := range r {
			b.WriteString(strconv.Itoa(len(f)))
			b.WriteByte(':')
			b.WriteString(f)
		}
		return b.String()
	}
	mult := map[string]uint64{}
	var order [][]string
	for _, r := range records {
		k := rowKey(r)
		if mult[k] == 0 {
			order = append(order, r)
		}
		mult[k]++
	}
	var rows [][]string
	if len(order) <= 300 {
		rows = order
	} else {
		rows = append(rows, order[:120]...)
		rows = append(rows, order[len(order)-60:]...)
		step := len(order) / 60
		for i := 120; i < len(order)-60; i += step {
			rows = append(rows, order[i])
		}
	}
	// synthetic rows mixing fields of different records (must be counted by the reference as well)
	for i := 0; i < n && i < 12 && m > 1; i++ {
		r := make([]string, m)
		for j := 0; j < m; j++ {
			r[j] = records[(i+j)%n][j]
		}
		rows = append(rows, r)
	}
	for ri, r := range rows {
		ands := make([]updog.Expression, m)
		for j := 0; j < m; j++ {
			ands[j] = eq(j, r[j])
		}
		key := fmt.Sprintf("count(AND over all columns = record %s) [#%d]", c19QuoteList(r, 12), ri)
		if !probe("row_multiplicity", key, &updog.Query{Expr: &updog.ExprAnd{Exprs: ands}}, mult[rowKey(r)]) {
			return nil, viol
		}
	}

	// --- group-by probes over one and two columns (fresh Query objects; at most 2 columns)
	groupProbe := func(cols []int) bool {
		want := map[string]uint64{}
		for _, r := range records {
			var parts []string
			for _, j := range cols {
				parts = append(parts, names[j]+"="+strconv.Quote(r[j]))
			}
			want[strings.Join(parts, " | ")]++
		}
		var gb []string
		for _, j := range cols {
			gb = append(gb, names[j])
		}
		key := "group all rows by " + strings.Join(gb, ",")
		res, err := idx.Execute(&updog.Query{Expr: allRows(), GroupBy: gb})
		if err != nil {
			viol = mk("probe_error", "Execute fails for probe "+key, "groups", "error: "+err.Error())
			return false
		}
		have := map[string]uint64{}
		dup := false
		for _, g := range res.Groups {
			var parts []string
			for _, f := range g.Fields {
				parts = append(parts, f.Column+"="+strconv.Quote(f.Value))
			}
			k := strings.Join(parts, " | ")
			if _, ok := have[k]; ok {
				dup = true
			}
			have[k] += g.Count
		}
		flat := func(mp map[string]uint64) []string {
			var out []string
			for k, v := range mp {
				out = append(out, fmt.Sprintf("%s => %d", c19Trunc(k, 300), v))
			}
			sort.Strings(out)
			return out
		}
		snap.Probes = append(snap.Probes, fmt.Sprintf("%s => %d groups, total %d", key, len(res.Groups), res.Count))
		if dup || res.Count != uint64(n) || !reflect.DeepEqual(want, have) {
			w, g := flat(want), flat(have)
			if len(w) > 40 {
				w = w[:40]
			}
			if len(g) > 40 {
				g = g[:40]
			}
			viol = mk("group_count", "probe \""+key+"\" disagrees with grouping the CSV records row by row", map[string]interface{}{"count": n, "groups": w}, map[string]interface{}{"count": res.Count, "groups": g})
			return false
		}
		return true
	}
	for j := 0; j < m && j < 6; j++ {
		if len(ref[j]) <= 400 && !groupProbe([]int{j}) {
			return nil, viol
		}
	}
	if m >= 2 {
		for _, pr := range [][]int{{0, 1}, {m - 1, 0}} {
			if len(ref[pr[0]])*len(ref[pr[1]]) <= 4000 && !groupProbe(pr) {
				return nil, viol
			}
		}
	}

	// --- "the i-th record is row i": the stored row-id set of every (column, value). Counts are permutation
	// invariant, so this reads the stored bitmaps directly; an unknown storage layout is skipped, not reported.
	closeIdx()
	if v := c19RawRowCheck(path, names, ref, n, mk); v != nil {
		return nil, v
	}
	return snap, nil
}

func c19RawRowCheck(path string, names []string, ref []map[string][]uint32, n int, mk func(class, what string, expected, got interface{}) *c19Violation) *c19Violation {
	db, err := bbolt.Open(path, 0o600, &bbolt.Options{ReadOnly: true, Timeout: 5 * time.Second})
	if err != nil {
		return nil
	}
	defer db.Close()
	var viol *c19Violation
	_ = db.View(func(tx *bbolt.Tx) error {
		b := tx.Bucket([]byte("data"))
		if b == nil {
			return nil
		}
		if raw := b.Get([]byte{'I'}); len(raw) == 4 {
			if got := binary.BigEndian.Uint32(raw); got != uint32(n) {
				viol = mk("row_count", "the stored number of rows differs from the number of CSV records", n, got)
				return nil
			}
		}
		checked := 0
		for j := range names {
			for _, v := range c19SortedKeys(ref[j]) {
				if checked >= 3000 {
					return nil
				}
				h := xxhash.Sum64(append(append([]byte(names[j]), 0), []byte(v)...))
				var key [9]byte
				key[0] = 'V'
				binary.BigEndian.PutUint64(key[1:], h)
				item := b.Get(key[:])
				if item == nil {
					continue
				}
				bm := roaring.New()
				if err := bm.UnmarshalBinary(append([]byte{}, item...)); err != nil {
					continue
				}
				checked++
				have := bm.ToArray()
				want := ref[j][v]
				if !reflect.DeepEqual(have, want) {
					show := func(a []uint32) string {
						if len(a) > 40 {
							return fmt.Sprintf("%v ... (%d ids)", a[:40], len(a))
						}
						return fmt.Sprintf("%v", a)
					}
					viol = mk("row_order", fmt.Sprintf("the rows stored for %s = %s are not the indices of the CSV records holding that field (record i must be row i)", names[j], strconv.Quote(c19Trunc(v, 120))),
						"row ids "+show(want), "row ids "+show(have))
					return nil
				}
			}
		}
		return nil
	})
	return viol
}

// ---------------------------------------------------------------------------------------------------------
// batches, shrinking, reporting

// runBatch runs the cases on a worker pool and returns the violation of the lowest-indexed failing case
// (deterministic irrespective of scheduling).
func (h *c19H) runBatch(stage string, cases []*c19Case, workers int) *c19Violation {
	if len(cases) == 0 {
		return nil
	}
	if workers > len(cases) {
		workers = len(cases)
	}
	if workers < 1 {
		workers = 1
	}
	results := make([]*c19Violation, len(cases))
	var next int64 = -1
	var minFail int64 = int64(len(cases))
	var wg sync.WaitGroup
	for w := 0; w < workers; w++ {
		wg.Add(1)
		go func() {
			defer wg.Done()
			for {
				i := atomic.AddInt64(&next, 1)
				if i >= int64(len(cases)) {
					return
				}
				if !h.keepGoing && i > atomic.LoadInt64(&minFail) {
					return
				}
				if time.Now().After(h.hardStop) {
					atomic.StoreInt32(&h.truncated, 1)
					return
				}
				c := cases[i]
				c.Name = stage + "/" + c.base
				if v := h.runCase(c); v != nil {
					results[i] = v
					for {
						cur := atomic.LoadInt64(&minFail)
						if i >= cur || atomic.CompareAndSwapInt64(&minFail, cur, i) {
							break
						}
					}
				}
			}
		}()
	}
	wg.Wait()
	var first *c19Violation
	for _, v := range results {
		if v == nil {
			continue
		}
		if v.Input.hasCRLFField() {
			v.class += "+crlf_in_field"
		}
		if first == nil {
			first = v
		}
		if h.keepGoing && !h.seenClass[v.class] {
			h.seenClass[v.class] = true
			data, _ := json.Marshal(v)
			h.t.Logf("KEEPGOING violation class %s: %s", v.class, c19Trunc(string(data), 6000))
		}
	}
	return first
}

// shrink tries to remove records and columns from a failing well-formed case while the same class of violation persists.
func (h *c19H) shrink(v *c19Violation) *c19Violation {
	c := v.Input
	if c.Kind != "wellformed" || c.Style == nil {
		return v
	}
	deadline := time.Now().Add(8 * time.Second)
	baseClass := strings.TrimSuffix(v.class, "+crlf_in_field")
	best := v
	header, records := c.header, c.records
	try := func(hd []string, recs [][]string) bool {
		if time.Now().After(deadline) || !c19HeaderOK(hd) {
			return false
		}
		cand := c19Wellformed(strings.TrimSuffix(c.Name, "/shrunk")+"/shrunk", hd, recs, *c.Style).with(c.Present, c.Via)
		nv := h.runCase(cand)
		if nv != nil && nv.class == baseClass {
			nv.class = v.class
			best = nv
			header, records = hd, recs
			return true
		}
		return false
	}
	// records: remove chunks, then single records
	for chunk := (len(records) + 1) / 2; chunk >= 1; chunk /= 2 {
		for i := 0; i+chunk <= len(records); {
			recs := append(append([][]string{}, records[:i]...), records[i+chunk:]...)
			if !try(header, recs) {
				i += chunk
			}
		}
		if chunk == 1 {
			break
		}
	}
	// columns
	for j := 0; j < len(header) && len(header) > 1; {
		hd := append(append([]string{}, header[:j]...), header[j+1:]...)
		recs := make([][]string, len(records))
		for i, r := range records {
			recs[i] = append(append([]string{}, r[:j]...), r[j+1:]...)
		}
		if !try(hd, recs) {
			j++
		}
	}
	return best
}

func (h *c19H) fail(v *c19Violation) {
	v = h.shrink(v)
	h.report(v)
	data, _ := json.Marshal(map[string]interface{}{"what": v.What, "expected": v.Expected, "got": v.Got, "case": v.Input.Name})
	h.t.Fatalf("C19 violated: %s", c19Trunc(string(data), 4000))
}

// stage runs a batch; returns false if the search must stop.
func (h *c19H) stage(name string, cases []*c19Case, workers int) {
	if h.exclCRLF {
		kept := cases[:0:0]
		for _, c := range cases {
			if !c.hasCRLFField() {
				kept = append(kept, c)
			}
		}
		cases = kept
	}
	t0 := time.Now()
	v := h.runBatch(name, cases, workers)
	h.t.Logf("stage %-28s %5d inputs  %6.2fs  (total create runs so far: %d)", name, len(cases), time.Since(t0).Seconds(), atomic.LoadInt64(&h.cases))
	if v != nil && h.first == nil {
		h.first = v
		if !h.keepGoing {
			h.fail(v)
		}
	}
}

// ---------------------------------------------------------------------------------------------------------
// input space

func c19CoreCases() []*c19Case {
	lf := c19Style{}
	var cs []*c19Case
	add := func(name string, header []string, records [][]string, st c19Style) {
		if !c19HeaderOK(header) {
			panic("harness: core case header not distinct after normalisation: " + name)
		}
		cs = append(cs, c19Wellformed(name, header, records, st))
	}
	add("simple-2x3", []string{"a", "b"}, [][]string{{"1", "x"}, {"2", "y"}, {"3", "x"}}, lf)
	add("one-record", []string{"a", "b", "c"}, [][]string{{"first", "second", "third"}}, lf)
	add("header-only", []string{"a", "b"}, nil, lf)
	add("header-only-no-final-newline", []string{"Col One", "col-two"}, nil, c19Style{NoFinalNL: true})
	add("normalised-headers", []string{"First Name", "AGE", "e-mail", "x1", "_", "ÄÖ", "Straße", "a.b.c", "日本語", "MiXeD Case", "tab\there"},
		[][]string{
			{"Ann", "31", "ann@example.org", "p", "q", "r", "s", "t", "u", "v", "w"},
			{"Bob", "27", "bob@example.org", "p2", "q2", "r2", "s2", "t2", "u2", "v2", "w2"},
		}, lf)
	add("odd-headers", []string{"", "123", " lead", "trail  ", "quote\"d", "comma,d", "new\nline", "\ufeffbom", "Kelvin", "Ab", "aB_"},
		[][]string{
			{"e0", "e1", "e2", "e3", "e4", "e5", "e6", "e7", "e8", "e9", "e10"},
			{"f0", "f1", "f2", "f3", "f4", "f5", "f6", "f7", "f8", "f9", "f10"},
			{"e0", "f1", "e2", "f3", "e4", "f5", "e6", "f7", "e8", "f9", "e10"},
		}, lf)
	add("special-contents", []string{"id", "text"}, [][]string{
		{"0", `he said "hi"`}, {"1", "a,b"}, {"2", "line1\nline2"}, {"3", ""}, {"4", " lead"}, {"5", "trail "}, {"6", "ünï©ødé 日本語 😀"},
		{"7", `"`}, {"8", `""`}, {"9", ","}, {"10", "\n"}, {"11", "\t"}, {"12", "a\x00b"}, {"13", "\r"}, {"14", "a\rb"}, {"15", "end\r"},
		{"16", "'single'"}, {"17", `back\slash`}, {"18", "#not a comment"}, {"19", " "}, {"20", "\xff\xfe raw bytes"}, {"21", "\n\nleading newlines"},
		{"22", `",",`}, {"23", "\ufeffbom"}, {"24", "NULL"},
	}, lf)
	add("single-column-with-empty", []string{"only"}, [][]string{{""}, {"x"}, {""}, {""}, {"y"}}, lf)
	add("all-empty-fields", []string{"a", "b", "c"}, [][]string{{"", "", ""}, {"", "", ""}, {"", "x", ""}}, lf)
	{
		// 8 columns, per-column distinct values plus values shared between columns (detects index mix-ups)
		header := []string{"c0", "c1", "c2", "c3", "c4", "c5", "c6", "c7"}
		hdr := make([]string, len(header))
		for j := range header {
			hdr[j] = strings.Repeat(string(rune('a'+j)), 2) // aa, bb, ...
		}
		var recs [][]string
		for i := 0; i < 9; i++ {
			r := make([]string, 8)
			for j := 0; j < 8; j++ {
				switch {
				case j%2 == 0:
					r[j] = fmt.Sprintf("v%d_%d", j, i%(j+2))
				default:
					r[j] = fmt.Sprintf("s%d", (i+j)%3) // shared between odd columns
				}
			}
			recs = append(recs, r)
		}
		add("eight-columns", hdr, recs, lf)
	}
	add("duplicates-first-last", []string{"k", "v"}, [][]string{{"FIRST", "only-in-first"}, {"d", "1"}, {"d", "1"}, {"d", "2"}, {"d", "1"}, {"LAST", "only-in-last"}}, lf)
	add("crlf-terminators", []string{"a", "b"}, [][]string{{"1", "x"}, {"2", "multi\nline"}, {"3", "z"}}, c19Style{CRLF: true})
	add("no-final-newline", []string{"a", "b"}, [][]string{{"1", "x"}, {"2", "y"}, {"3", "last-record"}}, c19Style{NoFinalNL: true})
	add("no-final-newline-empty-last-field", []string{"a", "b"}, [][]string{{"1", "x"}, {"2", ""}}, c19Style{NoFinalNL: true})
	add("quote-all", []string{"A Column", "B"}, [][]string{{"1", "x"}, {"", "y,\"z\""}, {"3", ""}}, c19Style{QuoteAll: true})
	add("quote-all-crlf-no-final", []string{"A", "B"}, [][]string{{"1", "x"}, {"2", "y"}}, c19Style{QuoteAll: true, CRLF: true, NoFinalNL: true})
	add("values-equal-to-header", []string{"a", "b"}, [][]string{{"a", "b"}, {"b", "a"}, {"A", "B"}}, lf)
	add("case-and-space-sensitive-values", []string{"v"}, [][]string{{"x"}, {"X"}, {" x"}, {"x "}, {"x"}, {"x\n"}}, lf)
	add("long-field", []string{"id", "blob"}, [][]string{{"1", strings.Repeat("long,\"field\"\n", 8000)}, {"2", "short"}}, lf)
	return cs
}

func c19CRLFCases() []*c19Case {
	return []*c19Case{
		c19Wellformed("crlf-inside-quoted-field", []string{"a", "b"}, [][]string{{"1", "line1\r\nline2"}}, c19Style{}),
		c19Wellformed("crlf-inside-quoted-field-crlf-file", []string{"a", "b"}, [][]string{{"1", "x"}, {"2", "line1\r\nline2"}, {"3", "line1\nline2"}}, c19Style{CRLF: true}),
		c19Wellformed("field-is-crlf", []string{"a"}, [][]string{{"\r\n"}, {"\n"}, {"\r"}}, c19Style{}),
	}
}

func c19BigWellformed(name string, n int, st c19Style) *c19Case {
	header := []string{"Row ID", "bucket", "Flag", "text"}
	recs := make([][]string, n)
	for i := 0; i < n; i++ {
		recs[i] = []string{fmt.Sprintf("id-%d", i), fmt.Sprintf("b%d", i%37), []string{"y", "n", ""}[i%3], []string{"plain", "with,comma", "with \"quote\"", "two\nlines"}[(i/7)%4]}
	}
	return c19Wellformed(name, header, recs, st)
}

func c19MalformedCases() []*c19Case {
	var cs []*c19Case
	add := func(name, defect, csv string) { cs = append(cs, c19Malformed(name, defect, []byte(csv))) }
	add("ragged-short-first", "record 1 has 1 field, header has 2", "a,b\n1\n")
	add("ragged-short-last", "last record has 1 field, header has 2", "a,b\n1,2\n3\n")
	add("ragged-long", "record 1 has 3 fields, header has 2", "a,b\n1,2,3\n")
	add("ragged-long-middle", "record 2 has 3 fields, header has 2", "a,b\n1,2\n3,4,5\n6,7\n")
	add("ragged-long-last-no-newline", "last record has 3 fields, header has 2, no final newline", "a,b\n1,2\n3,4,5")
	add("ragged-short-middle-3col", "record 2 has 2 fields, header has 3", "a,b,c\n1,2,3\n4,5\n7,8,9\n")
	add("ragged-single-column-header", "record 1 has 2 fields, header has 1", "a\n1,2\n")
	add("ragged-crlf", "record 1 has 1 field, header has 2 (CRLF terminators)", "a,b\r\n1\r\n")
	add("ragged-quoted-empty", "record 1 is one quoted empty field, header has 2", "a,b\n\"\"\n")
	add("bare-quote", "bare quote inside an unquoted field", "a,b\n1,x\"y\n")
	add("bare-quote-first-field", "bare quote inside an unquoted field", "a,b\nx\"y\",2\n3,4\n")
	add("junk-after-closing-quote", "text after the closing quote of a quoted field", "a,b\n\"x\"y,2\n")
	add("unterminated-quote", "quoted field never closed", "a,b\n1,\"unterminated\n")
	add("unterminated-quote-last", "quoted field never closed (after valid records)", "a,b\n1,2\n3,\"unterminated")
	add("bare-quote-in-header", "bare quote inside an unquoted header field", "a\"b,c\n1,2\n")
	add("unterminated-quote-in-header", "quoted header field never closed", "\"a,b\n1,2\n")
	{
		var b strings.Builder
		b.WriteString("id,v\n")
		for i := 0; i < 1500; i++ {
			fmt.Fprintf(&b, "%d,x%d\n", i, i%5)
		}
		b.WriteString("ragged\n")
		add("ragged-after-1500-good-records", "record 1501 has 1 field, header has 2", b.String())
	}
	return cs
}

// c19Exhaustive enumerates every CSV with the given shapes over a small field alphabet.
func c19Exhaustive(shapes [][2]int, alphabet []string) []*c19Case {
	var cs []*c19Case
	headers := []string{"Ab", "c d", "E", "f-1"}
	for _, sh := range shapes {
		m, n := sh[0], sh[1]
		total := 1
		for i := 0; i < m*n; i++ {
			total *= len(alphabet)
		}
		for code := 0; code < total; code++ {
			x := code
			recs := make([][]string, n)
			for i := 0; i < n; i++ {
				recs[i] = make([]string, m)
				for j := 0; j < m; j++ {
					recs[i][j] = alphabet[x%len(alphabet)]
					x /= len(alphabet)
				}
			}
			st := c19Style{CRLF: code%3 == 1, NoFinalNL: code%4 == 2}
			cs = append(cs, c19Wellformed(fmt.Sprintf("exh-%dx%d-%d", m, n, code), headers[:m], recs, st))
		}
	}
	return cs
}

var c19NastyValues = []string{
	"", "", " ", "a", "A", "b", "0", "1", "-1", "1.0", "a,b", ",", `"`, `""`, `a"b`, `"quoted"`, "line1\nline2", "\n", "\r", "a\rb", "\t",
	" lead", "trail ", "ü", "日本語", "😀", "\x00", "a\x00b", "\xff\xfe", "true", "NULL", "'", `\`, "a;b", "#c", `","`, "\"\n\"", "x\n", "\nx", "é", "é",
	"\ufeff", "a b", "a  b", "=1+1", strings.Repeat("z", 300),
}

var c19CRLFValues = []string{"\r\n", "a\r\nb", "\r\n\r\n", "x\r\n", "\"\r\n\""}

var c19HeaderPool = []string{
	"a", "b", "id", "Name", "First Name", "e-mail", "AGE", "x1", "col_2", "Ünï", "日本", "Straße", "a.b", "a b", "Zz", "", "123", " lead", "trail ",
	"MiXeD", "tab\there", "quote\"d", "comma,d", "new\nline", "\ufeffbom", "Q", "snake_case", "camelCase", "UPPER", "with😀emoji", "a-b-c", "x y z", "__", "n°", "%",
}

func c19RandString(rng *rand.Rand, alphabet []string, maxLen int) string {
	n := rng.Intn(maxLen + 1)
	var b strings.Builder
	for i := 0; i < n; i++ {
		b.WriteString(alphabet[rng.Intn(len(alphabet))])
	}
	return b.String()
}

var c19ValueAlphabet = []string{"a", "b", "c", "X", "Y", "0", "1", " ", " ", `"`, `"`, ",", ",", "\n", "\r", "\t", "ü", "日", "😀", "\x00", "\xff", "'", `\`, ";", "-", "_"}
var c19HeaderAlphabet = []string{"a", "b", "c", "d", "e", "x", "y", "z", "A", "B", "C", "X", "Z", "0", "7", " ", "_", "-", ".", "ü", "Ä", "日", "😀", `"`, ",", "\n", "\t", "%"}

func c19RandValue(rng *rand.Rand, allowCRLF bool) string {
	var v string
	switch r := rng.Intn(100); {
	case allowCRLF && r < 15:
		v = c19CRLFValues[rng.Intn(len(c19CRLFValues))]
	case r < 60:
		v = c19NastyValues[rng.Intn(len(c19NastyValues))]
	default:
		v = c19RandString(rng, c19ValueAlphabet, 10)
	}
	if !allowCRLF {
		for strings.Contains(v, "\r\n") {
			v = strings.ReplaceAll(v, "\r\n", "\r \n")
		}
	}
	return v
}

func c19RandHeader(rng *rand.Rand, m int) []string {
	for attempt := 0; ; attempt++ {
		h := make([]string, m)
		for j := range h {
			if rng.Intn(100) < 65 {
				h[j] = c19HeaderPool[rng.Intn(len(c19HeaderPool))]
			} else {
				h[j] = c19RandString(rng, c19HeaderAlphabet, 8)
			}
		}
		if c19HeaderOK(h) {
			return h
		}
		if attempt > 200 { // fall back to guaranteed-distinct names
			for j := range h {
				h[j] = "col " + string(rune('A'+j))
			}
			return h
		}
	}
}

func c19RandStyle(rng *rand.Rand) c19Style {
	return c19Style{CRLF: rng.Intn(3) == 0, NoFinalNL: rng.Intn(4) == 0, QuoteAll: rng.Intn(6) == 0}
}

func c19RandWellformed(rng *rand.Rand, name string, allowCRLF bool, minRecords int, large bool) *c19Case {
	m := 1 + rng.Intn(3)
	if rng.Intn(3) == 0 {
		m = 1 + rng.Intn(7)
	}
	var n int
	switch r := rng.Intn(100); {
	case r < 6:
		n = 0
	case r < 16:
		n = 1
	case r < 70:
		n = 2 + rng.Intn(11)
	case r < 96:
		n = 13 + rng.Intn(68)
	default:
		n = 81 + rng.Intn(320)
	}
	if large {
		n = 900 + rng.Intn(2600)
	}
	if n < minRecords {
		n = minRecords
	}
	header := c19RandHeader(rng, m)
	var shared []string
	if rng.Intn(3) == 0 {
		for i := 0; i < 1+rng.Intn(5); i++ {
			shared = append(shared, c19RandValue(rng, allowCRLF))
		}
	}
	pools := make([][]string, m)
	unique := make([]bool, m)
	for j := range pools {
		if rng.Intn(8) == 0 {
			unique[j] = true
			continue
		}
		if shared != nil && rng.Intn(2) == 0 {
			pools[j] = shared
			continue
		}
		for i := 0; i < 1+rng.Intn(6); i++ {
			pools[j] = append(pools[j], c19RandValue(rng, allowCRLF))
		}
	}
	recs := make([][]string, n)
	for i := range recs {
		recs[i] = make([]string, m)
		for j := range recs[i] {
			if unique[j] {
				recs[i][j] = fmt.Sprintf("u%d-%s", i, c19RandValue(rng, allowCRLF))
			} else {
				recs[i][j] = pools[j][rng.Intn(len(pools[j]))]
			}
		}
	}
	return c19Wellformed(name, header, recs, c19RandStyle(rng))
}

// c19RandMalformed takes a random well-formed file (>= 1 record, no CR LF inside fields) and injects one defect.
func c19RandMalformed(rng *rand.Rand, name string) *c19Case {
	base := c19RandWellformed(rng, name, false, 1, false)
	st := *base.Style
	header, recs := base.header, base.records
	m, n := len(header), len(recs)
	enc := c19EncodeMatrix(header, recs, st) // enc[0] = header line, enc[1+i] = record i
	k := rng.Intn(n)
	reenc := func(fields []string) []string {
		out := make([]string, len(fields))
		for j, f := range fields {
			out[j] = c19EncField(f, len(fields), st)
		}
		return out
	}
	var defect string
	kind := rng.Intn(6)
	if kind == 0 && m == 1 {
		kind = 1
	}
	switch kind {
	case 0:
		enc[1+k] = reenc(recs[k][:m-1])
		defect = fmt.Sprintf("record %d has %d fields, header has %d", k, m-1, m)
	case 1:
		enc[1+k] = reenc(append(append([]string{}, recs[k]...), "extra"))
		defect = fmt.Sprintf("record %d has %d fields, header has %d", k, m+1, m)
	case 2:
		j := rng.Intn(m)
		enc[1+k][j] = `ab"cd`
		defect = fmt.Sprintf("bare quote inside unquoted field %d of record %d", j, k)
	case 3:
		j := rng.Intn(m)
		enc[1+k][j] = `"ab"cd`
		defect = fmt.Sprintf("text after the closing quote in field %d of record %d", j, k)
	case 4:
		enc[len(enc)-1][m-1] = `"never closed`
		st.NoFinalNL = rng.Intn(2) == 0
		defect = "last field of the last record opens a quote that is never closed"
	default:
		j := rng.Intn(m)
		enc[0][j] = `hd"r`
		defect = fmt.Sprintf("bare quote inside unquoted header field %d", j)
	}
	return c19Malformed(name, defect, c19Join(enc, st))
}

// ---------------------------------------------------------------------------------------------------------
// test entry point

func TestVerifHarnessC19(t *testing.T) {
	h := &c19H{t: t, start: time.Now(), distinct: map[[32]byte]bool{}, seenClass: map[string]bool{}}
	h.base = t.TempDir()
	tmp := filepath.Join(h.base, "tmp")
	if err := os.MkdirAll(tmp, 0o755); err != nil {
		t.Fatal(err)
	}
	t.Setenv("TMPDIR", tmp) // createCmd's --big temp database goes here
	h.keepGoing = os.Getenv("VERIF_C19_KEEPGOING") != ""
	h.exclCRLF = strings.Contains(os.Getenv("VERIF_C19_EXCLUDE"), "crlf")
	h.thorough = os.Getenv("VERIF_BOUND") == "thorough"
	h.hardStop = h.start.Add(19 * time.Second)
	if h.thorough {
		h.hardStop = h.start.Add(235 * time.Second)
	}
	if h.keepGoing {
		h.hardStop = h.start.Add(30 * time.Minute)
	}
	defer h.writeStats()

	seed := int64(1)
	if s := os.Getenv("VERIF_SEED"); s != "" {
		if v, err := strconv.ParseInt(s, 10, 64); err == nil {
			seed = v
		}
	}

	if os.Getenv("VERIF_MODE") == "replay" {
		h.replay()
		return
	}

	h.startBuild()
	workers := runtime.NumCPU()
	if workers > 12 {
		workers = 12
	}
	if workers < 2 {
		workers = 2
	}

	core := c19CoreCases()
	malformed := c19MalformedCases()

	// 1. enumerated well-formed files, in-process, both modes, output absent
	h.stage("core-wellformed", core, workers)
	h.boundText = append(h.boundText, fmt.Sprintf("%d hand-enumerated well-formed CSVs (header normalisation, quotes/commas/newlines/CR/NUL/non-ASCII/invalid-UTF-8/empty fields, 0..25 records, 1..11 columns, LF/CRLF terminators, missing final newline, quote-all) x {normal,--big} checked in-process against the row-by-row reference", len(core)))

	// 2. enumerated malformed files with an existing output
	var mal []*c19Case
	for i, c := range malformed {
		mal = append(mal, c.with([]string{"garbage", "index", "empty"}[i%3], "inprocess"))
	}
	h.stage("malformed", mal, workers)
	h.boundText = append(h.boundText, fmt.Sprintf("%d enumerated malformed CSVs (ragged short/long at first/middle/last record, bare quote, text after closing quote, unterminated quote, defects in the header, ragged record after 1500 good ones) x {normal,--big} x {output absent, output present}", len(mal)))

	// 3. well-formed files with an existing output
	var pres []*c19Case
	for i, c := range core {
		if h.thorough || i < 4 {
			for _, p := range []string{"garbage", "index", "empty"} {
				pres = append(pres, c.with(p, "inprocess"))
			}
		}
	}
	h.stage("wellformed-output-present", pres, workers)
	h.boundText = append(h.boundText, fmt.Sprintf("%d well-formed CSV x pre-existing output {garbage bytes, valid index, empty file} combinations (must fail, output byte-identical with unchanged mtime)", len(pres)))

	// 4. the built binary: exit status of `updog create [-b]`, `updog schema [-‑full]`
	<-h.binDone
	if h.bin == "" {
		t.Logf("harness: binary stage skipped: %s", h.binErr)
		h.boundText = append(h.boundText, "built-binary stage SKIPPED ("+c19Trunc(h.binErr, 200)+")")
	} else {
		var bc []*c19Case
		for i, c := range core {
			if h.thorough || i < 6 {
				bc = append(bc, c.with([]string{"index", "garbage", "none"}[i%3], "binary"))
			}
		}
		for i, c := range malformed {
			if h.thorough || i%3 == 0 {
				bc = append(bc, c.with([]string{"garbage", "index"}[i%2], "binary"))
			}
		}
		h.stage("binary", bc, workers)
		h.boundText = append(h.boundText, fmt.Sprintf("%d of the enumerated well-formed/malformed CSVs through the built `updog` executable (exit status of create / create -b with output absent and present, exit status of `updog schema` and `schema --full`, created index checked against the reference)", len(bc)))
	}

	// 5. more than 1000 rows / values (transaction boundaries of both writers)
	bigs := []*c19Case{c19BigWellformed("2500-rows", 2500, c19Style{})}
	if h.thorough {
		bigs = append(bigs, c19BigWellformed("12000-rows-crlf", 12000, c19Style{CRLF: true, NoFinalNL: true}).with("index", "inprocess"))
		if h.bin != "" {
			bigs = append(bigs, c19BigWellformed("3001-rows-binary", 3001, c19Style{}).with("garbage", "binary"))
		}
	}
	h.stage("many-rows", bigs, 3)
	h.boundText = append(h.boundText, fmt.Sprintf("%d files with 2500..12000 records and > 1000 distinct values", len(bigs)))

	// 6. CR LF inside quoted fields
	h.stage("crlf-in-field", c19CRLFCases(), workers)
	h.boundText = append(h.boundText, "3 well-formed CSVs whose quoted fields contain CR LF")

	// 7. exhaustive small files
	alphabet := []string{"", "a", "B", "x,y", `"`, "\n"}
	shapes := [][2]int{{1, 1}, {1, 2}, {2, 1}, {1, 3}, {3, 1}}
	if h.thorough {
		alphabet = []string{"", "a", "B", "x,y", `"`, "\n", " a", "\r"}
		shapes = [][2]int{{1, 1}, {1, 2}, {2, 1}, {1, 3}, {3, 1}, {2, 2}, {1, 4}, {4, 1}}
	}
	exh := c19Exhaustive(shapes, alphabet)
	h.stage("exhaustive-small", exh, workers)
	h.boundText = append(h.boundText, fmt.Sprintf("all %d CSVs with shapes (columns x records) %v over the field alphabet %s", len(exh), shapes, c19QuoteList(alphabet, 20)))

	// 8. seeded random files
	nWell, nMal, nLarge := 2200, 500, 0
	if h.thorough {
		nWell, nMal, nLarge = 30000, 8000, 60
	}
	var rnd []*c19Case
	for i := 0; i < nWell+nMal; i++ {
		rng := rand.New(rand.NewSource(seed*1000003 + int64(i)))
		switch {
		case i%((nWell+nMal)/nMal) == 1 && nMal > 0:
			c := c19RandMalformed(rng, fmt.Sprintf("random-%d-malformed", i))
			c = c.with([]string{"none", "garbage", "index", "empty"}[rng.Intn(4)], "inprocess")
			rnd = append(rnd, c)
		default:
			c := c19RandWellformed(rng, fmt.Sprintf("random-%d", i), i%5 == 4, 0, false)
			if rng.Intn(4) == 0 {
				c = c.with([]string{"garbage", "index", "empty"}[rng.Intn(3)], "inprocess")
			}
			if h.bin != "" && i%40 == 7 {
				c = c.with(c.Present, "binary")
			}
			rnd = append(rnd, c)
		}
	}
	h.stage("random", rnd, workers)
	var large []*c19Case
	for i := 0; i < nLarge; i++ {
		rng := rand.New(rand.NewSource(seed*7000003 + int64(i)))
		large = append(large, c19RandWellformed(rng, fmt.Sprintf("random-large-%d", i), false, 0, true))
	}
	h.stage("random-large", large, 4)
	h.boundText = append(h.boundText, fmt.Sprintf("%d seeded random inputs (seed %d): ~%d well-formed (1..7 columns, 0..400 records, random headers distinct after normalisation, fields from a nasty-string pool and random bytes incl. quotes/commas/newlines/CR/NUL/invalid UTF-8; every 5th may contain CR LF inside fields; 1 in 4 with a pre-existing output; 1 in 40 through the binary), ~%d malformed by mutation (ragged, bare quote, text after quote, unterminated quote, header defect) with random pre-existing output; %d random files with 900..3500 records", len(rnd), seed, nWell, nMal, len(large)))

	if h.first != nil {
		h.fail(h.first)
	}
}

func (h *c19H) replay() {
	t := h.t
	path := os.Getenv("VERIF_CASE")
	data, err := os.ReadFile(path)
	if err != nil {
		t.Fatalf("harness: cannot read VERIF_CASE %q: %v", path, err)
	}
	var wrapper struct {
		Input json.RawMessage `json:"input"`
	}
	raw := data
	if err := json.Unmarshal(data, &wrapper); err == nil && len(wrapper.Input) > 0 {
		raw = wrapper.Input
	}
	var c c19Case
	if err := json.Unmarshal(raw, &c); err != nil {
		t.Fatalf("harness: cannot parse case: %v", err)
	}
	c.header = c19FromB(c.Header)
	for _, r := range c.Records {
		c.records = append(c.records, c19FromB(r))
	}
	if c.Kind == "" {
		if len(c.Header) > 0 {
			c.Kind = "wellformed"
		} else {
			c.Kind = "malformed"
		}
	}
	if c.CSVB64 != "" {
		if c.csv, err = base64.StdEncoding.DecodeString(c.CSVB64); err != nil {
			t.Fatalf("harness: bad csv_b64: %v", err)
		}
	} else if c.Kind == "wellformed" {
		st := c19Style{}
		if c.Style != nil {
			st = *c.Style
		}
		c.csv = c19Encode(c.header, c.records, st)
	} else {
		t.Fatalf("harness: malformed case without csv_b64")
	}
	if c.Kind == "wellformed" {
		if !c19HeaderOK(c.header) {
			t.Fatalf("harness: replay case is outside the property's quantifier (header not distinct after normalisation / not valid UTF-8)")
		}
		for i, r := range c.records {
			if len(r) != len(c.header) {
				t.Fatalf("harness: replay case record %d has %d fields, header has %d", i, len(r), len(c.header))
			}
		}
	}
	c.finish()
	h.hardStop = time.Now().Add(10 * time.Minute)
	if c.Via == "binary" {
		h.startBuild()
		<-h.binDone
		if h.bin == "" {
			t.Fatalf("harness: cannot build the updog binary for a binary replay: %s", h.binErr)
		}
	}
	h.boundText = append(h.boundText, "replay of one case: "+c.Name)
	if v := h.runCase(&c); v != nil {
		h.report(v)
		d, _ := json.Marshal(map[string]interface{}{"what": v.What, "expected": v.Expected, "got": v.Got})
		t.Fatalf("C19 violated (replay): %s", c19Trunc(string(d), 4000))
	}
}
