package driver

// Harness for property C12 — "sql driver returns exactly the library's result as rows".
//
// Oracle. For every query text the harness parses the text with its OWN parser of the documented
// grammar, substitutes the bound arguments, builds the library query value itself and executes it with
// updog.Index.Execute on a byte-identical copy of the index file (opened without options). The expected
// database/sql observation is derived from that library result exactly as the statement says:
//   - columns = group-by columns followed by "count"; types TEXT... , BIGINT
//   - with group-by: one row per library group, in library order, the group's values then its count
//     (no group => no rows); without group-by: exactly one row holding the total count
//   - the library rejects (Execute error / text not derivable from the grammar and rejected by the
//     parser) => the driver must return an error.
// The real observation is made through database/sql (sql.Open("updog", "file:...?opts"), DB.Query,
// DB.Prepare+Stmt.Query, Tx.Prepare+Stmt.Query; Rows.Columns, ColumnTypes, Next/Scan, Err).
//
// Out of scope on purpose (other properties): too few / surplus bound arguments (only exact arity is
// checked), texts outside the grammar that the parser nevertheless accepts, reopening a file (C17). Cache-key
// collisions of the LRU cache are neutralised by giving the reference index the same cache option and history.
// Every handle gets its own fresh copy of the index file.

import (
	"context"
	"database/sql"
	"encoding/json"
	"fmt"
	"math/rand"
	"net/url"
	"os"
	"path/filepath"
	"strconv"
	"strings"
	"testing"
	"time"

	"github.com/akrennmair/updog"
	"github.com/akrennmair/updog/internal/queryparser"
)

// ---------------------------------------------------------------------------------------------
// case format

type c12Arg struct {
	IsInt bool
	S     c12Str
	I     int64
}

func (a c12Arg) MarshalJSON() ([]byte, error) {
	if a.IsInt {
		return json.Marshal(a.I)
	}
	return json.Marshal(a.S)
}

func (a *c12Arg) UnmarshalJSON(b []byte) error {
	var f float64
	if err := json.Unmarshal(b, &f); err == nil {
		*a = c12Arg{IsInt: true, I: int64(f)}
		return nil
	}
	var s c12Str
	if err := json.Unmarshal(b, &s); err != nil {
		return err
	}
	*a = c12Arg{S: s}
	return nil
}

func (a c12Arg) goValue() interface{} {
	if a.IsInt {
		return a.I
	}
	return string(a.S)
}

func (a c12Arg) text() string {
	if a.IsInt {
		return strconv.FormatInt(a.I, 10)
	}
	return string(a.S)
}

type c12Step struct {
	Query c12Str   `json:"query"`
	Args  []c12Arg `json:"args"`
	Via   string   `json:"via"` // query | prepare | tx
}

type c12Case struct {
	Rows    []c12Row  `json:"rows"`
	Options string    `json:"dsn_options"` // text after '?' in the DSN ("" = none)
	Steps   []c12Step `json:"steps"`       // executed in order on ONE handle
}

type c12Cell struct {
	Kind string // text | int | null | other
	S    c12Str
	I    int64
}

func (c c12Cell) MarshalJSON() ([]byte, error) {
	switch c.Kind {
	case "text":
		return json.Marshal(c.S)
	case "int":
		return json.Marshal(c.I)
	case "null":
		return []byte("null"), nil
	}
	return json.Marshal(map[string]string{"other": string(c.S)})
}

type c12Obs struct {
	Rejected bool        `json:"rejected"`
	Error    string      `json:"error,omitempty"`
	Panic    string      `json:"panic,omitempty"`
	Hang     bool        `json:"hang,omitempty"`
	Columns  []string    `json:"columns,omitempty"`
	Types    []string    `json:"types,omitempty"`
	Rows     [][]c12Cell `json:"rows"`
}

const c12Timeout = 10 * time.Second

// ---------------------------------------------------------------------------------------------
// the harness' own parser of the documented grammar
//
// query ::= expr [ ';' field-list ]        expr ::= simple-expr | and-expr | or-expr
// simple-expr ::= '(' expr ')' | '^' simple-expr | field '=' ( value | placeholder )
// and-expr ::= simple-expr { '&' simple-expr }     or-expr ::= simple-expr { '|' simple-expr }
// field-list ::= field { ',' field }   value ::= '"' { char-except-quote | '""' } '"'
// placeholder ::= '$' digit { digit }  (>= 1)     field ::= letter { letter | digit | '_' }

type c12Tok struct {
	kind string // one of ( ) & | ^ = , ; field value ph eof
	text string
	n    int
}

func c12Lex(s string) ([]c12Tok, error) {
	var toks []c12Tok
	i := 0
	isLetter := func(b byte) bool { return (b >= 'a' && b <= 'z') || (b >= 'A' && b <= 'Z') }
	isDigit := func(b byte) bool { return b >= '0' && b <= '9' }
	for i < len(s) {
		b := s[i]
		switch {
		case b == ' ' || b == '\n' || b == '\r' || b == '\t':
			i++
		case strings.IndexByte("()&|^=,;", b) >= 0:
			toks = append(toks, c12Tok{kind: string(b)})
			i++
		case isLetter(b):
			j := i + 1
			for j < len(s) && (isLetter(s[j]) || isDigit(s[j]) || s[j] == '_') {
				j++
			}
			toks = append(toks, c12Tok{kind: "field", text: s[i:j]})
			i = j
		case b == '"':
			j := i + 1
			var val strings.Builder
			closed := false
			for j < len(s) {
				if s[j] == '"' {
					if j+1 < len(s) && s[j+1] == '"' {
						val.WriteByte('"')
						j += 2
						continue
					}
					closed = true
					j++
					break
				}
				val.WriteByte(s[j])
				j++
			}
			if !closed {
				return nil, fmt.Errorf("unterminated value at %d", i)
			}
			toks = append(toks, c12Tok{kind: "value", text: val.String()})
			i = j
		case b == '$':
			j := i + 1
			for j < len(s) && isDigit(s[j]) {
				j++
			}
			if j == i+1 {
				return nil, fmt.Errorf("placeholder without number at %d", i)
			}
			n, err := strconv.Atoi(s[i+1 : j])
			if err != nil || n < 1 || n > 1<<20 {
				return nil, fmt.Errorf("bad placeholder %q", s[i:j])
			}
			toks = append(toks, c12Tok{kind: "ph", n: n})
			i = j
		default:
			return nil, fmt.Errorf("unexpected byte %q at %d", b, i)
		}
	}
	toks = append(toks, c12Tok{kind: "eof"})
	return toks, nil
}

type c12Parser struct {
	toks []c12Tok
	pos  int
}

func (p *c12Parser) peek() c12Tok { return p.toks[p.pos] }
func (p *c12Parser) next() c12Tok { t := p.toks[p.pos]; p.pos++; return t }

func c12Parse(text string) (e *c12Expr, groupBy []string, err error) {
	toks, err := c12Lex(text)
	if err != nil {
		return nil, nil, err
	}
	p := &c12Parser{toks: toks}
	defer func() {
		if r := recover(); r != nil {
			e, groupBy, err = nil, nil, fmt.Errorf("%v", r)
		}
	}()
	e = p.expr()
	if p.peek().kind == ";" {
		p.next()
		for {
			t := p.next()
			if t.kind != "field" {
				panic("expected field in group-by list")
			}
			groupBy = append(groupBy, t.text)
			if p.peek().kind != "," {
				break
			}
			p.next()
		}
	}
	if p.peek().kind != "eof" {
		panic("trailing input")
	}
	return e, groupBy, nil
}

func (p *c12Parser) expr() *c12Expr {
	first := p.simple()
	k := p.peek().kind
	if k != "&" && k != "|" {
		return first
	}
	op := "and"
	if k == "|" {
		op = "or"
	}
	e := &c12Expr{Op: op, Kids: []*c12Expr{first}}
	for p.peek().kind == k {
		p.next()
		e.Kids = append(e.Kids, p.simple())
	}
	return e
}

func (p *c12Parser) simple() *c12Expr {
	t := p.next()
	switch t.kind {
	case "(":
		e := p.expr()
		if p.next().kind != ")" {
			panic("expected )")
		}
		return e
	case "^":
		return c12Not(p.simple())
	case "field":
		if p.next().kind != "=" {
			panic("expected =")
		}
		v := p.next()
		switch v.kind {
		case "value":
			return c12Eq(t.text, v.text)
		case "ph":
			return c12Ph(t.text, v.n)
		}
		panic("expected value or placeholder")
	}
	panic("unexpected token " + t.kind)
}

// ---------------------------------------------------------------------------------------------
// expectation

// c12Expect derives the expected observation. determined=false means the property does not fix the
// outcome for this step (see header) and the step is skipped.
func c12Expect(lib *updog.Index, rows []c12Row, st c12Step) (exp c12Obs, determined bool, libModelDiffer bool) {
	e, gb, perr := c12Parse(string(st.Query))
	if perr != nil {
		// Not derivable from the grammar. "Rejected by the library" is then decided by the library's parser.
		if c12RepoParserRejects(string(st.Query)) {
			return c12Obs{Rejected: true, Error: "not in the query grammar: " + perr.Error()}, true, false
		}
		return c12Obs{}, false, false
	}
	if e.maxPlaceholder() != len(st.Args) {
		return c12Obs{}, false, false
	}
	args := make([]string, len(st.Args))
	for i, a := range st.Args {
		args[i] = a.text()
	}
	se := e.subst(args)
	res, err, panicked := c12LibExec(lib, se, gb)
	if panicked {
		return c12Obs{}, false, false
	}
	model, merr := c12Model(rows, se, gb)
	if err != nil {
		return c12Obs{Rejected: true, Error: "library: " + err.Error()}, true, merr == nil
	}
	libModelDiffer = merr != nil || !c12ResultsEqual(model, c12FromLib(res))
	exp.Columns = append(append([]string{}, gb...), "count")
	for range gb {
		exp.Types = append(exp.Types, "TEXT")
	}
	exp.Types = append(exp.Types, "BIGINT")
	exp.Rows = [][]c12Cell{}
	if len(gb) == 0 {
		exp.Rows = append(exp.Rows, []c12Cell{{Kind: "int", I: int64(res.Count)}})
		return exp, true, libModelDiffer
	}
	for _, g := range res.Groups {
		var r []c12Cell
		for _, f := range g.Fields {
			r = append(r, c12Cell{Kind: "text", S: c12Str(f.Value)})
		}
		r = append(r, c12Cell{Kind: "int", I: int64(g.Count)})
		exp.Rows = append(exp.Rows, r)
	}
	return exp, true, libModelDiffer
}

func c12RepoParserRejects(text string) (rejects bool) {
	defer func() {
		if r := recover(); r != nil {
			rejects = false // a panicking parser is not a rejection; outcome undetermined here
		}
	}()
	_, err := queryparser.ParseQuery(text)
	return err != nil
}

// ---------------------------------------------------------------------------------------------
// observation through database/sql

func c12Observe(db *sql.DB, st c12Step) c12Obs {
	ch := make(chan c12Obs, 1)
	go func() {
		var o c12Obs
		defer func() {
			if r := recover(); r != nil {
				o = c12Obs{Panic: fmt.Sprint(r)}
			}
			ch <- o
		}()
		o = c12Run(db, st)
	}()
	select {
	case o := <-ch:
		return o
	case <-time.After(c12Timeout):
		return c12Obs{Hang: true}
	}
}

func c12Run(db *sql.DB, st c12Step) c12Obs {
	args := make([]interface{}, len(st.Args))
	for i, a := range st.Args {
		args[i] = a.goValue()
	}
	q := string(st.Query)
	var rows *sql.Rows
	var err error
	switch st.Via {
	case "prepare":
		stmt, perr := db.Prepare(q)
		if perr != nil {
			return c12Obs{Rejected: true, Error: perr.Error()}
		}
		defer stmt.Close()
		rows, err = stmt.Query(args...)
	case "tx":
		tx, terr := db.BeginTx(context.Background(), nil)
		if terr != nil {
			return c12Obs{Rejected: true, Error: "begin: " + terr.Error()}
		}
		defer tx.Rollback()
		stmt, perr := tx.Prepare(q)
		if perr != nil {
			return c12Obs{Rejected: true, Error: perr.Error()}
		}
		defer stmt.Close()
		rows, err = stmt.Query(args...)
	default:
		rows, err = db.Query(q, args...)
	}
	if err != nil {
		return c12Obs{Rejected: true, Error: err.Error()}
	}
	defer rows.Close()
	var o c12Obs
	o.Rows = [][]c12Cell{}
	cols, err := rows.Columns()
	if err != nil {
		return c12Obs{Rejected: true, Error: "Columns: " + err.Error()}
	}
	o.Columns = cols
	cts, err := rows.ColumnTypes()
	if err != nil {
		return c12Obs{Rejected: true, Error: "ColumnTypes: " + err.Error()}
	}
	for _, ct := range cts {
		o.Types = append(o.Types, ct.DatabaseTypeName())
	}
	for rows.Next() {
		dest := make([]interface{}, len(cols))
		ptrs := make([]interface{}, len(cols))
		for i := range dest {
			ptrs[i] = &dest[i]
		}
		if err := rows.Scan(ptrs...); err != nil {
			return c12Obs{Rejected: true, Error: "Scan: " + err.Error()}
		}
		var r []c12Cell
		for _, v := range dest {
			switch x := v.(type) {
			case nil:
				r = append(r, c12Cell{Kind: "null"})
			case string:
				r = append(r, c12Cell{Kind: "text", S: c12Str(x)})
			case []byte:
				r = append(r, c12Cell{Kind: "text", S: c12Str(x)})
			case int64:
				r = append(r, c12Cell{Kind: "int", I: x})
			default:
				r = append(r, c12Cell{Kind: "other", S: c12Str(fmt.Sprintf("%T(%v)", v, v))})
			}
		}
		o.Rows = append(o.Rows, r)
	}
	if err := rows.Err(); err != nil {
		return c12Obs{Rejected: true, Error: "Rows.Err: " + err.Error()}
	}
	return o
}

func c12Compare(exp, got c12Obs) string {
	if got.Panic != "" {
		return "the database/sql call panicked"
	}
	if got.Hang {
		return "the database/sql call did not return within the watchdog timeout"
	}
	if exp.Rejected {
		if !got.Rejected {
			return "a query the library rejects was answered with rows instead of an error"
		}
		return ""
	}
	if got.Rejected {
		return "a query the library answers was rejected with an error"
	}
	if !c12StrsEqual(exp.Columns, got.Columns) {
		return "reported columns differ from group-by columns followed by \"count\""
	}
	if !c12StrsEqual(exp.Types, got.Types) {
		return "reported column types differ from TEXT... BIGINT"
	}
	if len(exp.Rows) != len(got.Rows) {
		return fmt.Sprintf("driver returned %d rows, the library result corresponds to %d rows", len(got.Rows), len(exp.Rows))
	}
	for i := range exp.Rows {
		if len(exp.Rows[i]) != len(got.Rows[i]) {
			return fmt.Sprintf("row %d has the wrong number of values", i)
		}
		for j := range exp.Rows[i] {
			if exp.Rows[i][j] != got.Rows[i][j] {
				return fmt.Sprintf("row %d differs from the library's group %d at column %d", i, i, j)
			}
		}
	}
	return ""
}

func c12StrsEqual(a, b []string) bool {
	if len(a) != len(b) {
		return false
	}
	for i := range a {
		if a[i] != b[i] {
			return false
		}
	}
	return true
}

// ---------------------------------------------------------------------------------------------
// running one case (fresh files, one library index, one database/sql handle)

type c12Outcome struct {
	viol             *c12Violation
	failedStep       int
	executed         int
	skipped          int
	libDiffer        int
	libDifferExample string
	nontrivial       []string
}

var c12DirCounter int

func c12CheckCase(baseDir string, c c12Case) (out c12Outcome) {
	out.failedStep = -1
	c12DirCounter++
	dir := filepath.Join(baseDir, fmt.Sprintf("case%d", c12DirCounter))
	if err := os.MkdirAll(dir, 0o755); err != nil {
		panic(err)
	}
	defer os.RemoveAll(dir)
	master := filepath.Join(dir, "master.updog")
	if err := c12BuildIndex(master, c.Rows); err != nil {
		panic(fmt.Sprintf("harness: cannot build index: %v", err))
	}
	libPath := filepath.Join(dir, "lib.updog")
	hPath := filepath.Join(dir, "handle.updog")
	if err := c12CopyFile(libPath, master); err != nil {
		panic(err)
	}
	if err := c12CopyFile(hPath, master); err != nil {
		panic(err)
	}
	// The reference index gets the same options as the DSN (and, since every accepted query text leads
	// to exactly one Execute, the same cache history), so that "the library's result" means the result
	// of the library configured and used the same way.
	libOpts, optsOK := c12LibOptions(c.Options)
	if !optsOK {
		out.skipped = len(c.Steps)
		return out
	}
	lib, err := updog.OpenIndex(libPath, libOpts...)
	if err != nil {
		panic(fmt.Sprintf("harness: cannot open library copy: %v", err))
	}
	defer lib.Close()

	dsn := "file:" + hPath
	if c.Options != "" {
		dsn += "?" + c.Options
	}
	db, err := sql.Open("updog", dsn)
	if err != nil {
		out.viol = &c12Violation{Property: "C12", What: "sql.Open failed for a file data source", Input: c, Expected: "a handle", Got: err.Error()}
		return out
	}
	defer func() {
		done := make(chan struct{})
		go func() {
			defer func() { recover(); close(done) }()
			db.Close()
		}()
		select {
		case <-done:
		case <-time.After(c12Timeout):
		}
	}()

	for i, st := range c.Steps {
		exp, determined, differ := c12Expect(lib, c.Rows, st)
		if !determined {
			out.skipped++
			continue
		}
		if differ {
			out.libDiffer++
			if out.libDifferExample == "" {
				out.libDifferExample = fmt.Sprintf("options %q query %q args %v", c.Options, st.Query, st.Args)
			}
		}
		got := c12Observe(db, st)
		out.executed++
		if !exp.Rejected {
			out.nontrivial = append(out.nontrivial, string(st.Query)+"\x00"+fmt.Sprint(st.Args))
		}
		if why := c12Compare(exp, got); why != "" {
			out.failedStep = i
			out.viol = &c12Violation{
				Property: "C12",
				What:     why,
				Input:    c12Case{Rows: c.Rows, Options: c.Options, Steps: c.Steps[:i+1]},
				Expected: exp,
				Got:      got,
			}
			return out
		}
	}
	return out
}

// c12LibOptions translates the documented DSN options into library options. ok=false: the option
// string is not one the property talks about (lrucache without a valid size).
func c12LibOptions(opts string) (out []updog.IndexOption, ok bool) {
	v, err := url.ParseQuery(opts)
	if err != nil {
		return nil, false
	}
	if v.Get("preload") == "true" {
		out = append(out, updog.WithPreloadedData())
	}
	if v.Get("lrucache") == "true" {
		n, err := strconv.ParseUint(v.Get("lrucachesize"), 10, 64)
		if err != nil {
			return nil, false
		}
		out = append(out, updog.WithCache(updog.NewLRUCache(n)))
	}
	return out, true
}

// c12Minimise shrinks a failing case: last step alone, no DSN options, fewer rows.
func c12Minimise(baseDir string, c c12Case, v *c12Violation, failed int) *c12Violation {
	best, bestCase := v, c12Case{Rows: c.Rows, Options: c.Options, Steps: c.Steps[:failed+1]}
	try := func(cand c12Case) bool {
		o := c12CheckCase(baseDir, cand)
		if o.viol != nil && o.failedStep == len(cand.Steps)-1 {
			best, bestCase = o.viol, cand
			return true
		}
		return false
	}
	try(c12Case{Rows: bestCase.Rows, Options: bestCase.Options, Steps: bestCase.Steps[len(bestCase.Steps)-1:]})
	if bestCase.Options != "" {
		try(c12Case{Rows: bestCase.Rows, Options: "", Steps: bestCase.Steps})
	}
	if len(bestCase.Steps) > 1 {
		for i := 0; i < len(bestCase.Steps)-1; {
			steps := append(append([]c12Step{}, bestCase.Steps[:i]...), bestCase.Steps[i+1:]...)
			if !try(c12Case{Rows: bestCase.Rows, Options: bestCase.Options, Steps: steps}) {
				i++
			}
		}
	}
	{
		for i := 0; i < len(bestCase.Rows) && len(bestCase.Rows) > 0; {
			rows := append(append([]c12Row{}, bestCase.Rows[:i]...), bestCase.Rows[i+1:]...)
			if !try(c12Case{Rows: rows, Options: bestCase.Options, Steps: bestCase.Steps}) {
				i++
			}
		}
	}
	return best
}

// ---------------------------------------------------------------------------------------------
// generators

func c12IsIdent(s string) bool {
	if s == "" {
		return false
	}
	for i := 0; i < len(s); i++ {
		b := s[i]
		letter := (b >= 'a' && b <= 'z') || (b >= 'A' && b <= 'Z')
		if i == 0 && !letter {
			return false
		}
		if !letter && !(b >= '0' && b <= '9') && b != '_' {
			return false
		}
	}
	return true
}

func c12S(q string, via string, args ...interface{}) c12Step {
	st := c12Step{Query: c12Str(q), Via: via, Args: []c12Arg{}}
	for _, a := range args {
		switch x := a.(type) {
		case string:
			st.Args = append(st.Args, c12Arg{S: c12Str(x)})
		case int:
			st.Args = append(st.Args, c12Arg{IsInt: true, I: int64(x)})
		}
	}
	return st
}

// c12EnumSteps: the systematic part, cheapest and most suspicious shapes first.
func c12EnumSteps(rows []c12Row) []c12Step {
	allCols, vals := c12ValuesOf(rows)
	var cols []string
	for _, c := range allCols {
		if c12IsIdent(c) {
			cols = append(cols, c)
		}
	}
	var steps []c12Step
	if len(cols) == 0 {
		return []c12Step{c12S(`a = "1"`, "query"), c12S(`a = "1" ; a`, "query"), c12S(`^a = "1"`, "prepare"), c12S(``, "query")}
	}
	c0 := cols[0]
	v0 := vals[c0][0]
	c1 := cols[len(cols)-1]
	eq := func(c, v string) string { return c + " = " + c12Quote(v) }
	absent := "zz-absent"

	// 1. the four basic shapes
	steps = append(steps,
		c12S(eq(c0, v0), "query"),
		c12S(eq(c0, v0)+" ; "+c0, "query"),
		c12S(eq(c0, absent)+" ; "+c0, "query"), // group-by, nothing matches
		c12S(eq(c0, absent), "query"),          // no group-by, nothing matches: one row, count 0
		c12S(eq(c0, absent)+" ; "+c0+", "+c1, "prepare"),
		c12S(eq(c0, v0)+" & ^"+eq(c0, v0)+" ; "+c1, "tx"),
		c12S(eq(c0, v0)+" | ^"+eq(c0, v0), "query"), // everything
		c12S(eq(c0, v0)+" | ^"+eq(c0, v0)+" ; "+c0, "prepare"),
		c12S(eq(c0, v0)+" | ^"+eq(c0, v0)+" ; "+c0+", "+c1, "tx"),
		c12S(eq(c0, v0)+" | ^"+eq(c0, v0)+" ; "+c1+", "+c0, "query"),
	)
	// 2. every (column, value) incl. an absent value: ungrouped, grouped by every column, by some pairs
	for ci, c := range cols {
		if ci >= 4 {
			break
		}
		vs := append([]string{}, vals[c]...)
		if len(vs) > 4 {
			vs = vs[:4]
		}
		vs = append(vs, absent)
		for _, v := range vs {
			steps = append(steps, c12S(eq(c, v), "query"), c12S("^"+eq(c, v), "prepare"))
			for gi, g := range cols {
				if gi >= 4 {
					break
				}
				steps = append(steps, c12S(eq(c, v)+" ; "+g, []string{"query", "prepare", "tx"}[(ci+gi)%3]))
				steps = append(steps, c12S("^"+eq(c, v)+" ; "+g+", "+cols[(gi+1)%len(cols)], "query"))
			}
		}
	}
	// 3. placeholders and bound arguments
	steps = append(steps,
		c12S(c0+" = $1", "query", v0),
		c12S(c0+" = $1", "prepare", v0),
		c12S(c0+" = $1 ; "+c0, "tx", v0),
		c12S(c0+" = $1 ; "+c0, "query", absent),
		c12S(c0+" = $1 | "+c1+" = $2 ; "+c1, "query", v0, vals[c1][0]),
		c12S(c0+" = $2 | "+c1+" = $1 ; "+c1, "prepare", vals[c1][0], v0),
		c12S(c0+" = $1 | ^"+c0+" = $1 ; "+c0, "query", v0),
		c12S(c0+" = $1", "query", ""),
		c12S(c0+" = $1", "query", `q"uo""te`),
	)
	for _, c := range cols {
		for _, v := range vals[c] {
			if n, err := strconv.Atoi(v); err == nil && strconv.Itoa(n) == v {
				steps = append(steps, c12S(c+" = $1 ; "+c, "query", n), c12S(c+" = $1", "prepare", n))
				break
			}
		}
	}
	// 4. three group-by columns, repeated group-by column, layout variants
	g3 := cols[0] + ", " + cols[len(cols)/2] + ", " + cols[len(cols)-1]
	steps = append(steps,
		c12S(eq(c0, v0)+" | ^"+eq(c0, v0)+" ; "+g3, "query"),
		c12S(eq(c0, v0)+" ; "+c0+", "+c0, "query"),
		c12S(c0+"="+c12Quote(v0)+";"+c0, "query"),
		c12S("\t( "+eq(c0, v0)+" )\n;\n"+c1+" ", "prepare"),
		c12S("^^"+eq(c0, v0), "query"),
		c12S("^("+eq(c0, v0)+" & "+eq(c1, vals[c1][0])+") ; "+c1, "query"),
		c12S("("+eq(c0, v0)+" | "+eq(c1, vals[c1][0])+") & ^"+eq(c0, absent)+" ; "+c0, "tx"),
	)
	// 5. queries that must be rejected
	for _, q := range []string{
		`nosuchcol = "1"`, `nosuchcol = "1" ; ` + c0, eq(c0, v0) + " ; nosuchcol", eq(c0, v0) + " ; " + c0 + ", nosuchcol",
		eq(c0, v0) + ` & nosuchcol = "1"`, `^nosuchcol = "1"`,
		``, ` `, c0, c0 + ` =`, eq(c0, v0) + ` ;`, eq(c0, v0) + ` ; ,`, eq(c0, v0) + ` ; ` + c0 + `,`, `(` + eq(c0, v0), eq(c0, v0) + `)`,
		c0 + ` = v0`, c0 + ` = "v0`, `= "v0"`, c0 + ` = $0`, c0 + ` = $`, `& ` + eq(c0, v0), eq(c0, v0) + ` &`, eq(c0, v0) + ` |`,
		eq(c0, v0) + ` ; ` + c0 + ` ` + c1, eq(c0, v0) + ` # x`, `^`, `()`, eq(c0, v0) + ` ; 1x`, `1x = "1"`,
	} {
		steps = append(steps, c12S(q, "query"), c12S(q, "prepare"))
	}
	return steps
}

func c12RandomSteps(rng *rand.Rand, rows []c12Row, n int, maxGroupBy int) []c12Step {
	allCols, vals := c12ValuesOf(rows)
	var cols []string
	for _, c := range allCols {
		if c12IsIdent(c) {
			cols = append(cols, c)
		}
	}
	if len(cols) == 0 {
		return nil
	}
	var steps []c12Step
	for i := 0; i < n; i++ {
		e := c12GenExpr(rng, cols, vals, 1+rng.Intn(3))
		var gb []string
		for k := rng.Intn(maxGroupBy + 1); k > 0; k-- {
			gb = append(gb, cols[rng.Intn(len(cols))])
		}
		st := c12Step{Via: []string{"query", "prepare", "tx"}[rng.Intn(3)], Args: []c12Arg{}}
		if rng.Intn(2) == 0 {
			pe, args := c12Abstract(rng, e)
			for _, a := range args {
				if n, err := strconv.Atoi(a); err == nil && strconv.Itoa(n) == a && rng.Intn(2) == 0 {
					st.Args = append(st.Args, c12Arg{IsInt: true, I: int64(n)})
				} else {
					st.Args = append(st.Args, c12Arg{S: c12Str(a)})
				}
			}
			e = pe
		}
		st.Query = c12Str(c12RenderQuery(e, gb))
		steps = append(steps, st)
	}
	return steps
}

var c12ColPool = []c12ColSpec{
	{"a", []string{"1", "2", "3"}},
	{"b", []string{"x", "y"}},
	{"c", []string{"foo", "bar", "quux", ""}},
	{"count", []string{"1", "10", "007"}},
	{"B_2", []string{`q"uote`, `""`, " sp ", "ünï", "日本", "a;b", "x\xffy", "$1", "a = \"1\""}},
	{"d", []string{"d00", "d01", "d02", "d03", "d04", "d05", "d06", "d07", "d08", "d09", "d10", "d11"}},
	{"my col", []string{"1"}},
	{"e9", []string{"-1", "0", "9223372036854775807"}},
}

func c12FixedDatasets() [][]c12Row {
	return [][]c12Row{
		{ // the rows of the repository's own driver test
			{"a": "1", "b": "2", "c": "foo"},
			{"a": "1", "b": "3", "c": "bar"},
			{"a": "5", "b": "2", "c": "foo"},
			{"c": "quux"},
		},
		{{"a": "1"}},
		{}, // empty index: every column is unknown
		{
			{"count": "1", "B_2": `q"uote`},
			{"count": "1", "B_2": ""},
			{"count": "10", "B_2": "x\xffy"},
			{"count": "10"},
			{"B_2": "日本"},
			{"my col": "1"},
		},
	}
}

func c12RandomDataset(rng *rand.Rand, maxRows int) []c12Row {
	perm := rng.Perm(len(c12ColPool))
	nc := 1 + rng.Intn(5)
	var cols []c12ColSpec
	for _, i := range perm[:nc] {
		cols = append(cols, c12ColPool[i])
	}
	p := []float64{1.0, 0.8, 0.5}[rng.Intn(3)]
	return c12GenRows(rng, cols, 1+rng.Intn(maxRows), p)
}

// ---------------------------------------------------------------------------------------------
// test entry

func TestVerifHarnessC12(t *testing.T) {
	stats := &c12Stats{}
	defer stats.write()
	baseDir := t.TempDir()

	fail := func(v *c12Violation) {
		v.write()
		b, _ := json.Marshal(v)
		t.Fatalf("C12 violated: %s\n%s", v.What, b)
	}

	if os.Getenv("VERIF_MODE") == "replay" {
		raw, err := os.ReadFile(os.Getenv("VERIF_CASE"))
		if err != nil {
			t.Fatalf("cannot read VERIF_CASE: %v", err)
		}
		var wrap struct {
			Input c12Case `json:"input"`
		}
		if err := json.Unmarshal(raw, &wrap); err != nil {
			t.Fatalf("cannot decode VERIF_CASE: %v", err)
		}
		stats.Bound = "replay of one case"
		out := c12CheckCase(baseDir, wrap.Input)
		stats.Cases = out.executed
		for _, k := range out.nontrivial {
			stats.nontrivial(k)
		}
		if out.viol != nil {
			fail(out.viol)
		}
		if out.executed == 0 {
			t.Logf("replay: no step of the case is determined by the property (skipped %d)", out.skipped)
		}
		return
	}

	thorough := c12Thorough()
	seed := c12Seed()
	rng := rand.New(rand.NewSource(seed))
	options := []string{
		"",
		"preload=true",
		"lrucache=true&lrucachesize=10000000",
		"preload=true&lrucache=true&lrucachesize=10000000",
		"lrucache=true&lrucachesize=0",
		"lrucachesize=400&lrucache=true&preload=true",
		"preload=false&lrucache=false",
	}
	nRandomDatasets, nRandomSteps, maxRows, maxGroupBy := 8, 60, 30, 3
	budget := 18 * time.Second
	if thorough {
		options = append(options,
			"lrucache=true&lrucachesize=1", "lrucache=true&lrucachesize=150", "lrucache=true&lrucachesize=1000",
			"lrucache=true&lrucachesize=65536", "preload=true&lrucache=true&lrucachesize=1", "preload=true&lrucachesize=5",
		)
		nRandomDatasets, nRandomSteps, maxRows, maxGroupBy = 70, 250, 300, 5
		budget = 240 * time.Second
	}
	stats.Bound = fmt.Sprintf("seed %d: %d fixed + %d random datasets (<=%d rows, <=5 of 8 columns, cells optional, values incl. \"\", quotes, non-UTF-8) x %d DSN option strings x (systematic steps: every shape no-group/group x match/no-match/all, every (col,val), placeholders, rejections + %d random expressions depth<=3, 0..%d group-by columns) x via {Query, Prepare, Tx.Prepare}",
		seed, len(c12FixedDatasets()), nRandomDatasets, maxRows, len(options), nRandomSteps, maxGroupBy)
	start := time.Now()
	datasets := c12FixedDatasets()
	for i := 0; i < nRandomDatasets; i++ {
		datasets = append(datasets, c12RandomDataset(rng, maxRows))
	}
	libDiffer := 0
	truncated := false
outer:
	for di, rows := range datasets {
		enum := c12EnumSteps(rows)
		for oi, opt := range options {
			if time.Since(start) > budget {
				truncated = true
				break outer
			}
			steps := append([]c12Step{}, enum...)
			steps = append(steps, c12RandomSteps(rand.New(rand.NewSource(seed*1000003+int64(di)*131+int64(oi))), rows, nRandomSteps, maxGroupBy)...)
			c := c12Case{Rows: rows, Options: opt, Steps: steps}
			out := c12CheckCase(baseDir, c)
			stats.Cases += out.executed
			libDiffer += out.libDiffer
			if out.libDifferExample != "" && libDiffer == out.libDiffer {
				t.Logf("first library/model difference (not a C12 matter): dataset %d %s", di, out.libDifferExample)
			}
			for _, k := range out.nontrivial {
				stats.nontrivial(fmt.Sprint(di) + "\x00" + k)
			}
			if out.viol != nil {
				fail(c12Minimise(baseDir, c, out.viol, out.failedStep))
			}
		}
	}
	if truncated {
		stats.Bound += fmt.Sprintf(" [stopped by the time budget after %v]", budget)
	}
	if libDiffer > 0 {
		stats.Bound += fmt.Sprintf(" [note: %d library results differed from the row-by-row model; not a C12 matter]", libDiffer)
		t.Logf("note: %d library results differed from the row-by-row model (other properties)", libDiffer)
	}
	t.Logf("C12: %d observations, %d distinct accepted queries, %v", stats.Cases, stats.Nontrivial, time.Since(start))
}
