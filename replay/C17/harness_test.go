package driver

// Harness for property C17 — "sql driver handles survive any open/close/concurrent-use sequence".
//
// A case is a sequence of operations over a few database/sql handles on one or two index files:
//   open(h, file, dsn options, pool sizes) / query(h, q) / prepare(h, q) / conc(h, n goroutines) / close(h)
// Every operation runs under a watchdog (a hang is a violation) and under recover (a panic is a violation).
// Every query result is compared with a row-by-row evaluation of the query over the rows the harness wrote
// into that file (the two files hold different rows, so answers from the wrong file are detected).
// After close(h), if no other handle of the case is open on the same file, the file must be released:
// bbolt.Open(file, Timeout) must succeed.
//
// Kept out on purpose (other properties): the fixed query table has no grouped query without a matching
// group (C12), at most two group-by columns (C02) and no repeated comparison (cache keys, C03); cases with
// concurrent operations never use the lrucache option (the LRU cache's own thread-safety is C04).
// Every case works on fresh copies of the index files, so a leaked file lock cannot poison later cases.
//
// VERIF_HINT may contain one of: reopen, options, idle, concurrent, shared, random — then only that family runs.

import (
	"database/sql"
	"encoding/json"
	"fmt"
	"math/rand"
	"os"
	"path/filepath"
	"strings"
	"sync"
	"testing"
	"time"

	"go.etcd.io/bbolt"
)

type c17Query struct {
	Text    string
	Expr    *c17Expr // with placeholders
	GroupBy []string
	Args    []string
}

var c17Queries = []c17Query{
	{Text: `a = "1"`, Expr: c17Eq("a", "1")},
	{Text: `a = "1" | b = "2" ; c`, Expr: c17Or(c17Eq("a", "1"), c17Eq("b", "2")), GroupBy: []string{"c"}},
	{Text: `^a = "1"`, Expr: c17Not(c17Eq("a", "1"))},
	{Text: `a = $1 ; b`, Expr: c17Ph("a", 1), GroupBy: []string{"b"}, Args: []string{"1"}},
	{Text: `c = "foo" & ^b = "3" ; a, b`, Expr: c17And(c17Eq("c", "foo"), c17Not(c17Eq("b", "3"))), GroupBy: []string{"a", "b"}},
	{Text: `b = $2 | c = $1`, Expr: c17Or(c17Ph("b", 2), c17Ph("c", 1)), Args: []string{"quux", "2"}},
	{Text: `c = "nope"`, Expr: c17Eq("c", "nope")},
}

// two different datasets; every grouped query of the table has at least one group in both
var c17Files = [][]c17Row{
	{
		{"a": "1", "b": "2", "c": "foo"},
		{"a": "1", "b": "3", "c": "bar"},
		{"a": "5", "b": "2", "c": "foo"},
		{"c": "quux"},
	},
	{
		{"a": "1", "b": "2", "c": "foo"},
		{"a": "1", "b": "2", "c": "foo"},
		{"a": "1", "b": "7", "c": "zap"},
		{"a": "2", "b": "2", "c": "bar"},
		{"a": "2", "b": "3", "c": "quux"},
		{"a": "3", "c": "foo", "b": "9"},
		{"b": "2"},
	},
}

type c17Op struct {
	Op     string `json:"op"` // open | query | prepare | conc | close
	H      int    `json:"h"`
	File   int    `json:"file,omitempty"`
	Opts   string `json:"dsn_options,omitempty"`
	Pool   int    `json:"max_open,omitempty"` // 0 = unlimited (database/sql default)
	Idle   *int   `json:"max_idle,omitempty"` // nil = database/sql default (2)
	Q      int    `json:"q,omitempty"`
	Text   string `json:"query,omitempty"` // informational: c17Queries[Q].Text
	N      int    `json:"goroutines,omitempty"`
	Each   int    `json:"queries_per_goroutine,omitempty"`
	Shared bool   `json:"shared_stmt,omitempty"` // conc: one prepared statement used by all goroutines
}

type c17Case struct {
	Files [][]c17Row `json:"files"` // rows of file 0, file 1, ...
	Ops   []c17Op    `json:"ops"`
}

type c17Rows struct {
	Columns []string   `json:"columns"`
	Rows    [][]string `json:"rows"` // values then decimal count
}

const c17OpTimeout = 8 * time.Second

func c17Expected(rows []c17Row, q c17Query) c17Rows {
	res, err := c17Model(rows, q.Expr.subst(q.Args), q.GroupBy)
	if err != nil {
		panic("harness bug: query table mentions unknown column: " + err.Error())
	}
	out := c17Rows{Columns: append(append([]string{}, q.GroupBy...), "count"), Rows: [][]string{}}
	if len(q.GroupBy) == 0 {
		out.Rows = append(out.Rows, []string{fmt.Sprint(res.Count)})
		return out
	}
	if len(res.Groups) == 0 {
		panic("harness bug: grouped query without group in the query table")
	}
	for _, g := range res.Groups {
		var r []string
		for _, v := range g.Vals {
			r = append(r, string(v))
		}
		out.Rows = append(out.Rows, append(r, fmt.Sprint(g.Count)))
	}
	return out
}

type c17Runner interface {
	Query(query string, args ...interface{}) (*sql.Rows, error)
}

func c17Fetch(rows *sql.Rows, err error) (c17Rows, error) {
	if err != nil {
		return c17Rows{}, err
	}
	defer rows.Close()
	out := c17Rows{Rows: [][]string{}}
	cols, err := rows.Columns()
	if err != nil {
		return out, err
	}
	out.Columns = cols
	for rows.Next() {
		dest := make([]interface{}, len(cols))
		ptrs := make([]interface{}, len(cols))
		for i := range dest {
			ptrs[i] = &dest[i]
		}
		if err := rows.Scan(ptrs...); err != nil {
			return out, err
		}
		var r []string
		for i, v := range dest {
			switch x := v.(type) {
			case string:
				r = append(r, x)
			case []byte:
				r = append(r, string(x))
			case int64:
				if i != len(dest)-1 {
					return out, fmt.Errorf("integer in text column %d", i)
				}
				r = append(r, fmt.Sprint(x))
			default:
				return out, fmt.Errorf("column %d holds %T(%v)", i, v, v)
			}
		}
		out.Rows = append(out.Rows, r)
	}
	return out, rows.Err()
}

func c17Args(q c17Query) []interface{} {
	a := make([]interface{}, len(q.Args))
	for i, s := range q.Args {
		a[i] = s
	}
	return a
}

func c17SameRows(a, b c17Rows) bool {
	ja, _ := json.Marshal(a)
	jb, _ := json.Marshal(b)
	return string(ja) == string(jb)
}

// c17Problem describes what went wrong in one operation.
type c17Problem struct {
	What     string
	Expected interface{}
	Got      interface{}
}

// c17Guard runs f under recover and a watchdog.
func c17Guard(what string, f func() *c17Problem) *c17Problem {
	ch := make(chan *c17Problem, 1)
	go func() {
		var p *c17Problem
		defer func() {
			if r := recover(); r != nil {
				p = &c17Problem{What: what + " panicked", Expected: "no panic", Got: fmt.Sprintf("panic: %v", r)}
			}
			ch <- p
		}()
		p = f()
	}()
	select {
	case p := <-ch:
		return p
	case <-time.After(c17OpTimeout):
		return &c17Problem{What: what + " did not return (hang)", Expected: "completion", Got: fmt.Sprintf("still blocked after %v", c17OpTimeout)}
	}
}

func c17QueryOnce(db *sql.DB, prepare bool, q c17Query, exp c17Rows) *c17Problem {
	var got c17Rows
	var err error
	if prepare {
		stmt, perr := db.Prepare(q.Text)
		if perr != nil {
			return &c17Problem{What: "Prepare on an open handle failed", Expected: exp, Got: perr.Error()}
		}
		defer stmt.Close()
		got, err = c17Fetch(stmt.Query(c17Args(q)...))
	} else {
		got, err = c17Fetch(db.Query(q.Text, c17Args(q)...))
	}
	if err != nil {
		return &c17Problem{What: "query on an open handle failed", Expected: exp, Got: err.Error()}
	}
	if !c17SameRows(exp, got) {
		return &c17Problem{What: "query on an open handle returned wrong rows", Expected: exp, Got: got}
	}
	return nil
}

type c17Handle struct {
	db   *sql.DB
	file int
	open bool
}

// c17RunCase executes the case on fresh copies of the files. It returns the index of the failing op.
func c17RunCase(baseDir string, masters []string, c c17Case, counter *int) (int, *c17Problem) {
	*counter++
	dir := filepath.Join(baseDir, fmt.Sprintf("case%d", *counter))
	if err := os.MkdirAll(dir, 0o755); err != nil {
		panic(err)
	}
	paths := make([]string, len(c.Files))
	for i := range c.Files {
		paths[i] = filepath.Join(dir, fmt.Sprintf("f%d.updog", i))
		if i < len(masters) && masters[i] != "" {
			if err := c17CopyFile(paths[i], masters[i]); err != nil {
				panic(err)
			}
		} else if err := c17BuildIndex(paths[i], c.Files[i]); err != nil {
			panic(fmt.Sprintf("harness: cannot build index: %v", err))
		}
	}
	handles := map[int]*c17Handle{}
	hung := false
	defer func() {
		if hung {
			return // blocked goroutines may still hold the files; leave them to t.TempDir cleanup
		}
		for _, h := range handles {
			if h.open {
				db := h.db
				c17Guard("cleanup", func() *c17Problem { db.Close(); return nil })
			}
		}
		os.RemoveAll(dir)
	}()

	for i, op := range c.Ops {
		var p *c17Problem
		switch op.Op {
		case "open":
			dsn := "file:" + paths[op.File]
			if op.Opts != "" {
				dsn += "?" + op.Opts
			}
			db, err := sql.Open("updog", dsn)
			if err != nil {
				return i, &c17Problem{What: "sql.Open failed", Expected: "a handle", Got: err.Error()}
			}
			if op.Pool > 0 {
				db.SetMaxOpenConns(op.Pool)
			}
			if op.Idle != nil {
				db.SetMaxIdleConns(*op.Idle)
			}
			handles[op.H] = &c17Handle{db: db, file: op.File, open: true}
		case "query", "prepare":
			h := handles[op.H]
			q := c17Queries[op.Q]
			exp := c17Expected(c.Files[h.file], q)
			p = c17Guard(op.Op, func() *c17Problem { return c17QueryOnce(h.db, op.Op == "prepare", q, exp) })
		case "conc":
			h := handles[op.H]
			p = c17Guard(fmt.Sprintf("concurrent use by %d goroutines", op.N), func() *c17Problem {
				return c17Concurrent(h.db, c.Files[h.file], op)
			})
		case "close":
			h := handles[op.H]
			p = c17Guard("DB.Close", func() *c17Problem { h.db.Close(); return nil })
			h.open = false
			if p == nil {
				last := true
				for _, o := range handles {
					if o.open && o.file == h.file {
						last = false
					}
				}
				if last {
					p = c17Guard("release check", func() *c17Problem {
						bdb, err := bbolt.Open(paths[h.file], 0o600, &bbolt.Options{Timeout: 2 * time.Second})
						if err != nil {
							return &c17Problem{What: "the file is still locked after its last handle was closed", Expected: "bbolt.Open succeeds", Got: err.Error()}
						}
						bdb.Close()
						return nil
					})
				}
			}
		default:
			panic("bad op " + op.Op)
		}
		if p != nil {
			hung = strings.Contains(p.What, "hang")
			return i, p
		}
	}
	return -1, nil
}

func c17Concurrent(db *sql.DB, rows []c17Row, op c17Op) *c17Problem {
	each := op.Each
	if each < 1 {
		each = 1
	}
	var shared *sql.Stmt
	if op.Shared {
		var err error
		shared, err = db.Prepare(c17Queries[op.Q].Text)
		if err != nil {
			return &c17Problem{What: "Prepare on an open handle failed", Expected: "a statement", Got: err.Error()}
		}
		defer shared.Close()
	}
	start := make(chan struct{})
	var wg sync.WaitGroup
	var mu sync.Mutex
	var first *c17Problem
	report := func(p *c17Problem) {
		mu.Lock()
		if first == nil {
			first = p
		}
		mu.Unlock()
	}
	for g := 0; g < op.N; g++ {
		wg.Add(1)
		go func(g int) {
			defer wg.Done()
			defer func() {
				if r := recover(); r != nil {
					report(&c17Problem{What: "a query on an open handle panicked", Expected: "no panic", Got: fmt.Sprintf("panic: %v", r)})
				}
			}()
			<-start
			for k := 0; k < each; k++ {
				if op.Shared {
					q := c17Queries[op.Q]
					exp := c17Expected(rows, q)
					got, err := c17Fetch(shared.Query(c17Args(q)...))
					if err != nil {
						report(&c17Problem{What: "query on an open handle failed", Expected: exp, Got: err.Error()})
					} else if !c17SameRows(exp, got) {
						report(&c17Problem{What: "query on an open handle returned wrong rows", Expected: exp, Got: got})
					}
					continue
				}
				q := c17Queries[(op.Q+g+k)%len(c17Queries)]
				if p := c17QueryOnce(db, (g+k)%3 == 2, q, c17Expected(rows, q)); p != nil {
					report(p)
				}
			}
		}(g)
	}
	close(start)
	wg.Wait()
	return first
}

// ---------------------------------------------------------------------------------------------
// case families

func c17I(n int) *int { return &n }

func c17Open(h, file int, opts string, pool int, idle *int) c17Op {
	return c17Op{Op: "open", H: h, File: file, Opts: opts, Pool: pool, Idle: idle}
}
func c17Q(h, q int) c17Op  { return c17Op{Op: "query", H: h, Q: q, Text: c17Queries[q].Text} }
func c17P(h, q int) c17Op  { return c17Op{Op: "prepare", H: h, Q: q, Text: c17Queries[q].Text} }
func c17Close(h int) c17Op { return c17Op{Op: "close", H: h} }
func c17Conc(h, n, each, q int, shared bool) c17Op {
	return c17Op{Op: "conc", H: h, N: n, Each: each, Q: q, Shared: shared, Text: c17Queries[q].Text}
}

var c17OptStrings = []string{"", "preload=true", "lrucache=true&lrucachesize=1000000", "preload=true&lrucache=true&lrucachesize=300"}

type c17Family struct {
	name  string
	cases []c17Case
}

func c17Families(rng *rand.Rand, thorough bool) []c17Family {
	mk := func(ops ...c17Op) c17Case { return c17Case{Files: c17Files, Ops: ops} }
	var fams []c17Family

	// reopen a file after every handle on it was closed
	var reopen []c17Case
	for _, opts := range c17OptStrings {
		reopen = append(reopen,
			mk(c17Open(0, 0, opts, 0, nil), c17Q(0, 0), c17Close(0), c17Open(1, 0, opts, 0, nil), c17Q(1, 1), c17Close(1)),
			mk(c17Open(0, 0, opts, 0, nil), c17P(0, 3), c17Close(0), c17Open(1, 0, opts, 0, nil), c17P(1, 3), c17Q(1, 0), c17Close(1),
				c17Open(2, 0, opts, 1, nil), c17Q(2, 4), c17Close(2)),
			// two handles alive at once, closed one after the other, then a third
			mk(c17Open(0, 1, opts, 0, nil), c17Open(1, 1, opts, 0, nil), c17Q(0, 1), c17Q(1, 1), c17Close(0), c17Q(1, 4), c17P(1, 3), c17Close(1),
				c17Open(2, 1, opts, 0, nil), c17Q(2, 1), c17Close(2)),
			// a handle that is opened and closed without ever being used
			mk(c17Open(0, 0, opts, 0, nil), c17Close(0), c17Open(1, 0, opts, 0, nil), c17Q(1, 0), c17Close(1)),
		)
	}
	fams = append(fams, c17Family{"reopen", reopen})

	// pool sizes that make database/sql close connections while the handle stays open
	var idle []c17Case
	for _, opts := range c17OptStrings {
		idle = append(idle,
			mk(c17Open(0, 0, opts, 0, c17I(0)), c17Q(0, 0), c17Q(0, 1), c17P(0, 3), c17Close(0)),
			mk(c17Open(0, 1, opts, 1, c17I(0)), c17P(0, 4), c17Q(0, 4), c17Close(0)),
			mk(c17Open(0, 0, opts, 3, c17I(1)), c17Q(0, 0), c17Q(0, 1), c17Open(1, 0, opts, 0, c17I(0)), c17Q(1, 2), c17Q(0, 2), c17Q(1, 5), c17Close(0), c17Q(1, 0), c17Close(1)),
		)
	}
	fams = append(fams, c17Family{"idle", idle})

	// the same file through different option strings, and two files side by side
	var options []c17Case
	for i, o1 := range c17OptStrings {
		for j, o2 := range c17OptStrings {
			if i == j {
				continue
			}
			options = append(options,
				mk(c17Open(0, 0, o1, 0, nil), c17Q(0, 0), c17Open(1, 0, o2, 0, nil), c17Q(1, 1), c17Q(0, 4), c17Close(0), c17Q(1, 0), c17Close(1)))
		}
	}
	options = append(options,
		mk(c17Open(0, 0, "", 0, nil), c17Open(1, 1, "", 0, nil), c17Q(0, 1), c17Q(1, 1), c17Q(0, 4), c17Q(1, 4), c17Close(0), c17Q(1, 3), c17Close(1)),
		mk(c17Open(0, 0, "preload=true", 0, nil), c17Open(1, 1, "preload=true", 0, nil), c17P(0, 3), c17P(1, 3), c17Close(1), c17Q(0, 5), c17Close(0)),
	)
	fams = append(fams, c17Family{"options", options})

	// concurrent first use of a fresh handle (no lrucache in these cases)
	var conc []c17Case
	reps := 6
	if thorough {
		reps = 60
	}
	for r := 0; r < reps; r++ {
		for _, n := range []int{2, 16, 4, 8} {
			for _, opts := range []string{"", "preload=true"} {
				for _, pool := range []int{0, 1, 2, n} {
					conc = append(conc, mk(c17Open(0, r%2, opts, pool, nil), c17Conc(0, n, 1+r%3, r%len(c17Queries), false), c17Q(0, 0), c17Close(0)))
				}
			}
		}
	}
	fams = append(fams, c17Family{"concurrent", conc})

	var shared []c17Case
	for r := 0; r < reps; r++ {
		for _, n := range []int{2, 16} {
			for _, pool := range []int{0, 1, 3} {
				shared = append(shared,
					mk(c17Open(0, r%2, "", pool, nil), c17Conc(0, n, 2, r%len(c17Queries), true), c17Close(0)),
					// warm handle first, then concurrency, second handle on the same file joins
					mk(c17Open(0, 1, "preload=true", pool, nil), c17Q(0, 1), c17Conc(0, n, 2, 3, false), c17Open(1, 1, "preload=true", pool, c17I(0)),
						c17Conc(1, n, 1, 4, true), c17Close(0), c17Conc(1, n, 1, 1, false), c17Close(1)),
				)
			}
		}
	}
	fams = append(fams, c17Family{"shared", shared})

	// random sequences
	nRandom := 1200
	if thorough {
		nRandom = 16000
	}
	var random []c17Case
	for k := 0; k < nRandom; k++ {
		random = append(random, c17RandomCase(rng))
	}
	fams = append(fams, c17Family{"random", random})
	return fams
}

func c17RandomCase(rng *rand.Rand) c17Case {
	withConc := rng.Intn(2) == 0
	opts := c17OptStrings
	if withConc {
		opts = c17OptStrings[:2]
	}
	// one option string per file in most cases (different strings on one file are the "options" family,
	// still mixed in sometimes)
	fileOpts := []string{opts[rng.Intn(len(opts))], opts[rng.Intn(len(opts))]}
	mixOpts := rng.Intn(5) == 0
	var ops []c17Op
	open := []int{}
	next := 0
	nOps := 4 + rng.Intn(14)
	for len(ops) < nOps {
		r := rng.Intn(10)
		switch {
		case (len(open) == 0 || r == 0) && next < 5:
			f := rng.Intn(2)
			o := fileOpts[f]
			if mixOpts {
				o = opts[rng.Intn(len(opts))]
			}
			var idle *int
			if rng.Intn(3) == 0 {
				idle = c17I([]int{0, 1, 10}[rng.Intn(3)])
			}
			ops = append(ops, c17Open(next, f, o, []int{0, 0, 1, 2, 5}[rng.Intn(5)], idle))
			open = append(open, next)
			next++
		case len(open) == 0:
			nOps = len(ops) // handle budget used up
		case r <= 4:
			ops = append(ops, c17Q(open[rng.Intn(len(open))], rng.Intn(len(c17Queries))))
		case r <= 6:
			ops = append(ops, c17P(open[rng.Intn(len(open))], rng.Intn(len(c17Queries))))
		case r == 7 && withConc:
			ops = append(ops, c17Conc(open[rng.Intn(len(open))], []int{2, 4, 8, 16}[rng.Intn(4)], 1+rng.Intn(2), rng.Intn(len(c17Queries)), rng.Intn(3) == 0))
		case r >= 8:
			i := rng.Intn(len(open))
			ops = append(ops, c17Close(open[i]))
			open = append(open[:i], open[i+1:]...)
		}
	}
	for _, h := range open {
		ops = append(ops, c17Close(h))
	}
	return c17Case{Files: c17Files, Ops: ops}
}

// ---------------------------------------------------------------------------------------------

func TestVerifHarnessC17(t *testing.T) {
	stats := &c17Stats{}
	defer stats.write()
	baseDir := t.TempDir()
	counter := 0

	report := func(t *testing.T, c c17Case, failed int, p *c17Problem) {
		v := &c17Violation{Property: "C17", What: p.What + fmt.Sprintf(" (operation #%d: %s)", failed, c.Ops[failed].Op),
			Input: c17Case{Files: c.Files, Ops: c.Ops[:failed+1]}, Expected: p.Expected, Got: p.Got}
		v.write()
		b, _ := json.Marshal(v)
		t.Fatalf("C17 violated: %s\n%s", v.What, b)
	}

	if os.Getenv("VERIF_MODE") == "replay" {
		raw, err := os.ReadFile(os.Getenv("VERIF_CASE"))
		if err != nil {
			t.Fatalf("cannot read VERIF_CASE: %v", err)
		}
		var wrap struct {
			Input c17Case `json:"input"`
		}
		if err := json.Unmarshal(raw, &wrap); err != nil {
			t.Fatalf("cannot decode VERIF_CASE: %v", err)
		}
		stats.Bound = "replay of one case"
		stats.Cases = 1
		// concurrent cases are schedule dependent: repeat them
		reps := 1
		for _, op := range wrap.Input.Ops {
			if op.Op == "conc" {
				reps = 20
			}
		}
		for r := 0; r < reps; r++ {
			ok := t.Run(fmt.Sprintf("replay%d", r), func(t *testing.T) {
				if failed, p := c17RunCase(baseDir, nil, wrap.Input, &counter); p != nil {
					report(t, wrap.Input, failed, p)
				}
			})
			if !ok {
				c17RaceFallback(wrap.Input)
				t.FailNow()
			}
		}
		return
	}

	// master copies of the two datasets
	masters := make([]string, len(c17Files))
	for i, rows := range c17Files {
		masters[i] = filepath.Join(baseDir, fmt.Sprintf("master%d.updog", i))
		if err := c17BuildIndex(masters[i], rows); err != nil {
			t.Fatalf("harness: cannot build index: %v", err)
		}
	}
	thorough := c17Thorough()
	seed := c17Seed()
	stats.Bound = fmt.Sprintf("seed %d: search stopped early", seed)
	hint := strings.ToLower(os.Getenv("VERIF_HINT"))
	fams := c17Families(rand.New(rand.NewSource(seed)), thorough)
	selected := false
	for _, f := range fams {
		if strings.Contains(hint, f.name) {
			selected = true
		}
	}
	budget := 17 * time.Second
	if thorough {
		budget = 220 * time.Second
	}
	start := time.Now()
	var names []string
	truncated := false
	for _, f := range fams {
		if selected && !strings.Contains(hint, f.name) {
			continue
		}
		names = append(names, fmt.Sprintf("%s:%d", f.name, len(f.cases)))
		// one subtest per case: a race-detector report fails the subtest it happened in
		for ci, c := range f.cases {
			if time.Since(start) > budget {
				truncated = true
				break
			}
			stats.Cases++
			stats.nontrivial(fmt.Sprint(c.Ops))
			c := c
			ok := t.Run(fmt.Sprintf("%s%d", f.name, ci), func(t *testing.T) {
				if failed, p := c17RunCase(baseDir, masters, c, &counter); p != nil {
					report(t, c, failed, p)
				}
			})
			if !ok {
				c17RaceFallback(c)
				stats.Bound = fmt.Sprintf("seed %d: stopped in family %s at case %d", seed, f.name, ci)
				t.FailNow()
			}
		}
	}
	stats.Bound = fmt.Sprintf("seed %d: sequences over {open, query, prepare, conc(2..16 goroutines, shared/own statements), close} on <=5 handles, 2 files (4+7 rows), 4 DSN option strings, MaxOpenConns {unlimited,1,2,3,5,n}, MaxIdleConns {default,0,1,10}; families %s", seed, strings.Join(names, " "))
	if truncated {
		stats.Bound += fmt.Sprintf(" [stopped by the time budget after %v]", budget)
	}
	t.Logf("C17: %d cases in %v", stats.Cases, time.Since(start))
}

// c17RaceFallback: a subtest failed. If no violation file was written by the harness itself the failure
// comes from the race detector; record what ran.
func c17RaceFallback(c c17Case) {
	p := os.Getenv("VERIF_OUT")
	if p == "" {
		return
	}
	if st, err := os.Stat(p); err == nil && st.Size() > 0 {
		return
	}
	v := &c17Violation{Property: "C17", What: "the race detector reported a data race while this case ran (see the test log)",
		Input: c, Expected: "no data race", Got: "race detected during execution of test"}
	v.write()
}
