package queryparser

// Real-code harness for property C10:
//
//   "For every query tree whose column names are valid identifiers and whose AND/OR nodes have at least one
//    operand, with any string values (quotes, newlines, non-ASCII, empty) and any placeholders, the text produced
//    by the formatter is accepted by the parser, and the parsed tree has the same meaning as the original:
//    identical after flattening directly nested nodes of the same operator and unwrapping single-operand AND/OR,
//    with the same group-by list. The text obtained by formatting the re-parsed tree is stable: parsing and
//    formatting it again reproduces it exactly."
//
// Oracle: trees are built in the harness' own representation (c10Node); "same meaning" is decided by c10Norm
// (bottom-up: splice children with the parent's operator into the parent, replace a one-operand AND/OR by its
// operand) followed by structural equality. Only QueryToString and ParseQuery of the real code are called.
//
// An equality leaf is either a literal (Placeholder == 0, any Value) or a placeholder (1 <= Placeholder <=
// MaxInt32, Value == ""); trees that set both are outside the quantifier (the text form cannot carry both).

import (
	"encoding/base64"
	"encoding/json"
	"fmt"
	"math/rand"
	"os"
	"runtime"
	"strconv"
	"strings"
	"sync"
	"sync/atomic"
	"testing"
	"time"
	"unicode/utf8"

	proto "github.com/akrennmair/updog/proto/updog/v1"
)

type c10Node struct {
	Op     string     `json:"op"` // "eq", "not", "and", "or"
	Col    string     `json:"col,omitempty"`
	Val    string     `json:"val,omitempty"`
	ValB64 string     `json:"val_b64,omitempty"` // used instead of val when the value is not valid UTF-8
	Ph     int32      `json:"ph,omitempty"`
	Kids   []*c10Node `json:"kids,omitempty"`
}

type c10Query struct {
	Expr    *c10Node `json:"expr"`
	GroupBy []string `json:"group_by"`
}

func c10Eq(col, val string) *c10Node     { return &c10Node{Op: "eq", Col: col, Val: val} }
func c10Ph(col string, n int32) *c10Node { return &c10Node{Op: "eq", Col: col, Ph: n} }
func c10Not(k *c10Node) *c10Node         { return &c10Node{Op: "not", Kids: []*c10Node{k}} }
func c10And(k ...*c10Node) *c10Node      { return &c10Node{Op: "and", Kids: k} }
func c10Or(k ...*c10Node) *c10Node       { return &c10Node{Op: "or", Kids: k} }

func c10ToProto(n *c10Node) *proto.Query_Expression {
	switch n.Op {
	case "eq":
		return &proto.Query_Expression{Value: &proto.Query_Expression_Eq{Eq: &proto.Query_Expression_Equal{Column: n.Col, Value: n.Val, Placeholder: n.Ph}}}
	case "not":
		return &proto.Query_Expression{Value: &proto.Query_Expression_Not_{Not: &proto.Query_Expression_Not{Expr: c10ToProto(n.Kids[0])}}}
	}
	kids := make([]*proto.Query_Expression, len(n.Kids))
	for i, k := range n.Kids {
		kids[i] = c10ToProto(k)
	}
	if n.Op == "and" {
		return &proto.Query_Expression{Value: &proto.Query_Expression_And_{And: &proto.Query_Expression_And{Exprs: kids}}}
	}
	return &proto.Query_Expression{Value: &proto.Query_Expression_Or_{Or: &proto.Query_Expression_Or{Exprs: kids}}}
}

// c10FromProto converts a tree returned by the parser; anything malformed becomes a node with Op "invalid:..."
// which is equal to nothing the generator produces.
func c10FromProto(e *proto.Query_Expression) *c10Node {
	if e == nil {
		return &c10Node{Op: "invalid:nil expression"}
	}
	switch v := e.Value.(type) {
	case *proto.Query_Expression_Eq:
		if v.Eq == nil {
			return &c10Node{Op: "invalid:nil eq"}
		}
		return &c10Node{Op: "eq", Col: v.Eq.Column, Val: v.Eq.Value, Ph: v.Eq.Placeholder}
	case *proto.Query_Expression_Not_:
		if v.Not == nil {
			return &c10Node{Op: "invalid:nil not"}
		}
		return &c10Node{Op: "not", Kids: []*c10Node{c10FromProto(v.Not.Expr)}}
	case *proto.Query_Expression_And_:
		if v.And == nil {
			return &c10Node{Op: "invalid:nil and"}
		}
		n := &c10Node{Op: "and"}
		for _, k := range v.And.Exprs {
			n.Kids = append(n.Kids, c10FromProto(k))
		}
		return n
	case *proto.Query_Expression_Or_:
		if v.Or == nil {
			return &c10Node{Op: "invalid:nil or"}
		}
		n := &c10Node{Op: "or"}
		for _, k := range v.Or.Exprs {
			n.Kids = append(n.Kids, c10FromProto(k))
		}
		return n
	}
	return &c10Node{Op: "invalid:unset oneof"}
}

// c10Norm: the meaning-preserving normal form named in the property statement.
func c10Norm(n *c10Node) *c10Node {
	switch n.Op {
	case "not":
		return &c10Node{Op: "not", Kids: []*c10Node{c10Norm(n.Kids[0])}}
	case "and", "or":
		var kids []*c10Node
		for _, k := range n.Kids {
			nk := c10Norm(k)
			if nk.Op == n.Op {
				kids = append(kids, nk.Kids...) // nk is normalised: none of its operands has the same operator
			} else {
				kids = append(kids, nk)
			}
		}
		if len(kids) == 1 {
			return kids[0]
		}
		return &c10Node{Op: n.Op, Kids: kids}
	}
	return n
}

func c10Equal(a, b *c10Node) bool {
	if a.Op != b.Op || a.Col != b.Col || a.Val != b.Val || a.Ph != b.Ph || len(a.Kids) != len(b.Kids) {
		return false
	}
	for i := range a.Kids {
		if !c10Equal(a.Kids[i], b.Kids[i]) {
			return false
		}
	}
	return true
}

func c10Show(b *strings.Builder, n *c10Node) {
	if b.Len() > 3000 {
		return
	}
	switch n.Op {
	case "eq":
		if n.Ph != 0 {
			fmt.Fprintf(b, "(eq %s $%d", n.Col, n.Ph)
			if n.Val != "" {
				fmt.Fprintf(b, " value=%q", n.Val)
			}
			b.WriteString(")")
		} else {
			fmt.Fprintf(b, "(eq %s %q)", n.Col, n.Val)
		}
	default:
		b.WriteString("(" + n.Op)
		for _, k := range n.Kids {
			b.WriteString(" ")
			c10Show(b, k)
		}
		b.WriteString(")")
	}
}

func c10Clip(s string, n int) string {
	if len(s) <= n {
		return s
	}
	return s[:n/2] + fmt.Sprintf("...[%d bytes]...", len(s)-n) + s[len(s)-n/2:]
}

func c10ShowTree(n *c10Node, gb []string) string {
	var b strings.Builder
	c10Show(&b, n)
	return c10Clip(b.String(), 2500) + " group-by=" + c10Clip(fmt.Sprintf("%q", gb), 300)
}

type c10Violation struct {
	what     string
	q        *c10Query
	expected string
	got      string
}

func c10Format(q *proto.Query) (s string, pan interface{}) {
	defer func() {
		if r := recover(); r != nil {
			pan = r
		}
	}()
	return QueryToString(q), nil
}

func c10Parse(s string) (q *proto.Query, err error, pan interface{}) {
	defer func() {
		if r := recover(); r != nil {
			pan = r
		}
	}()
	q, err = ParseQuery(s)
	return q, err, nil
}

func c10SameGroupBy(a, b []string) bool {
	if len(a) != len(b) {
		return false
	}
	for i := range a {
		if a[i] != b[i] {
			return false
		}
	}
	return true
}

// c10Check performs the round trip on the real code for one query tree.
func c10Check(q *c10Query) *c10Violation {
	orig := &proto.Query{Expr: c10ToProto(q.Expr), GroupBy: append([]string(nil), q.GroupBy...)}
	t1, pan := c10Format(orig)
	if pan != nil {
		return &c10Violation{"QueryToString panicked on a tree inside the property's domain", q, "a query text", fmt.Sprintf("panic: %v", pan)}
	}
	p1, err, pan := c10Parse(t1)
	if pan != nil {
		return &c10Violation{"ParseQuery panicked on the formatter's output", q, "the text is parsed", fmt.Sprintf("text %s; panic: %v", c10Clip(strconv.Quote(t1), 1500), pan)}
	}
	if err != nil || p1 == nil {
		return &c10Violation{"the formatter's output is rejected by the parser", q, "ParseQuery accepts the text", fmt.Sprintf("text %s; err=%v", c10Clip(strconv.Quote(t1), 1500), err)}
	}
	want := c10Norm(q.Expr)
	got := c10Norm(c10FromProto(p1.Expr))
	if !c10Equal(want, got) || !c10SameGroupBy(q.GroupBy, p1.GroupBy) || p1.Id != 0 {
		return &c10Violation{"parse(format(tree)) does not have the meaning of tree", q,
			"normal form " + c10ShowTree(want, q.GroupBy),
			fmt.Sprintf("text %s parsed to normal form %s", c10Clip(strconv.Quote(t1), 1200), c10ShowTree(got, p1.GroupBy))}
	}
	// stability of the canonical text
	t2, pan := c10Format(p1)
	if pan != nil {
		return &c10Violation{"QueryToString panicked on a tree returned by the parser", q, "a query text", fmt.Sprintf("panic: %v", pan)}
	}
	p2, err, pan := c10Parse(t2)
	if pan != nil || err != nil || p2 == nil {
		return &c10Violation{"the text formatted from the re-parsed tree is rejected by the parser", q, "ParseQuery accepts the text",
			fmt.Sprintf("text %s; err=%v panic=%v", c10Clip(strconv.Quote(t2), 1500), err, pan)}
	}
	t3, pan := c10Format(p2)
	if pan != nil {
		return &c10Violation{"QueryToString panicked on a tree returned by the parser", q, "a query text", fmt.Sprintf("panic: %v", pan)}
	}
	if t3 != t2 {
		return &c10Violation{"formatting the re-parsed tree is not stable", q, "format(parse(t2)) == t2 where t2 = " + c10Clip(strconv.Quote(t2), 1200),
			"format(parse(t2)) = " + c10Clip(strconv.Quote(t3), 1200)}
	}
	// the meaning must also survive the second trip (follows from the statement applied to the parsed tree)
	if got2 := c10Norm(c10FromProto(p2.Expr)); !c10Equal(want, got2) || !c10SameGroupBy(q.GroupBy, p2.GroupBy) {
		return &c10Violation{"the second round trip changed the meaning", q, "normal form " + c10ShowTree(want, q.GroupBy),
			fmt.Sprintf("text %s parsed to normal form %s", c10Clip(strconv.Quote(t2), 1200), c10ShowTree(got2, p2.GroupBy))}
	}
	return nil
}

// ---------------------------------------------------------------------------------------------------------------
// runner

type c10Runner struct {
	workers    int
	cases      int64
	nontrivial int64
	progress   int64
	current    atomic.Value // *c10Query
	buf        []*c10Query
	viol       *c10Violation
	deadline   time.Time
	timedOut   bool
}

const c10Chunk = 4096

func (r *c10Runner) add(expr *c10Node, gb []string) bool {
	if r.viol != nil || r.timedOut {
		return false
	}
	r.buf = append(r.buf, &c10Query{Expr: expr, GroupBy: gb})
	if len(r.buf) >= c10Chunk {
		r.flush()
	}
	return r.viol == nil && !r.timedOut
}

func (r *c10Runner) flush() {
	batch := r.buf
	r.buf = nil
	if len(batch) == 0 || r.viol != nil {
		return
	}
	if time.Now().After(r.deadline) {
		r.timedOut = true
		return
	}
	atomic.AddInt64(&r.cases, int64(len(batch)))
	for _, q := range batch {
		if q.Expr.Op != "eq" {
			r.nontrivial++
		}
	}
	firstBad := int64(len(batch))
	var mu sync.Mutex
	var best *c10Violation
	w := r.workers
	if len(batch) < 64 {
		w = 1
	}
	var wg sync.WaitGroup
	for k := 0; k < w; k++ {
		wg.Add(1)
		go func(k int) {
			defer wg.Done()
			for i := k; i < len(batch); i += w {
				if int64(i) > atomic.LoadInt64(&firstBad) {
					return
				}
				r.current.Store(batch[i])
				v := c10Check(batch[i])
				atomic.AddInt64(&r.progress, 1)
				if v != nil {
					mu.Lock()
					if int64(i) < atomic.LoadInt64(&firstBad) {
						atomic.StoreInt64(&firstBad, int64(i))
						best = v
					}
					mu.Unlock()
					return
				}
			}
		}(k)
	}
	wg.Wait()
	if best != nil {
		r.viol = best
	}
}

// ---------------------------------------------------------------------------------------------------------------
// generators

// c10Compose emits every Not(c), And(c1..ck), Or(c1..ck) with 1 <= k <= arity over the given operands.
func c10Compose(ops []*c10Node, arity int, emit func(*c10Node) bool) bool {
	for _, c := range ops {
		if !emit(c10Not(c)) {
			return false
		}
	}
	for k := 1; k <= arity; k++ {
		idx := make([]int, k)
		for {
			kids := make([]*c10Node, k)
			for i := range idx {
				kids[i] = ops[idx[i]]
			}
			if !emit(&c10Node{Op: "and", Kids: kids}) || !emit(&c10Node{Op: "or", Kids: kids}) {
				return false
			}
			i := k - 1
			for i >= 0 {
				idx[i]++
				if idx[i] < len(ops) {
					break
				}
				idx[i] = 0
				i--
			}
			if i < 0 {
				break
			}
		}
	}
	return true
}

var c10GroupBys = [][]string{nil, {"a"}, {"b", "a"}, {"a", "a", "C_9"}, nil, {"zZ_0", "b", "c", "d"}}

// phaseExhaustive: every tree of depth <= depth (leaves have depth 0) with operand counts <= arity.
func (r *c10Runner) phaseExhaustive(leaves []*c10Node, depth, arity int) {
	level := append([]*c10Node{}, leaves...) // all trees of depth <= d, materialised for d < depth
	n := 0
	emit := func(e *c10Node) bool {
		n++
		return r.add(e, c10GroupBys[n%len(c10GroupBys)])
	}
	for _, l := range leaves {
		if !emit(l) {
			return
		}
	}
	for d := 1; d <= depth; d++ {
		if d == depth {
			c10Compose(level, arity, emit)
			return
		}
		next := append([]*c10Node{}, leaves...)
		if !c10Compose(level, arity, func(e *c10Node) bool {
			next = append(next, e)
			return true
		}) {
			return
		}
		level = next
	}
}

func c10Strings(alpha []string, maxLen int, emit func(string) bool) {
	var rec func(prefix string, left int) bool
	rec = func(prefix string, left int) bool {
		if !emit(prefix) {
			return false
		}
		if left == 0 {
			return true
		}
		for _, a := range alpha {
			if !rec(prefix+a, left-1) {
				return false
			}
		}
		return true
	}
	rec("", maxLen)
}

var c10SpecialValues = []string{"", `"`, `""`, `"""`, `""""`, "x", " ", "\n", "\r\n", "\t", "é", "日本語", " ", "\x00", "\x7f", "\\", `\"`, `'`, "$1", "$", "&", "|", "^", "(", ")", ";", ",", "=",
	`" & b = "`, `" ; a`, `" | b = "y`, `x" & b = "y`, `x"" & b = ""y`, ` "`, `" `, `a"b`, `a""b`, `"a"`, `""a""`, "a\"\nb", "\"\n\"", `" )`, `( "`, ` ; `, `a = "x"`, `^ ( a = "x" )`,
	strings.Repeat(`"`, 7), strings.Repeat(`"`, 8), strings.Repeat("x", 300), strings.Repeat("\"\n", 50)}

var c10Columns = []string{"a", "A", "z9", "a_b", "X_", "a__", "count", "aB3_dE", "and", "or", "not", strings.Repeat("k", 200)}

func (r *c10Runner) phaseValues(alpha []string, maxLen int) {
	vals := append([]string{}, c10SpecialValues...)
	c10Strings(alpha, maxLen, func(s string) bool { vals = append(vals, s); return true })
	i := 0
	for _, v := range vals {
		i++
		col := c10Columns[i%len(c10Columns)]
		w := vals[(i*7+3)%len(vals)]
		ok := r.add(c10Eq(col, v), nil) &&
			r.add(c10Not(c10Eq(col, v)), []string{col}) &&
			r.add(c10And(c10Eq(col, v), c10Eq("b", w)), nil) &&
			r.add(c10Or(c10Eq("b", w), c10And(c10Eq(col, v), c10Ph("c", 1))), []string{"b", col})
		if !ok {
			return
		}
	}
}

func (r *c10Runner) phaseLeafKinds() {
	phs := []int32{1, 2, 3, 9, 10, 11, 99, 100, 255, 256, 65535, 65536, 1 << 24, 2147483646, 2147483647}
	for _, col := range c10Columns {
		for _, p := range phs {
			if !r.add(c10Ph(col, p), nil) || !r.add(c10And(c10Ph(col, p), c10Not(c10Ph("b", p))), []string{col}) {
				return
			}
		}
		if !r.add(c10Eq(col, col), []string{col, col}) {
			return
		}
	}
	// group-by lists
	names := []string{"a", "B_1", "z9"}
	var lists [][]string
	var rec func(cur []string, left int)
	rec = func(cur []string, left int) {
		lists = append(lists, append([]string(nil), cur...))
		if left == 0 {
			return
		}
		for _, n := range names {
			rec(append(cur, n), left-1)
		}
	}
	rec(nil, 4)
	long := make([]string, 2000)
	for i := range long {
		long[i] = c10Columns[i%len(c10Columns)]
	}
	lists = append(lists, long, []string{}, c10Columns)
	shapes := []*c10Node{c10Eq("a", "x"), c10Ph("a", 1), c10Or(c10Eq("a", "x"), c10And(c10Ph("b", 2), c10Eq("c", `"`))), c10Not(c10Or(c10Eq("a", ";"), c10Eq("b", ", c")))}
	for _, l := range lists {
		for _, s := range shapes {
			if !r.add(s, l) {
				return
			}
		}
	}
}

// deep and wide shapes
func (r *c10Runner) phaseDeep(sizes []int) {
	leaf := c10Eq("a", `x"y`)
	for _, n := range sizes {
		wrap := func(f func(*c10Node, int) *c10Node) *c10Node {
			e := leaf
			for i := 0; i < n; i++ {
				e = f(e, i)
			}
			return e
		}
		wide := make([]*c10Node, n+1)
		for i := range wide {
			wide[i] = c10Eq("c", strconv.Itoa(i))
			if i%3 == 1 {
				wide[i] = c10Ph("c", int32(i))
			}
		}
		shapes := []*c10Node{
			wrap(func(e *c10Node, i int) *c10Node { return c10Not(e) }),
			wrap(func(e *c10Node, i int) *c10Node { return c10And(e) }),
			wrap(func(e *c10Node, i int) *c10Node { return c10Or(e) }),
			wrap(func(e *c10Node, i int) *c10Node {
				if i%2 == 0 {
					return c10And(e)
				}
				return c10Or(e)
			}),
			wrap(func(e *c10Node, i int) *c10Node { return c10And(c10Ph("b", 1), e) }),
			wrap(func(e *c10Node, i int) *c10Node { return c10Or(e, c10Eq("b", "")) }),
			wrap(func(e *c10Node, i int) *c10Node {
				if i%2 == 0 {
					return c10And(c10Eq("b", "1"), e)
				}
				return c10Or(e, c10Eq("b", "2"))
			}),
			wrap(func(e *c10Node, i int) *c10Node {
				switch i % 3 {
				case 0:
					return c10Not(e)
				case 1:
					return c10And(e, c10Eq("b", "\n"))
				}
				return c10Or(c10Ph("d", 7), e)
			}),
			c10And(wide...), c10Or(wide...), c10Not(c10Or(wide...)), c10And(c10Or(wide...), c10And(wide...), c10Not(c10And(wide...))),
		}
		for _, s := range shapes {
			if !r.add(s, nil) {
				return
			}
		}
	}
}

type c10Gen struct {
	rng     *rand.Rand
	invalid bool // also produce values that are not valid UTF-8
}

var c10ValueBits = []string{`"`, `"`, `""`, "x", "y", " ", "\n", "\t", "é", "日", "\\", "&", "|", "^", "(", ")", ";", ",", "=", "$1", "'", "\r", "\x00"}

func (g *c10Gen) value() string {
	n := g.rng.Intn(5)
	if g.rng.Intn(12) == 0 {
		n = 10 + g.rng.Intn(60)
	}
	var b strings.Builder
	for i := 0; i < n; i++ {
		if g.invalid && g.rng.Intn(6) == 0 {
			b.WriteByte(byte(0x80 + g.rng.Intn(0x80)))
			continue
		}
		b.WriteString(c10ValueBits[g.rng.Intn(len(c10ValueBits))])
	}
	return b.String()
}

func (g *c10Gen) column() string {
	const first = "abcxyzABCXYZ"
	const rest = "abcxyz_0123456789ABC"
	n := 1 + g.rng.Intn(4)
	b := []byte{first[g.rng.Intn(len(first))]}
	for i := 1; i < n; i++ {
		b = append(b, rest[g.rng.Intn(len(rest))])
	}
	return string(b)
}

func (g *c10Gen) leaf() *c10Node {
	if g.rng.Intn(3) == 0 {
		p := int32(1 + g.rng.Intn(12))
		if g.rng.Intn(8) == 0 {
			p = int32(1 + g.rng.Int63n(2147483647))
		}
		return c10Ph(g.column(), p)
	}
	return c10Eq(g.column(), g.value())
}

func (g *c10Gen) tree(depth, maxArity int) *c10Node {
	if depth == 0 || g.rng.Intn(5) == 0 {
		return g.leaf()
	}
	switch g.rng.Intn(5) {
	case 0:
		return c10Not(g.tree(depth-1, maxArity))
	case 1, 2:
		n := &c10Node{Op: "and"}
		for k := 1 + g.rng.Intn(maxArity); k > 0; k-- {
			n.Kids = append(n.Kids, g.tree(depth-1, maxArity))
		}
		return n
	default:
		n := &c10Node{Op: "or"}
		for k := 1 + g.rng.Intn(maxArity); k > 0; k-- {
			n.Kids = append(n.Kids, g.tree(depth-1, maxArity))
		}
		return n
	}
}

func (g *c10Gen) groupBy() []string {
	if g.rng.Intn(2) == 0 {
		return nil
	}
	n := 1 + g.rng.Intn(5)
	if g.rng.Intn(30) == 0 {
		n = 100 + g.rng.Intn(400)
	}
	out := make([]string, n)
	for i := range out {
		out[i] = g.column()
	}
	return out
}

func (r *c10Runner) phaseRandom(seed int64, n, maxDepth, maxArity int, invalidUTF8 bool) {
	g := &c10Gen{rng: rand.New(rand.NewSource(seed)), invalid: invalidUTF8}
	for i := 0; i < n; i++ {
		d := 1 + g.rng.Intn(3)
		a := 1 + g.rng.Intn(3)
		if i%3 == 0 {
			d, a = 1+g.rng.Intn(maxDepth), 1+g.rng.Intn(maxArity)
		}
		if !r.add(g.tree(d, a), g.groupBy()) {
			return
		}
	}
}

// ---------------------------------------------------------------------------------------------------------------
// shrinking: smaller trees that still violate the property

func c10Clone(n *c10Node) *c10Node {
	c := *n
	c.Kids = make([]*c10Node, len(n.Kids))
	for i, k := range n.Kids {
		c.Kids[i] = c10Clone(k)
	}
	return &c
}

// c10Variants: one-step simplifications of the tree rooted at n (each result is a fresh tree).
func c10Variants(n *c10Node) []*c10Node {
	var out []*c10Node
	for _, k := range n.Kids { // replace the node by one of its operands
		out = append(out, c10Clone(k))
	}
	if (n.Op == "and" || n.Op == "or") && len(n.Kids) > 1 { // drop one operand
		for i := range n.Kids {
			c := c10Clone(n)
			c.Kids = append(c.Kids[:i], c.Kids[i+1:]...)
			out = append(out, c)
		}
	}
	if n.Op == "eq" {
		if len(n.Val) > 0 {
			_, w := utf8.DecodeRuneInString(n.Val)
			out = append(out, c10Eq(n.Col, n.Val[w:]))
			_, w = utf8.DecodeLastRuneInString(n.Val)
			out = append(out, c10Eq(n.Col, n.Val[:len(n.Val)-w]))
		}
		if len(n.Col) > 1 {
			c := c10Clone(n)
			c.Col = n.Col[:1]
			out = append(out, c)
		}
		if n.Ph > 1 {
			out = append(out, c10Ph(n.Col, 1))
		}
	}
	for i, k := range n.Kids { // simplify inside an operand
		for _, kv := range c10Variants(k) {
			c := c10Clone(n)
			c.Kids[i] = kv
			out = append(out, c)
		}
	}
	return out
}

func c10Size(n *c10Node) int {
	s := 1 + len(n.Val) + len(n.Col)
	for _, k := range n.Kids {
		s += c10Size(k)
	}
	return s
}

func c10Shrink(v *c10Violation) *c10Violation {
	if c10Size(v.q.Expr) > 20000 {
		return v
	}
	budget := 3000
	for improved := true; improved && budget > 0; {
		improved = false
		if len(v.q.GroupBy) > 0 {
			for _, gb := range [][]string{nil, v.q.GroupBy[:len(v.q.GroupBy)-1], v.q.GroupBy[1:]} {
				budget--
				if nv := c10Check(&c10Query{Expr: v.q.Expr, GroupBy: gb}); nv != nil {
					v, improved = nv, true
					break
				}
			}
			if improved {
				continue
			}
		}
		for _, cand := range c10Variants(v.q.Expr) {
			if budget--; budget <= 0 {
				break
			}
			if nv := c10Check(&c10Query{Expr: cand, GroupBy: v.q.GroupBy}); nv != nil {
				v, improved = nv, true
				break
			}
		}
	}
	return v
}

// ---------------------------------------------------------------------------------------------------------------
// JSON

func c10Encode(n *c10Node) *c10Node {
	c := *n
	if !utf8.ValidString(c.Val) {
		c.ValB64, c.Val = base64.StdEncoding.EncodeToString([]byte(c.Val)), ""
	}
	c.Kids = nil
	for _, k := range n.Kids {
		c.Kids = append(c.Kids, c10Encode(k))
	}
	return &c
}

func c10Decode(n *c10Node) error {
	if n == nil {
		return fmt.Errorf("nil node")
	}
	if n.ValB64 != "" {
		b, err := base64.StdEncoding.DecodeString(n.ValB64)
		if err != nil {
			return err
		}
		n.Val, n.ValB64 = string(b), ""
	}
	switch n.Op {
	case "eq":
		if len(n.Kids) != 0 {
			return fmt.Errorf("eq with operands")
		}
	case "not":
		if len(n.Kids) != 1 {
			return fmt.Errorf("not needs exactly one operand")
		}
	case "and", "or":
		if len(n.Kids) < 1 {
			return fmt.Errorf("%s without operands is outside the property's domain", n.Op)
		}
	default:
		return fmt.Errorf("unknown op %q", n.Op)
	}
	for _, k := range n.Kids {
		if err := c10Decode(k); err != nil {
			return err
		}
	}
	return nil
}

func c10WriteJSON(path string, v interface{}) {
	if path == "" {
		return
	}
	if b, err := json.Marshal(v); err == nil {
		_ = os.WriteFile(path, b, 0644)
	} else {
		_ = os.WriteFile(path, []byte(fmt.Sprintf(`{"property":"C10","what":"violation found but the case could not be encoded: %s"}`, strings.ReplaceAll(err.Error(), `"`, `'`))), 0644)
	}
}

func c10Report(t *testing.T, v *c10Violation) {
	text, _ := c10Format(&proto.Query{Expr: c10ToProto(v.q.Expr), GroupBy: v.q.GroupBy})
	gb := v.q.GroupBy
	if gb == nil {
		gb = []string{}
	}
	c10WriteJSON(os.Getenv("VERIF_OUT"), map[string]interface{}{
		"property": "C10", "what": v.what,
		"input":    map[string]interface{}{"expr": c10Encode(v.q.Expr), "group_by": gb, "formatted_text": c10Clip(text, 2000)},
		"expected": v.expected, "got": v.got,
	})
	t.Fatalf("C10 violated: %s\n tree    : %s\n expected: %s\n got     : %s", v.what, c10ShowTree(v.q.Expr, v.q.GroupBy), v.expected, v.got)
}

func TestVerifHarnessC10(t *testing.T) {
	start := time.Now()
	bound := os.Getenv("VERIF_BOUND")
	if bound == "" {
		bound = "quick"
	}
	seed := int64(1)
	if s := os.Getenv("VERIF_SEED"); s != "" {
		if n, err := strconv.ParseInt(s, 10, 64); err == nil {
			seed = n
		}
	}
	r := &c10Runner{workers: runtime.GOMAXPROCS(0)}
	if r.workers > 16 {
		r.workers = 16
	}
	boundText := ""
	writeStats := func() {
		c10WriteJSON(os.Getenv("VERIF_STATS"), map[string]interface{}{
			"cases": atomic.LoadInt64(&r.cases), "distinct_nontrivial": r.nontrivial, "bound": boundText, "exhaustive": false,
		})
	}

	if os.Getenv("VERIF_MODE") == "replay" {
		raw, err := os.ReadFile(os.Getenv("VERIF_CASE"))
		var c struct {
			Input c10Query `json:"input"`
		}
		if err == nil {
			err = json.Unmarshal(raw, &c)
		}
		if err == nil {
			err = c10Decode(c.Input.Expr)
		}
		if err != nil {
			fmt.Fprintf(os.Stderr, "C10 HARNESS ERROR: cannot read VERIF_CASE: %v\n", err)
			os.Exit(2)
		}
		boundText = "replay of one case"
		r.cases, r.nontrivial = 1, 1
		done := make(chan *c10Violation, 1)
		go func() { done <- c10Check(&c.Input) }()
		select {
		case v := <-done:
			writeStats()
			if v != nil {
				c10Report(t, v)
			}
		case <-time.After(60 * time.Second):
			writeStats()
			c10Report(t, &c10Violation{"the round trip did not finish within 60 s", &c.Input, "termination", "still running"})
		}
		return
	}

	limit := 18 * time.Second
	if bound == "thorough" {
		limit = 240 * time.Second
	}
	r.deadline = start.Add(limit)
	done := make(chan struct{})
	go func() {
		defer close(done)
		c10Search(r, bound, seed, &boundText)
	}()
	last, lastChange := int64(-1), time.Now()
	tick := time.NewTicker(500 * time.Millisecond)
	defer tick.Stop()
wait:
	for {
		select {
		case <-done:
			break wait
		case <-tick.C:
			p := atomic.LoadInt64(&r.progress) + atomic.LoadInt64(&r.cases)
			if p != last {
				last, lastChange = p, time.Now()
			} else if time.Since(lastChange) > 45*time.Second {
				cur, _ := r.current.Load().(*c10Query)
				if cur == nil {
					cur = &c10Query{Expr: c10Eq("unknown", "")}
				}
				writeStats()
				c10Report(t, &c10Violation{"QueryToString/ParseQuery did not return within 45 s (hang)", cur, "termination", "no progress for 45 s on this tree"})
			}
		}
	}
	if r.timedOut {
		boundText += fmt.Sprintf(" [stopped early at the %v time limit]", limit)
	}
	writeStats()
	if r.viol != nil {
		c10Report(t, c10Shrink(r.viol))
	}
	t.Logf("C10: %d cases, no violation (%s) in %v", r.cases, boundText, time.Since(start).Round(time.Millisecond))
}

func c10Search(r *c10Runner, bound string, seed int64, boundText *string) {
	thorough := bound == "thorough"
	// leaf alphabets for the exhaustive shape enumeration
	l1 := []*c10Node{c10Eq("a", `x"`)}
	l2 := []*c10Node{c10Eq("a", `x"`), c10Ph("b", 1)}
	l3 := []*c10Node{c10Eq("a", `x"`), c10Ph("b", 1), c10Eq("c", "")}
	l6 := []*c10Node{c10Eq("a", "x"), c10Eq("b", ""), c10Eq("c", `q"r`), c10Eq("d", "\n"), c10Ph("e", 1), c10Eq("f", "é")}
	valAlpha := []string{`"`, "a", "\n", " ", "é", `\`}
	valLen, nRandom, nDeepRandom := 4, 30000, 200
	deep := []int{1, 2, 3, 10, 100, 1000}
	if thorough {
		valLen, nRandom, nDeepRandom = 6, 600000, 3000
		deep = append(deep, 2000)
	}
	*boundText = fmt.Sprintf("bound=%s seed=%d: exhaustive trees (depth,arity,leaves): quick (1,4,6) (2,3,2) (3,2,1) (2,2,6) (2,4,1), thorough adds (2,3,3) (3,2,2); "+
		"every value string of <=%d symbols over {\",a,\\n,blank,é,\\} plus %d special values in 4 contexts; placeholders 1..2^31-1; 12 column spellings; every group-by list of <=4 of 3 names, lists of 2000; "+
		"nesting/width %v in 12 chain shapes; %d seeded random trees (depth<=7, arity<=5, incl. a share with invalid UTF-8 values), %d random deep/wide trees (depth<=40 / arity<=60)",
		bound, seed, valLen, len(c10SpecialValues), deep, nRandom, nDeepRandom)

	t0 := time.Now()
	stop := func() bool {
		r.flush()
		if p := os.Getenv("VERIF_TIMING"); p != "" { // debugging aid: append phase timings to the named file
			if f, err := os.OpenFile(p, os.O_APPEND|os.O_CREATE|os.O_WRONLY, 0644); err == nil {
				fmt.Fprintf(f, "C10 timing: %8d cases after %v\n", atomic.LoadInt64(&r.cases), time.Since(t0).Round(time.Millisecond))
				f.Close()
			}
		}
		return r.viol != nil || r.timedOut
	}

	r.phaseExhaustive(l6, 1, 4)
	r.phaseLeafKinds()
	r.phaseValues(valAlpha, 3)
	if stop() {
		return
	}
	r.phaseExhaustive(l2, 2, 3) // 67 686 trees
	if stop() {
		return
	}
	r.phaseExhaustive(l1, 3, 2) // 16 836 trees
	r.phaseDeep(deep[:5])
	if stop() {
		return
	}
	r.phaseExhaustive(l6, 2, 2) // 18 726 trees
	r.phaseExhaustive(l1, 2, 4) // 22 231 trees
	r.phaseRandom(seed, nRandom/4, 5, 4, false)
	if stop() {
		return
	}
	r.phaseValues(valAlpha, valLen)
	r.phaseDeep(deep[5:])
	if stop() {
		return
	}
	if thorough {
		r.phaseExhaustive(l3, 2, 3) // ~1.2 million
		if stop() {
			return
		}
		r.phaseExhaustive(l2, 3, 2) // ~0.63 million
		if stop() {
			return
		}
	}
	r.phaseRandom(seed+1, nRandom, 7, 5, false)
	if stop() {
		return
	}
	r.phaseRandom(seed+2, nDeepRandom, 40, 2, false)
	r.phaseRandom(seed+3, nDeepRandom, 2, 60, false)
	r.phaseRandom(seed+4, nRandom/10, 6, 4, true)
	stop()
}
