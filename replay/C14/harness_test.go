package main

// Harness for property C14 — "No request can crash the server".
//
// A case is a list of QueryRequest messages given as raw wire bytes. Each one is
//   via "inprocess": decoded with proto.Unmarshal (undecodable ones never reach a handler and are skipped) and
//                    handed to (&server{idx}).Query under recover() and a watchdog — a panic or a hang is a violation;
//   via "rpc"      : sent as the body of a QueryService.Query call to a real `updog server` process (this test
//                    binary re-executed in child mode, calling the repository's serverCmd). Any answer (response
//                    or RPC error) is fine; no answer within the watchdog time, or a server process that has
//                    exited afterwards, is a violation (the child's stderr tail is reported).
// After every request a well-formed probe batch is sent the same way; its answer must equal the row-by-row
// evaluation of the probe queries over the rows the harness wrote into the index ("keeps answering subsequent
// well-formed requests correctly").
//
// Search order: systematic structural omissions at every position of valid trees (first: a query without
// expression), operators with 0/1 operands, unknown columns, placeholders, deep and wide nestings, then random
// schema-guided wire messages (with unknown fields, repeated oneof members, wrong wire types) and random byte
// mutations of valid encodings. When the in-process stage finds a violation it is re-checked against a server
// process and both observations are reported.

import (
	"bytes"
	"context"
	"encoding/hex"
	"encoding/json"
	"fmt"
	"io"
	"math/rand"
	"net"
	"os"
	"os/exec"
	"path/filepath"
	"reflect"
	"runtime/debug"
	"strconv"
	"strings"
	"sync"
	"testing"
	"time"

	"github.com/akrennmair/updog"
	proto "github.com/akrennmair/updog/proto/updog/v1"
	"google.golang.org/grpc"
	"google.golang.org/grpc/credentials/insecure"
	"google.golang.org/grpc/status"
	"google.golang.org/protobuf/encoding/protojson"
	gproto "google.golang.org/protobuf/proto"
)

// ---------------------------------------------------------------------------------------------
// case format

type c14SrvOpt struct {
	Cache     bool   `json:"cache"`
	CacheSize uint64 `json:"cache_size"`
	Preload   bool   `json:"preload"`
}

func (o c14SrvOpt) libOptions() []updog.IndexOption {
	var opts []updog.IndexOption
	if o.Cache {
		opts = append(opts, updog.WithCache(updog.NewLRUCache(o.CacheSize)))
	}
	if o.Preload {
		opts = append(opts, updog.WithPreloadedData())
	}
	return opts
}

type c14Req struct {
	Desc    string          `json:"description,omitempty"`
	Hex     string          `json:"request_hex"`
	Decoded json.RawMessage `json:"decoded,omitempty"` // informational (protojson), only for small requests
	raw     []byte
}

func (r *c14Req) bytes() []byte {
	if r.raw == nil && r.Hex != "" {
		r.raw, _ = hex.DecodeString(r.Hex)
	}
	return r.raw
}

func c14NewReq(desc string, raw []byte) c14Req {
	return c14Req{Desc: desc, raw: raw}
}

// forJSON fills the exported fields.
func (r c14Req) forJSON() c14Req {
	out := c14Req{Desc: r.Desc, Hex: hex.EncodeToString(r.bytes())}
	if len(r.bytes()) <= 600 {
		m := &proto.QueryRequest{}
		if gproto.Unmarshal(r.bytes(), m) == nil {
			if b, err := protojson.Marshal(m); err == nil {
				out.Decoded = b
			}
		}
	}
	return out
}

type c14Case struct {
	Via      string    `json:"via"` // inprocess | rpc
	Rows     []c14Row  `json:"rows"`
	Server   c14SrvOpt `json:"server"`
	Requests []c14Req  `json:"requests"` // sent in order to one server, each followed by the probe batch
}

type c14Problem struct {
	What     string
	Index    int
	Expected interface{}
	Got      interface{}
}

const (
	c14CallTimeout = 20 * time.Second
)

// ---------------------------------------------------------------------------------------------
// protobuf wire encoding by hand (so that every structural omission can be produced)

func c14Varint(x uint64) []byte {
	var b []byte
	for x >= 0x80 {
		b = append(b, byte(x)|0x80)
		x >>= 7
	}
	return append(b, byte(x))
}

func c14Len(field int, payload []byte) []byte {
	b := c14Varint(uint64(field)<<3 | 2)
	b = append(b, c14Varint(uint64(len(payload)))...)
	return append(b, payload...)
}

func c14Int(field int, v int64) []byte {
	return append(c14Varint(uint64(field)<<3|0), c14Varint(uint64(v))...)
}

// c14Node is a "loose" expression: anything the wire format can carry.
type c14Node struct {
	Kind       string // eq | not | and | or | empty (no oneof member) | raw
	Col, Val   string
	OmitCol    bool
	Ph         int32
	EmptyInner bool // the oneof member is present but its message is empty
	Kids       []*c14Node
	Raw        []byte
}

func (n *c14Node) clone() *c14Node {
	c := *n
	c.Kids = nil
	for _, k := range n.Kids {
		c.Kids = append(c.Kids, k.clone())
	}
	return &c
}

// encode returns the body of the Expression message.
func (n *c14Node) encode() []byte {
	switch n.Kind {
	case "empty":
		return nil
	case "raw":
		return n.Raw
	case "eq":
		if n.EmptyInner {
			return c14Len(1, nil)
		}
		var b []byte
		if !n.OmitCol {
			b = append(b, c14Len(1, []byte(n.Col))...)
		}
		if n.Val != "" {
			b = append(b, c14Len(2, []byte(n.Val))...)
		}
		if n.Ph != 0 {
			b = append(b, c14Int(3, int64(n.Ph))...)
		}
		return c14Len(1, b)
	case "not":
		var b []byte
		if !n.EmptyInner {
			for _, k := range n.Kids { // more than one: the field occurs repeatedly on the wire (messages get merged)
				b = append(b, c14Len(1, k.encode())...)
			}
		}
		return c14Len(2, b)
	case "and", "or":
		f := 3
		if n.Kind == "or" {
			f = 4
		}
		var b []byte
		if !n.EmptyInner {
			for _, k := range n.Kids {
				b = append(b, c14Len(1, k.encode())...)
			}
		}
		return c14Len(f, b)
	}
	panic("bad kind " + n.Kind)
}

func (n *c14Node) String() string {
	switch n.Kind {
	case "empty":
		return "<expression without operator>"
	case "raw":
		return fmt.Sprintf("<raw %d bytes>", len(n.Raw))
	case "eq":
		if n.EmptyInner {
			return "eq{}"
		}
		s := "eq{"
		if !n.OmitCol {
			s += "column:" + strconv.Quote(n.Col)
		}
		if n.Val != "" {
			s += " value:" + strconv.Quote(n.Val)
		}
		if n.Ph != 0 {
			s += fmt.Sprintf(" placeholder:%d", n.Ph)
		}
		return s + "}"
	default:
		if n.EmptyInner {
			return n.Kind + "{}"
		}
		var ks []string
		for _, k := range n.Kids {
			ks = append(ks, k.String())
		}
		return n.Kind + "[" + strings.Join(ks, ", ") + "]"
	}
}

type c14LooseQuery struct {
	ID      int32
	Expr    *c14Node // nil: field absent
	GroupBy []string
}

func (q c14LooseQuery) encode() []byte {
	var b []byte
	if q.ID != 0 {
		b = append(b, c14Int(1, int64(q.ID))...)
	}
	if q.Expr != nil {
		b = append(b, c14Len(2, q.Expr.encode())...)
	}
	for _, g := range q.GroupBy {
		b = append(b, c14Len(3, []byte(g))...)
	}
	return b
}

func (q c14LooseQuery) String() string {
	e := "<no expression>"
	if q.Expr != nil {
		e = q.Expr.String()
	}
	return fmt.Sprintf("query{id:%d expr:%s group_by:%q}", q.ID, e, q.GroupBy)
}

func c14Request(qs ...c14LooseQuery) c14Req {
	var b []byte
	var ds []string
	for _, q := range qs {
		b = append(b, c14Len(1, q.encode())...)
		ds = append(ds, q.String())
	}
	return c14NewReq(strings.Join(ds, " ; "), b)
}

func c14L(col, val string) *c14Node { return &c14Node{Kind: "eq", Col: col, Val: val} }
func c14Op(kind string, kids ...*c14Node) *c14Node {
	return &c14Node{Kind: kind, Kids: kids}
}

// c14Chain nests `leaf` under n levels of not / single-operand and / or without quadratic copying.
func c14Chain(kind string, n int, leaf []byte) []byte {
	inner := 1 // field number of the child inside Not/And/Or
	outer := map[string]int{"not": 2, "and": 3, "or": 4}[kind]
	prefixes := make([][]byte, 0, 2*n)
	size := len(leaf)
	for i := 0; i < n; i++ {
		p1 := append(c14Varint(uint64(inner)<<3|2), c14Varint(uint64(size))...) // child field inside the operator message
		size += len(p1)
		p2 := append(c14Varint(uint64(outer)<<3|2), c14Varint(uint64(size))...) // oneof member inside Expression
		size += len(p2)
		prefixes = append(prefixes, p1, p2)
	}
	out := make([]byte, 0, size)
	for i := len(prefixes) - 1; i >= 0; i-- {
		out = append(out, prefixes[i]...)
	}
	return append(out, leaf...)
}

// ---------------------------------------------------------------------------------------------
// the request list

var c14Rows = []c14Row{
	{"a": "1", "b": "2", "c": "foo"},
	{"a": "1", "b": "3", "c": "bar"},
	{"a": "5", "b": "2", "c": "foo"},
	{"c": "quux"},
	{"a": "5", "b": "3", "c": "bar"},
	{"a": "2", "b": "2"},
}

func c14BaseTrees() []*c14Node {
	return []*c14Node{
		c14L("a", "1"),
		c14Op("not", c14L("a", "1")),
		c14Op("and", c14L("a", "1"), c14L("b", "2")),
		c14Op("or", c14L("a", "1"), c14Op("not", c14Op("and", c14L("b", "2"), c14L("c", "foo")))),
		c14Op("and", c14Op("or", c14L("a", "5"), c14L("c", "quux")), c14Op("not", c14Op("not", c14L("b", "3"))), c14L("c", "bar")),
	}
}

// c14Positions lists every node of the tree as (parent, index) — parent nil for the root.
func c14Positions(root *c14Node) (out [][2]interface{}) {
	var walk func(n *c14Node)
	out = append(out, [2]interface{}{(*c14Node)(nil), 0})
	walk = func(n *c14Node) {
		for i, k := range n.Kids {
			out = append(out, [2]interface{}{n, i})
			walk(k)
		}
	}
	walk(root)
	return out
}

// c14Mutations: for every position of the tree, every way of leaving something out there.
func c14Mutations(base *c14Node, groupBy []string) []c14Req {
	var out []c14Req
	nPos := len(c14Positions(base))
	for pi := 0; pi < nPos; pi++ {
		for _, how := range []string{"drop", "empty", "eq{}", "not{}", "and{}", "or{}", "not[]", "and[]", "or[]", "and[x]", "or[x]", "eq-nocol", "eq-unknowncol", "eq-ph", "twice"} {
			root := base.clone()
			pos := c14Positions(root)[pi]
			parent, _ := pos[0].(*c14Node)
			idx := pos[1].(int)
			var target *c14Node
			if parent == nil {
				target = root
			} else {
				target = parent.Kids[idx]
			}
			var repl *c14Node
			switch how {
			case "drop":
				if parent == nil {
					out = append(out, c14Request(c14LooseQuery{Expr: nil, GroupBy: groupBy}))
					continue
				}
				parent.Kids = append(parent.Kids[:idx:idx], parent.Kids[idx+1:]...)
				out = append(out, c14Request(c14LooseQuery{Expr: root, GroupBy: groupBy}))
				continue
			case "empty":
				repl = &c14Node{Kind: "empty"}
			case "eq{}", "not{}", "and{}", "or{}":
				repl = &c14Node{Kind: how[:len(how)-2], EmptyInner: true}
			case "not[]", "and[]", "or[]":
				repl = &c14Node{Kind: how[:len(how)-2]}
			case "and[x]", "or[x]":
				repl = &c14Node{Kind: how[:len(how)-3], Kids: []*c14Node{target.clone()}}
			case "eq-nocol":
				repl = &c14Node{Kind: "eq", OmitCol: true, Val: "1"}
			case "eq-unknowncol":
				repl = c14L("no_such_column", "1")
			case "eq-ph":
				repl = &c14Node{Kind: "eq", Col: "a", Ph: 1}
			case "twice":
				// the same oneof member twice in one Expression (last one wins / messages merge)
				repl = &c14Node{Kind: "raw", Raw: append(append([]byte{}, target.encode()...), target.encode()...)}
			}
			if parent == nil {
				root = repl
			} else {
				parent.Kids[idx] = repl
			}
			out = append(out, c14Request(c14LooseQuery{Expr: root, GroupBy: groupBy}))
		}
	}
	return out
}

func c14EnumRequests(thorough bool) []c14Req {
	var out []c14Req
	// the simplest omissions first
	out = append(out,
		c14Request(c14LooseQuery{}),                              // a query with nothing in it
		c14Request(c14LooseQuery{ID: 1, GroupBy: []string{"a"}}), // no expression, with group-by
		c14Request(c14LooseQuery{Expr: &c14Node{Kind: "empty"}}), // expression without operator
		c14Request(c14LooseQuery{Expr: &c14Node{Kind: "not"}}),   // not without operand
		c14Request(c14LooseQuery{Expr: &c14Node{Kind: "and"}}),   // and without operands
		c14Request(c14LooseQuery{Expr: &c14Node{Kind: "or"}}),    // or without operands
		c14Request(c14LooseQuery{Expr: c14Op("and", &c14Node{Kind: "empty"})}),
		c14Request(c14LooseQuery{Expr: c14Op("or", c14L("a", "1"), &c14Node{Kind: "empty"})}),
		c14Request(c14LooseQuery{Expr: c14Op("not", &c14Node{Kind: "empty"})}),
		c14Request(c14LooseQuery{Expr: c14L("no_such_column", "1")}),
		c14Request(c14LooseQuery{Expr: c14L("a", "1"), GroupBy: []string{"no_such_column"}}),
		c14Request(c14LooseQuery{Expr: c14L("a", "1"), GroupBy: []string{""}}),
		c14Request(c14LooseQuery{Expr: &c14Node{Kind: "eq", Col: "a", Ph: 1}}),
		c14Request(c14LooseQuery{Expr: &c14Node{Kind: "eq", Col: "a", Ph: -1}}),
		c14Request(c14LooseQuery{Expr: &c14Node{Kind: "eq", Col: "a", Val: "1", Ph: 2147483647}}),
		c14Request(c14LooseQuery{Expr: &c14Node{Kind: "eq", EmptyInner: true}}),
		c14Request(c14LooseQuery{Expr: c14L("a", "1")}, c14LooseQuery{}), // valid query followed by an empty one
		c14Request(c14LooseQuery{}, c14LooseQuery{Expr: c14L("a", "1")}),
		c14NewReq("empty request", nil),
		c14NewReq("request with one zero-length query", c14Len(1, nil)),
		c14NewReq("1000 zero-length queries", bytes.Repeat(c14Len(1, nil), 1000)),
	)
	for _, base := range c14BaseTrees() {
		out = append(out, c14Mutations(base, nil)...)
		out = append(out, c14Mutations(base, []string{"c", "a"})...)
	}
	// group-by oddities
	for _, gb := range [][]string{{"a", "a", "a", "a", "a", "a"}, {"a", "b", "c", "a", "b", "c", "a", "b"}, {"\x00"}, {"a", ""}, make([]string, 500)} {
		out = append(out, c14Request(c14LooseQuery{Expr: c14L("a", "1"), GroupBy: gb}))
	}
	// deep nestings (the decoder's nesting limit is 10000 message levels)
	leaf := c14L("a", "1").encode()
	depths := []int{1, 2, 3, 10, 100, 1000, 2500, 4990, 4998, 4999, 5000, 5001, 7000, 20000}
	if thorough {
		depths = append(depths, 50, 500, 3000, 4000, 4500, 4995, 4996, 4997, 6000, 9999, 10000, 10001, 100000)
	}
	for _, n := range depths {
		for _, kind := range []string{"not", "and", "or"} {
			q := c14Len(2, c14Chain(kind, n, leaf))
			out = append(out, c14NewReq(fmt.Sprintf("%s nested %d deep around a = \"1\"", kind, n), c14Len(1, q)))
			q = c14Len(2, c14Chain(kind, n, nil))
			out = append(out, c14NewReq(fmt.Sprintf("%s nested %d deep around an expression without operator", kind, n), c14Len(1, q)))
		}
	}
	// wide operators
	for _, n := range []int{100, 10000, 200000} {
		for _, kind := range []string{"and", "or"} {
			f := map[string]int{"and": 3, "or": 4}[kind]
			body := bytes.Repeat(c14Len(1, leaf), n)
			out = append(out, c14NewReq(fmt.Sprintf("%s with %d times a = \"1\"", kind, n), c14Len(1, c14Len(2, c14Len(f, body)))))
			body = bytes.Repeat(c14Len(1, nil), n)
			out = append(out, c14NewReq(fmt.Sprintf("%s with %d empty operands", kind, n), c14Len(1, c14Len(2, c14Len(f, body)))))
		}
	}
	// a message larger than the server's receive limit
	out = append(out, c14NewReq("5 MB request", bytes.Repeat(c14Len(1, c14LooseQuery{Expr: c14L("a", "1")}.encode()), 5*1024*1024/12)))
	return out
}

// c14RandomWire produces a random message body for the given message type, mostly following the schema.
func c14RandomWire(rng *rand.Rand, typ string, depth int) []byte {
	strs := []string{"a", "b", "c", "1", "2", "foo", "", "no_such_column", "\xff", "quux", "a\x00b"}
	var b []byte
	junk := func() {
		// unknown field numbers / unexpected wire types
		f := 5 + rng.Intn(20)
		switch rng.Intn(4) {
		case 0:
			b = append(b, c14Int(f, rng.Int63())...)
		case 1:
			b = append(b, c14Len(f, []byte(strs[rng.Intn(len(strs))]))...)
		case 2:
			b = append(b, c14Varint(uint64(f)<<3|5)...)
			b = append(b, 1, 2, 3, 4)
		case 3:
			b = append(b, c14Varint(uint64(f)<<3|1)...)
			b = append(b, 1, 2, 3, 4, 5, 6, 7, 8)
		}
	}
	str := func() []byte { return []byte(strs[rng.Intn(len(strs))]) }
	n := rng.Intn(4)
	switch typ {
	case "request":
		for i := rng.Intn(4); i > 0; i-- {
			b = append(b, c14Len(1, c14RandomWire(rng, "query", depth))...)
		}
	case "query":
		for i := 0; i < n+1; i++ {
			switch rng.Intn(5) {
			case 0:
				b = append(b, c14Int(1, int64(int32(rng.Uint32())))...)
			case 1, 2:
				b = append(b, c14Len(2, c14RandomWire(rng, "expr", depth))...)
			case 3:
				b = append(b, c14Len(3, str())...)
			case 4:
				if rng.Intn(3) == 0 {
					b = append(b, c14Int(2, 7)...) // expr with varint wire type
				}
			}
		}
	case "expr":
		if depth <= 0 {
			n = rng.Intn(2)
		}
		for i := 0; i < n; i++ {
			switch rng.Intn(4) {
			case 0:
				b = append(b, c14Len(1, c14RandomWire(rng, "equal", depth))...)
			case 1:
				b = append(b, c14Len(2, c14RandomWire(rng, "not", depth-1))...)
			case 2:
				b = append(b, c14Len(3, c14RandomWire(rng, "list", depth-1))...)
			case 3:
				b = append(b, c14Len(4, c14RandomWire(rng, "list", depth-1))...)
			}
		}
	case "equal":
		for i := 0; i < n; i++ {
			switch rng.Intn(3) {
			case 0:
				b = append(b, c14Len(1, str())...)
			case 1:
				b = append(b, c14Len(2, str())...)
			case 2:
				b = append(b, c14Int(3, int64(int32(rng.Uint32())>>uint(rng.Intn(32))))...)
			}
		}
	case "not":
		for i := rng.Intn(3); i > 0; i-- {
			b = append(b, c14Len(1, c14RandomWire(rng, "expr", depth))...)
		}
	case "list":
		for i := rng.Intn(4); i > 0; i-- {
			b = append(b, c14Len(1, c14RandomWire(rng, "expr", depth))...)
		}
	}
	if rng.Intn(8) == 0 {
		junk()
	}
	return b
}

func c14RandomRequests(rng *rand.Rand, n int) []c14Req {
	var out []c14Req
	valid := c14EnumRequests(false)
	for i := 0; i < n; i++ {
		if i%4 == 3 {
			// byte-level mutation of some enumerated request
			src := valid[rng.Intn(60)].bytes()
			b := append([]byte{}, src...)
			for k := 1 + rng.Intn(3); k > 0 && len(b) > 0; k-- {
				p := rng.Intn(len(b))
				switch rng.Intn(4) {
				case 0:
					b[p] ^= 1 << uint(rng.Intn(8))
				case 1:
					b = append(b[:p:p], b[p+1:]...)
				case 2:
					b = append(b[:p:p], append([]byte{byte(rng.Intn(256))}, b[p:]...)...)
				case 3:
					b = b[:p]
				}
			}
			out = append(out, c14NewReq("byte mutation of an enumerated request", b))
			continue
		}
		out = append(out, c14NewReq("random wire message", c14RandomWire(rng, "request", 1+rng.Intn(4))))
	}
	return out
}

// ---------------------------------------------------------------------------------------------
// probe

type c14Field struct {
	Column string `json:"column"`
	Value  string `json:"value"`
}
type c14ResGroup struct {
	Fields []c14Field `json:"fields"`
	Count  uint64     `json:"count"`
}
type c14Res struct {
	ID     int32         `json:"id"`
	Count  uint64        `json:"total_count"`
	Groups []c14ResGroup `json:"groups"`
}

type c14ProbeQ struct {
	Expr    *c14Expr
	GroupBy []string
}

var c14ProbeQueries = []c14ProbeQ{
	{c14Eq("a", "1"), nil},
	{c14Or(c14Eq("a", "1"), c14Eq("b", "2")), []string{"c"}},
	{c14And(c14Not(c14Eq("c", "foo")), c14Eq("b", "3")), []string{"a", "b"}},
	{c14Not(c14Or(c14Eq("a", "5"), c14Eq("c", "quux"))), []string{"b"}},
}

func c14ToPB(e *c14Expr) *proto.Query_Expression {
	switch e.Op {
	case "eq":
		return &proto.Query_Expression{Value: &proto.Query_Expression_Eq{Eq: &proto.Query_Expression_Equal{Column: e.Col, Value: string(e.Val)}}}
	case "not":
		return &proto.Query_Expression{Value: &proto.Query_Expression_Not_{Not: &proto.Query_Expression_Not{Expr: c14ToPB(e.Kids[0])}}}
	case "and":
		x := &proto.Query_Expression_And{}
		for _, k := range e.Kids {
			x.Exprs = append(x.Exprs, c14ToPB(k))
		}
		return &proto.Query_Expression{Value: &proto.Query_Expression_And_{And: x}}
	default:
		x := &proto.Query_Expression_Or{}
		for _, k := range e.Kids {
			x.Exprs = append(x.Exprs, c14ToPB(k))
		}
		return &proto.Query_Expression{Value: &proto.Query_Expression_Or_{Or: x}}
	}
}

func c14Probe(rows []c14Row) (*proto.QueryRequest, []c14Res) {
	req := &proto.QueryRequest{}
	var exp []c14Res
	for i, q := range c14ProbeQueries {
		req.Queries = append(req.Queries, &proto.Query{Expr: c14ToPB(q.Expr), GroupBy: q.GroupBy})
		m, err := c14Model(rows, q.Expr, q.GroupBy)
		if err != nil {
			panic("harness bug: probe query not valid on the probe dataset: " + err.Error())
		}
		r := c14Res{ID: int32(i + 1), Count: m.Count, Groups: []c14ResGroup{}}
		for _, g := range m.Groups {
			gg := c14ResGroup{Count: g.Count, Fields: []c14Field{}}
			for k, v := range g.Vals {
				gg.Fields = append(gg.Fields, c14Field{q.GroupBy[k], string(v)})
			}
			r.Groups = append(r.Groups, gg)
		}
		exp = append(exp, r)
	}
	return req, exp
}

func c14ResOf(resp *proto.QueryResponse) []c14Res {
	out := []c14Res{}
	for _, r := range resp.GetResults() {
		x := c14Res{ID: r.GetQueryId(), Count: r.GetTotalCount(), Groups: []c14ResGroup{}}
		for _, g := range r.GetGroups() {
			gg := c14ResGroup{Count: g.GetCount(), Fields: []c14Field{}}
			for _, f := range g.GetFields() {
				gg.Fields = append(gg.Fields, c14Field{f.GetColumn(), f.GetValue()})
			}
			x.Groups = append(x.Groups, gg)
		}
		out = append(out, x)
	}
	return out
}

// ---------------------------------------------------------------------------------------------
// child process: a real `updog server`

func c14MaybeChild() {
	if os.Getenv("VERIF_C14_CHILD") != "1" {
		return
	}
	go func() {
		io.Copy(io.Discard, os.Stdin)
		os.Exit(0)
	}()
	size, _ := strconv.ParseUint(os.Getenv("VERIF_C14_CACHESIZE"), 10, 64)
	cfg := &serverConfig{
		addr:                os.Getenv("VERIF_C14_ADDR"),
		debugAddr:           "127.0.0.1:0",
		indexFile:           os.Getenv("VERIF_C14_FILE"),
		enableCache:         os.Getenv("VERIF_C14_CACHE") == "1",
		maxCacheSize:        size,
		enablePreloadedData: os.Getenv("VERIF_C14_PRELOAD") == "1",
	}
	err := serverCmd(cfg)
	fmt.Fprintln(os.Stderr, "serverCmd returned:", err)
	os.Exit(3)
}

type c14Server struct {
	cmd    *exec.Cmd
	stdin  io.WriteCloser
	addr   string
	mu     sync.Mutex
	stderr bytes.Buffer
	done   chan struct{}
	conn   *grpc.ClientConn
	client proto.QueryServiceClient
}

type c14LockedWriter struct {
	mu  *sync.Mutex
	buf *bytes.Buffer
}

func (w c14LockedWriter) Write(p []byte) (int, error) {
	w.mu.Lock()
	defer w.mu.Unlock()
	return w.buf.Write(p)
}

func c14StartServer(file string, o c14SrvOpt) (*c14Server, error) {
	var lastErr error
	for attempt := 0; attempt < 5; attempt++ {
		l, err := net.Listen("tcp", "127.0.0.1:0")
		if err != nil {
			return nil, err
		}
		addr := l.Addr().String()
		l.Close()
		s := &c14Server{addr: addr, done: make(chan struct{})}
		cmd := exec.Command(os.Args[0], "-test.run=^TestVerifHarnessC14$", "-test.timeout=20m")
		b := func(x bool) string {
			if x {
				return "1"
			}
			return "0"
		}
		cmd.Env = append(os.Environ(), "VERIF_C14_CHILD=1", "VERIF_C14_ADDR="+addr, "VERIF_C14_FILE="+file,
			"VERIF_C14_CACHE="+b(o.Cache), "VERIF_C14_CACHESIZE="+strconv.FormatUint(o.CacheSize, 10), "VERIF_C14_PRELOAD="+b(o.Preload))
		cmd.Stderr = c14LockedWriter{&s.mu, &s.stderr}
		cmd.Stdout = c14LockedWriter{&s.mu, &s.stderr}
		if s.stdin, err = cmd.StdinPipe(); err != nil {
			return nil, err
		}
		if err := cmd.Start(); err != nil {
			return nil, err
		}
		s.cmd = cmd
		go func() { cmd.Wait(); close(s.done) }()
		ready := false
		deadline := time.Now().Add(15 * time.Second)
		for time.Now().Before(deadline) && s.alive() {
			c, err := net.DialTimeout("tcp", addr, 200*time.Millisecond)
			if err == nil {
				c.Close()
				ready = true
				break
			}
			time.Sleep(5 * time.Millisecond)
		}
		if !ready {
			lastErr = fmt.Errorf("server process did not come up: %s", s.stderrTail())
			s.stop()
			continue
		}
		conn, err := grpc.NewClient(addr, grpc.WithTransportCredentials(insecure.NewCredentials()))
		if err != nil {
			s.stop()
			return nil, err
		}
		s.conn, s.client = conn, proto.NewQueryServiceClient(conn)
		ctx, cancel := context.WithTimeout(context.Background(), c14CallTimeout)
		_, err = s.client.Query(ctx, &proto.QueryRequest{}, grpc.WaitForReady(true))
		cancel()
		if err != nil {
			lastErr = fmt.Errorf("server process does not answer an empty request: %v; %s", err, s.stderrTail())
			s.stop()
			continue
		}
		return s, nil
	}
	return nil, lastErr
}

func (s *c14Server) alive() bool {
	select {
	case <-s.done:
		return false
	default:
		return true
	}
}

// exited waits a moment for the process to go away (a crash is noticed by the client before Wait returns).
func (s *c14Server) exited(wait time.Duration) bool {
	select {
	case <-s.done:
		return true
	case <-time.After(wait):
		return false
	}
}

func (s *c14Server) stderrTail() string {
	s.mu.Lock()
	defer s.mu.Unlock()
	b := s.stderr.Bytes()
	// keep the head of the goroutine dump (the panic message) and the tail
	if len(b) > 2500 {
		b = append(append(append([]byte{}, b[:1800]...), []byte("\n...\n")...), b[len(b)-600:]...)
	}
	return string(b)
}

func (s *c14Server) stop() {
	if s.conn != nil {
		s.conn.Close()
	}
	if s.cmd != nil && s.cmd.Process != nil {
		s.cmd.Process.Kill()
	}
	if s.stdin != nil {
		s.stdin.Close()
	}
	select {
	case <-s.done:
	case <-time.After(5 * time.Second):
	}
}

type c14RawCodec struct{}

func (c14RawCodec) Marshal(v interface{}) ([]byte, error) { return *(v.(*[]byte)), nil }
func (c14RawCodec) Unmarshal(data []byte, v interface{}) error {
	*(v.(*[]byte)) = append([]byte(nil), data...)
	return nil
}
func (c14RawCodec) Name() string { return "proto" }

// ---------------------------------------------------------------------------------------------
// running a case

type c14Env struct {
	baseDir string
	counter int
}

func (env *c14Env) indexCopy(rows []c14Row) (dir, file string) {
	env.counter++
	dir = filepath.Join(env.baseDir, fmt.Sprintf("case%d", env.counter))
	if err := os.MkdirAll(dir, 0o755); err != nil {
		panic(err)
	}
	file = filepath.Join(dir, "srv.updog")
	if err := c14BuildIndex(file, rows); err != nil {
		panic(fmt.Sprintf("harness: cannot build index: %v", err))
	}
	return dir, file
}

type c14WireObs struct {
	Status       string `json:"rpc_status"`
	ServerExited bool   `json:"server_process_exited"`
	Stderr       string `json:"server_stderr,omitempty"`
}

// c14RunInProcess returns the first problem; executed counts decodable requests.
func c14RunInProcess(env *c14Env, c c14Case, executed *int) *c14Problem {
	dir, file := env.indexCopy(c.Rows)
	defer os.RemoveAll(dir)
	idx, err := updog.OpenIndex(file, c.Server.libOptions()...)
	if err != nil {
		panic(fmt.Sprintf("harness: cannot open index: %v", err))
	}
	defer idx.Close()
	h := &server{idx: idx}
	probeReq, probeExp := c14Probe(c.Rows)

	type result struct {
		resp  *proto.QueryResponse
		err   error
		panic string
	}
	call := func(req *proto.QueryRequest) (result, bool) {
		ch := make(chan result, 1)
		go func() {
			var r result
			defer func() {
				if p := recover(); p != nil {
					st := string(debug.Stack())
					if len(st) > 1800 {
						st = st[:1800]
					}
					r = result{panic: fmt.Sprintf("panic: %v\n%s", p, st)}
				}
				ch <- r
			}()
			r.resp, r.err = h.Query(context.Background(), req)
		}()
		select {
		case r := <-ch:
			return r, true
		case <-time.After(c14CallTimeout):
			return result{}, false
		}
	}
	for i := range c.Requests {
		req := &proto.QueryRequest{}
		if err := gproto.Unmarshal(c.Requests[i].bytes(), req); err != nil {
			continue // not a decodable message: never reaches the handler
		}
		*executed++
		r, done := call(req)
		if !done {
			return &c14Problem{What: "the request handler did not return (in-process call)", Index: i, Expected: "a response or an error", Got: fmt.Sprintf("no return within %v", c14CallTimeout)}
		}
		if r.panic != "" {
			return &c14Problem{What: "the request handler panicked (in-process call; a real server process dies)", Index: i, Expected: "a response or an error", Got: r.panic}
		}
		// probe: the handler must still answer well-formed requests correctly
		pr, done := call(gproto.Clone(probeReq).(*proto.QueryRequest))
		if !done || pr.panic != "" || pr.err != nil {
			return &c14Problem{What: "after the request a well-formed probe request is no longer answered (in-process call)", Index: i, Expected: probeExp, Got: fmt.Sprintf("returned=%v panic=%q err=%v", done, pr.panic, pr.err)}
		}
		if got := c14ResOf(pr.resp); !reflect.DeepEqual(got, probeExp) {
			return &c14Problem{What: "after the request a well-formed probe request is answered wrongly (in-process call)", Index: i, Expected: probeExp, Got: got}
		}
	}
	return nil
}

func c14RunRPC(env *c14Env, c c14Case, executed *int) *c14Problem {
	dir, file := env.indexCopy(c.Rows)
	defer os.RemoveAll(dir)
	srv, err := c14StartServer(file, c.Server)
	if err != nil {
		return &c14Problem{What: "the `updog server` process could not be started on a valid index file", Expected: "a running server", Got: err.Error()}
	}
	defer srv.stop()
	probeReq, probeExp := c14Probe(c.Rows)
	for i := range c.Requests {
		*executed++
		in := c.Requests[i].bytes()
		var out []byte
		ctx, cancel := context.WithTimeout(context.Background(), c14CallTimeout)
		err := srv.conn.Invoke(ctx, "/updog.v1.QueryService/Query", &in, &out, grpc.ForceCodec(c14RawCodec{}))
		cancel()
		obs := c14WireObs{Status: "OK"}
		if err != nil {
			obs.Status = status.Convert(err).Code().String() + ": " + status.Convert(err).Message()
		}
		// a crash shows as Unavailable/EOF on the client; give the process a moment to be reaped
		if strings.HasPrefix(obs.Status, "Unavailable") {
			obs.ServerExited = srv.exited(1500 * time.Millisecond)
		} else {
			obs.ServerExited = !srv.alive()
		}
		if obs.ServerExited {
			obs.Stderr = srv.stderrTail()
			return &c14Problem{What: "the `updog server` process exited because of a request", Index: i, Expected: "a response or an RPC error from a server that keeps running", Got: obs}
		}
		if strings.HasPrefix(obs.Status, "DeadlineExceeded") {
			return &c14Problem{What: "the request was not answered within the watchdog time", Index: i, Expected: "a response or an RPC error", Got: obs}
		}
		pctx, pcancel := context.WithTimeout(context.Background(), c14CallTimeout)
		presp, perr := srv.client.Query(pctx, probeReq)
		pcancel()
		if perr != nil {
			obs.ServerExited = srv.exited(1500 * time.Millisecond)
			obs.Stderr = srv.stderrTail()
			return &c14Problem{What: "after the request a well-formed probe request is no longer answered", Index: i, Expected: probeExp, Got: map[string]interface{}{"request": obs, "probe_error": perr.Error()}}
		}
		if got := c14ResOf(presp); !reflect.DeepEqual(got, probeExp) {
			return &c14Problem{What: "after the request a well-formed probe request is answered wrongly", Index: i, Expected: probeExp, Got: got}
		}
	}
	return nil
}

func c14RunCase(env *c14Env, c c14Case, executed *int) *c14Problem {
	if c.Via == "rpc" {
		return c14RunRPC(env, c, executed)
	}
	return c14RunInProcess(env, c, executed)
}

// ---------------------------------------------------------------------------------------------

func TestVerifHarnessC14(t *testing.T) {
	c14MaybeChild()
	stats := &c14Stats{}
	defer stats.write()
	env := &c14Env{baseDir: t.TempDir()}

	fail := func(c c14Case, p *c14Problem, extra interface{}) {
		in := c14Case{Via: c.Via, Rows: c.Rows, Server: c.Server}
		for _, r := range c.Requests[:p.Index+1] {
			in.Requests = append(in.Requests, r.forJSON())
		}
		got := p.Got
		if extra != nil {
			got = map[string]interface{}{"observed": p.Got, "same_request_sent_to_a_server_process": extra}
		}
		v := &c14Violation{Property: "C14", What: p.What + ": " + c.Requests[p.Index].Desc, Input: in, Expected: p.Expected, Got: got}
		v.write()
		b, _ := json.Marshal(v)
		if len(b) > 6000 {
			b = append(b[:6000], "..."...)
		}
		t.Fatalf("C14 violated: %s\n%s", v.What, b)
	}
	// check runs a case; on a problem it tries the failing request alone and, for in-process findings,
	// repeats it against a real server process.
	check := func(c c14Case) {
		n := 0
		p := c14RunCase(env, c, &n)
		stats.Cases += n
		if p == nil {
			return
		}
		single := c
		single.Requests = c.Requests[p.Index : p.Index+1]
		if p2 := c14RunCase(env, single, &n); p2 != nil {
			c, p = single, p2
		}
		var extra interface{}
		if c.Via == "inprocess" {
			viaRPC := c
			viaRPC.Via = "rpc"
			viaRPC.Requests = c.Requests[p.Index : p.Index+1]
			if p3 := c14RunCase(env, viaRPC, &n); p3 != nil {
				extra = map[string]interface{}{"what": p3.What, "got": p3.Got}
			} else {
				extra = "answered; the server process kept running and answered the probe correctly"
			}
		}
		fail(c, p, extra)
	}

	if os.Getenv("VERIF_MODE") == "replay" {
		raw, err := os.ReadFile(os.Getenv("VERIF_CASE"))
		if err != nil {
			t.Fatalf("cannot read VERIF_CASE: %v", err)
		}
		var wrap struct {
			Input c14Case `json:"input"`
		}
		if err := json.Unmarshal(raw, &wrap); err != nil {
			t.Fatalf("cannot decode VERIF_CASE: %v", err)
		}
		stats.Bound = "replay of one case"
		n := 0
		p := c14RunCase(env, wrap.Input, &n)
		stats.Cases = n
		if p != nil {
			fail(wrap.Input, p, nil)
		}
		return
	}

	thorough := c14Thorough()
	seed := c14Seed()
	srvOpts := []c14SrvOpt{{Cache: true, CacheSize: 50 * 1024 * 1024}, {}}
	nRandom := 3000
	budget := 17 * time.Second
	if thorough {
		srvOpts = append(srvOpts, c14SrvOpt{Preload: true}, c14SrvOpt{Cache: true, CacheSize: 200, Preload: true})
		nRandom = 40000
		budget = 230 * time.Second
	}
	enum := c14EnumRequests(thorough)
	for _, r := range enum {
		m := &proto.QueryRequest{}
		if gproto.Unmarshal(r.bytes(), m) == nil {
			stats.nontrivial(string(r.bytes()))
		}
	}
	stats.Bound = fmt.Sprintf("seed %d: %d systematic requests (every omission {drop, no operator, empty operator message, 0/1 operands, missing/unknown column, placeholder, repeated member} at every position of 5 valid trees with/without group-by; not/and/or nested up to 100000 deep; operators up to 200000 operands; >4MB message) + %d random schema-guided wire messages and byte mutations, each followed by a 4-query probe batch; in-process handler calls and RPCs to a real server process; %d server settings",
		seed, len(enum), nRandom, len(srvOpts))
	start := time.Now()
	truncated := false
	for _, so := range srvOpts {
		for _, via := range []string{"inprocess", "rpc"} {
			if time.Since(start) > budget {
				truncated = true
				break
			}
			check(c14Case{Via: via, Rows: c14Rows, Server: so, Requests: enum})
		}
	}
	rng := rand.New(rand.NewSource(seed))
	chunk := 500
	for done := 0; done < nRandom && !truncated; done += chunk {
		reqs := c14RandomRequests(rng, chunk)
		for _, r := range reqs {
			m := &proto.QueryRequest{}
			if gproto.Unmarshal(r.bytes(), m) == nil {
				stats.nontrivial(string(r.bytes()))
			}
		}
		so := srvOpts[(done/chunk)%len(srvOpts)]
		for _, via := range []string{"inprocess", "rpc"} {
			if time.Since(start) > budget {
				truncated = true
				break
			}
			check(c14Case{Via: via, Rows: c14Rows, Server: so, Requests: reqs})
		}
	}
	if truncated {
		stats.Bound += fmt.Sprintf(" [stopped by the time budget after %v]", budget)
	}
	t.Logf("C14: %d requests in %v", stats.Cases, time.Since(start))
}
