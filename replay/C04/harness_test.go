package main

// Real-code harness for property C04 (concurrent queries on one index are race-free and return sequential answers).
//
// The harness runs under the Go race detector (marker file "race").  Because a data race on a Go map can abort the
// whole process ("fatal error: concurrent map read and map write", not recoverable), every scenario is executed in
// a CHILD process: the parent re-executes the test binary with VERIF_C04_CHILD set and GORACE=halt_on_error=1, and
// classifies the outcome:
//   * the child printed "WARNING: DATA RACE"            -> violation (data race), race report attached
//   * the child died with "fatal error:" / a Go panic    -> violation (crash)
//   * the child recorded recovered panics or answers that differ from the answer of the same call run alone
//     (computed beforehand, single goroutine, on a freshly opened index without cache)  -> violation
//   * the child does not finish within the watchdog time  -> violation (hang)
// Scenarios: "lru"   N goroutines calling LRUCache.Put/Get on one cache (tiny / ample capacity),
//            "index" N goroutines calling Index.Execute and Index.GetSchema on one index
//                    x {no cache, LRU tiny, LRU ample} x {on-demand, preloaded},
//            "grpc"  N goroutines issuing QueryService.Query RPCs against the real serverCmd (cache enabled,
//                    50 MiB: the defaults of the `updog server` flags) over loopback TCP.
// The query set contains overlapping sub-expressions (cache hits/misses/evictions in flight) but deliberately no two
// expressions whose results could be confused by the cache-key scheme (that is property C03, not C04).

import (
	"bytes"
	"context"
	"encoding/json"
	"fmt"
	"math/rand"
	"net"
	"os"
	"os/exec"
	"path/filepath"
	"reflect"
	"strconv"
	"strings"
	"sync"
	"sync/atomic"
	"testing"
	"time"

	"github.com/RoaringBitmap/roaring"
	"github.com/akrennmair/updog"
	"github.com/akrennmair/updog/internal/convert"
	proto "github.com/akrennmair/updog/proto/updog/v1"
	"google.golang.org/grpc"
	"google.golang.org/grpc/credentials/insecure"
)

type c04Scenario struct {
	Kind       string `json:"kind"`               // lru | index | grpc
	Cache      string `json:"cache,omitempty"`    // none | lru (index scenario)
	Capacity   uint64 `json:"capacity,omitempty"` // LRU capacity in bytes
	Preload    bool   `json:"preload,omitempty"`
	Goroutines int    `json:"goroutines"`
	Iterations int    `json:"iterations"` // calls per goroutine
	Seed       int64  `json:"seed"`
	Rows       int    `json:"rows,omitempty"` // rows of the generated index (row i: a=1+i%3, b=1+(i/3)%4, c=1+(i/7)%2 if i%5!=0, d=1+(i*i+i/11)%5)
}

type c04Result struct {
	Ran        string   `json:"ran"`
	Calls      int64    `json:"calls"`
	Mismatches []string `json:"mismatches,omitempty"`
	Panics     []string `json:"panics,omitempty"`
	HarnessErr string   `json:"harness_error,omitempty"`
}

type c04Violation struct {
	Property string      `json:"property"`
	What     string      `json:"what"`
	Input    c04Scenario `json:"input"`
	Expected interface{} `json:"expected"`
	Got      interface{} `json:"got"`
}

// ------------------------------------------------------------------------------------------------ expressions

type c04E struct {
	op   string
	col  string
	val  string
	args []c04E
}

type c04Q struct {
	e  c04E
	gb []string
}

func c04Eq(c, v string) c04E { return c04E{op: "eq", col: c, val: v} }
func c04Not(e c04E) c04E     { return c04E{op: "not", args: []c04E{e}} }
func c04And(es ...c04E) c04E { return c04E{op: "and", args: es} }
func c04Or(es ...c04E) c04E  { return c04E{op: "or", args: es} }

func (e c04E) build() updog.Expression {
	switch e.op {
	case "eq":
		return &updog.ExprEqual{Column: e.col, Value: e.val}
	case "not":
		return &updog.ExprNot{Expr: e.args[0].build()}
	case "and":
		x := &updog.ExprAnd{}
		for _, a := range e.args {
			x.Exprs = append(x.Exprs, a.build())
		}
		return x
	default:
		x := &updog.ExprOr{}
		for _, a := range e.args {
			x.Exprs = append(x.Exprs, a.build())
		}
		return x
	}
}

func (e c04E) pb() *proto.Query_Expression {
	switch e.op {
	case "eq":
		return &proto.Query_Expression{Value: &proto.Query_Expression_Eq{Eq: &proto.Query_Expression_Equal{Column: e.col, Value: e.val}}}
	case "not":
		return &proto.Query_Expression{Value: &proto.Query_Expression_Not_{Not: &proto.Query_Expression_Not{Expr: e.args[0].pb()}}}
	case "and":
		x := &proto.Query_Expression_And{}
		for _, a := range e.args {
			x.Exprs = append(x.Exprs, a.pb())
		}
		return &proto.Query_Expression{Value: &proto.Query_Expression_And_{And: x}}
	default:
		x := &proto.Query_Expression_Or{}
		for _, a := range e.args {
			x.Exprs = append(x.Exprs, a.pb())
		}
		return &proto.Query_Expression{Value: &proto.Query_Expression_Or_{Or: x}}
	}
}

func (q c04Q) String() string { return q.e.build().String() + " group by " + fmt.Sprint(q.gb) }

func c04Queries() []c04Q {
	a1, a2, b1, b2, c1, d3 := c04Eq("a", "1"), c04Eq("a", "2"), c04Eq("b", "1"), c04Eq("b", "2"), c04Eq("c", "1"), c04Eq("d", "3")
	return []c04Q{
		{e: a1}, {e: c04Not(a1)}, {e: c04And(a1, b1)}, {e: c04Or(a1, b1)}, {e: c04And(a1, b1, c1)},
		{e: c04Or(c04And(a1, b1), c1)}, {e: c04And(c04Or(a1, b1), c04Not(c1))}, {e: c04Not(c04And(a1, b1))},
		{e: c04Or(a2, b2, d3)}, {e: c04And(c04Not(a2), c04Or(b2, d3))},
		{e: c04And(a1, b1), gb: []string{"c"}}, {e: c04Or(a1, b1), gb: []string{"a", "d"}}, {e: c04Not(a1), gb: []string{"b"}},
		{e: c04Eq("a", "no-such-value")}, {e: c04And(c04Eq("d", "1"), c04Not(c04Or(a2, b1))), gb: []string{"d"}},
		{e: c04Eq("nocolumn", "1")}, // returns an error, alone and concurrently
	}
}

// ------------------------------------------------------------------------------------------------ child side

type c04Answer struct {
	Err    bool
	Count  uint64
	Groups []updog.ResultGroup
}

func c04Exec(idx *updog.Index, q c04Q) (ans c04Answer, panicked string) {
	defer func() {
		if r := recover(); r != nil {
			panicked = fmt.Sprint(r)
		}
	}()
	r, err := idx.Execute(&updog.Query{Expr: q.e.build(), GroupBy: append([]string(nil), q.gb...)})
	if err != nil {
		return c04Answer{Err: true}, ""
	}
	return c04Answer{Count: r.Count, Groups: r.Groups}, ""
}

func c04SameAnswer(a, b c04Answer) bool {
	if a.Err != b.Err || a.Count != b.Count || len(a.Groups) != len(b.Groups) {
		return false
	}
	for i := range a.Groups {
		if a.Groups[i].Count != b.Groups[i].Count || !reflect.DeepEqual(a.Groups[i].Fields, b.Groups[i].Fields) {
			return false
		}
	}
	return true
}

func c04BuildIndex(dir string, rows int) (string, error) {
	file := filepath.Join(dir, "c04.updog")
	w := updog.NewIndexWriter(file)
	for i := 0; i < rows; i++ {
		r := map[string]string{"a": strconv.Itoa(1 + i%3), "b": strconv.Itoa(1 + (i/3)%4), "d": strconv.Itoa(1 + (i*i+i/11)%5)}
		if i%5 != 0 {
			r["c"] = strconv.Itoa(1 + (i/7)%2)
		}
		if _, err := w.AddRow(r); err != nil {
			return "", err
		}
	}
	return file, w.Flush()
}

type c04AtomicCounter struct{ n int64 }

func (c *c04AtomicCounter) Inc() { atomic.AddInt64(&c.n, 1) }

type c04Collector struct {
	mu  sync.Mutex
	res *c04Result
}

func (c *c04Collector) mismatch(s string) {
	c.mu.Lock()
	if len(c.res.Mismatches) < 5 {
		c.res.Mismatches = append(c.res.Mismatches, s)
	}
	c.mu.Unlock()
}
func (c *c04Collector) panicked(s string) {
	c.mu.Lock()
	if len(c.res.Panics) < 5 {
		c.res.Panics = append(c.res.Panics, s)
	}
	c.mu.Unlock()
}

func c04ChildLRU(sc c04Scenario, col *c04Collector) {
	const nKeys = 12
	bms := make([]*roaring.Bitmap, nKeys)
	for k := range bms {
		bms[k] = roaring.New()
		for j := 0; j < 5+k*7; j++ {
			bms[k].Add(uint32(j*16 + k))
		}
	}
	get, put, hit, miss := &c04AtomicCounter{}, &c04AtomicCounter{}, &c04AtomicCounter{}, &c04AtomicCounter{}
	cache := updog.NewLRUCache(sc.Capacity, updog.WithCacheMetrics(&updog.CacheMetrics{CacheHit: hit, CacheMiss: miss, GetCall: get, PutCall: put}))
	var gets, puts, hits int64
	var wg sync.WaitGroup
	start := make(chan struct{})
	for g := 0; g < sc.Goroutines; g++ {
		wg.Add(1)
		go func(g int) {
			defer wg.Done()
			rng := rand.New(rand.NewSource(sc.Seed*1000 + int64(g)))
			<-start
			for i := 0; i < sc.Iterations; i++ {
				k := rng.Intn(nKeys)
				isPut := rng.Intn(3) == 0
				func() {
					defer func() {
						if r := recover(); r != nil {
							col.panicked(fmt.Sprintf("goroutine %d call %d key %d put=%v: panic: %v", g, i, k, isPut, r))
						}
					}()
					if isPut {
						atomic.AddInt64(&puts, 1)
						cache.Put(uint64(k), bms[k])
						return
					}
					atomic.AddInt64(&gets, 1)
					bm, ok := cache.Get(uint64(k))
					if ok {
						atomic.AddInt64(&hits, 1)
						if bm == nil || !bm.Equals(bms[k]) {
							col.mismatch(fmt.Sprintf("goroutine %d call %d: Get(%d) hit returned a bitmap that is not the one every Put stored under key %d", g, i, k, k))
						}
					}
				}()
				atomic.AddInt64(&col.res.Calls, 1)
			}
		}(g)
	}
	close(start)
	wg.Wait()
	if len(col.res.Panics) == 0 {
		if get.n != gets || put.n != puts || hit.n != hits || miss.n != gets-hits {
			col.mismatch(fmt.Sprintf("counters after %d Get (%d hits) and %d Put calls: GetCall=%d PutCall=%d CacheHit=%d CacheMiss=%d", gets, hits, puts, get.n, put.n, hit.n, miss.n))
		}
	}
}

func c04ChildIndex(sc c04Scenario, col *c04Collector, dir string) error {
	file, err := c04BuildIndex(dir, sc.Rows)
	if err != nil {
		return err
	}
	qs := c04Queries()
	// every call alone: fresh index, no cache, no preloading, single goroutine
	ref, err := updog.OpenIndex(file)
	if err != nil {
		return err
	}
	expected := make([]c04Answer, len(qs))
	for i, q := range qs {
		a, p := c04Exec(ref, q)
		if p != "" {
			return fmt.Errorf("reference execution of %s panicked: %s", q, p)
		}
		expected[i] = a
	}
	expSchema := ref.GetSchema()
	if err := ref.Close(); err != nil {
		return err
	}

	if sc.Kind == "grpc" {
		return c04ChildGRPC(sc, col, file, qs, expected)
	}

	var opts []updog.IndexOption
	if sc.Cache == "lru" {
		opts = append(opts, updog.WithCache(updog.NewLRUCache(sc.Capacity)))
	}
	if sc.Preload {
		opts = append(opts, updog.WithPreloadedData())
	}
	idx, err := updog.OpenIndex(file, opts...)
	if err != nil {
		return err
	}
	defer idx.Close()
	var wg sync.WaitGroup
	start := make(chan struct{})
	for g := 0; g < sc.Goroutines; g++ {
		wg.Add(1)
		go func(g int) {
			defer wg.Done()
			rng := rand.New(rand.NewSource(sc.Seed*1000 + int64(g)))
			<-start
			for i := 0; i < sc.Iterations; i++ {
				if rng.Intn(8) == 0 {
					func() {
						defer func() {
							if r := recover(); r != nil {
								col.panicked(fmt.Sprintf("goroutine %d call %d GetSchema: panic: %v", g, i, r))
							}
						}()
						if s := idx.GetSchema(); !reflect.DeepEqual(s, expSchema) {
							col.mismatch(fmt.Sprintf("goroutine %d call %d: GetSchema returned %+v, alone it returns %+v", g, i, s, expSchema))
						}
					}()
				} else {
					qi := rng.Intn(len(qs))
					a, p := c04Exec(idx, qs[qi])
					if p != "" {
						col.panicked(fmt.Sprintf("goroutine %d call %d Execute(%s): panic: %s", g, i, qs[qi], p))
					} else if !c04SameAnswer(a, expected[qi]) {
						col.mismatch(fmt.Sprintf("goroutine %d call %d: Execute(%s) returned %+v, alone it returns %+v", g, i, qs[qi], a, expected[qi]))
					}
				}
				atomic.AddInt64(&col.res.Calls, 1)
			}
		}(g)
	}
	close(start)
	wg.Wait()
	return nil
}

func c04FreePort() (string, error) {
	l, err := net.Listen("tcp", "127.0.0.1:0")
	if err != nil {
		return "", err
	}
	defer l.Close()
	return l.Addr().String(), nil
}

func c04ChildGRPC(sc c04Scenario, col *c04Collector, file string, qs []c04Q, expected []c04Answer) error {
	addr, err := c04FreePort()
	if err != nil {
		return fmt.Errorf("no loopback TCP available: %w", err)
	}
	debugAddr, err := c04FreePort()
	if err != nil {
		return err
	}
	// the defaults of the `updog server` command line flags (main.go): cache enabled, 50 MiB, no preloading
	cfg := &serverConfig{addr: addr, debugAddr: debugAddr, indexFile: file, enableCache: true, maxCacheSize: 50 * 1024 * 1024, enablePreloadedData: sc.Preload}
	srvErr := make(chan error, 1)
	go func() { srvErr <- serverCmd(cfg) }()

	conn, err := grpc.NewClient(addr, grpc.WithTransportCredentials(insecure.NewCredentials()))
	if err != nil {
		return err
	}
	defer conn.Close()
	client := proto.NewQueryServiceClient(conn)
	// wait until the server answers
	ready := false
	for t0 := time.Now(); time.Since(t0) < 15*time.Second; {
		select {
		case err := <-srvErr:
			return fmt.Errorf("serverCmd returned: %v", err)
		default:
		}
		ctx, cancel := context.WithTimeout(context.Background(), time.Second)
		_, err := client.Query(ctx, &proto.QueryRequest{})
		cancel()
		if err == nil {
			ready = true
			break
		}
		time.Sleep(50 * time.Millisecond)
	}
	if !ready {
		return fmt.Errorf("gRPC server did not become ready on %s", addr)
	}

	var wg sync.WaitGroup
	start := make(chan struct{})
	for g := 0; g < sc.Goroutines; g++ {
		wg.Add(1)
		go func(g int) {
			defer wg.Done()
			rng := rand.New(rand.NewSource(sc.Seed*1000 + int64(g)))
			<-start
			for i := 0; i < sc.Iterations; i++ {
				n := 1 + rng.Intn(3)
				req := &proto.QueryRequest{}
				var qis []int
				for j := 0; j < n; j++ {
					qi := rng.Intn(len(qs) - 1) // without the erroring query: an error fails the whole request
					qis = append(qis, qi)
					req.Queries = append(req.Queries, &proto.Query{Id: int32(j + 1), Expr: qs[qi].e.pb(), GroupBy: qs[qi].gb})
				}
				ctx, cancel := context.WithTimeout(context.Background(), 20*time.Second)
				resp, err := client.Query(ctx, req)
				cancel()
				atomic.AddInt64(&col.res.Calls, 1)
				if err != nil {
					col.mismatch(fmt.Sprintf("goroutine %d RPC %d failed: %v", g, i, err))
					continue
				}
				if len(resp.Results) != n {
					col.mismatch(fmt.Sprintf("goroutine %d RPC %d: %d results for %d queries", g, i, len(resp.Results), n))
					continue
				}
				for j, r := range resp.Results {
					got := convert.ToResult(r)
					a := c04Answer{Count: got.Count, Groups: got.Groups}
					if r.QueryId != int32(j+1) || !c04SameAnswer(a, expected[qis[j]]) {
						col.mismatch(fmt.Sprintf("goroutine %d RPC %d query %d (%s): got id %d %+v, alone it returns %+v", g, i, j, qs[qis[j]], r.QueryId, a, expected[qis[j]]))
					}
				}
			}
		}(g)
	}
	close(start)
	wg.Wait()
	select {
	case err := <-srvErr:
		return fmt.Errorf("serverCmd returned during the run: %v", err)
	default:
	}
	return nil
}

func c04Child(t *testing.T, scenarioFile string) {
	raw, err := os.ReadFile(scenarioFile)
	if err != nil {
		t.Fatalf("child: %v", err)
	}
	var sc c04Scenario
	if err := json.Unmarshal(raw, &sc); err != nil {
		t.Fatalf("child: %v", err)
	}
	col := &c04Collector{res: &c04Result{Ran: sc.describe()}}
	defer func() {
		b, _ := json.Marshal(col.res)
		_ = os.WriteFile(os.Getenv("VERIF_C04_RESULT"), b, 0o644)
	}()
	switch sc.Kind {
	case "lru":
		c04ChildLRU(sc, col)
	case "index", "grpc":
		// data lives below the parent's temp dir: a child aborted by the race detector cannot clean up itself
		dataDir, err := os.MkdirTemp(os.Getenv("VERIF_C04_DIR"), "child-")
		if err != nil {
			col.res.HarnessErr = err.Error()
			return
		}
		if err := c04ChildIndex(sc, col, dataDir); err != nil {
			col.res.HarnessErr = err.Error()
		}
	default:
		col.res.HarnessErr = "unknown scenario kind " + sc.Kind
	}
}

func (sc c04Scenario) describe() string {
	switch sc.Kind {
	case "lru":
		return fmt.Sprintf("%d goroutines x %d random LRUCache.Put/Get calls over 12 keys on one NewLRUCache(%d) with counters (seed %d)", sc.Goroutines, sc.Iterations, sc.Capacity, sc.Seed)
	case "grpc":
		return fmt.Sprintf("%d goroutines x %d QueryService.Query RPCs (1..3 queries each, 15 distinct queries with shared sub-expressions) against serverCmd with its default LRU cache (50 MiB) on a %d-row index over loopback TCP (seed %d)", sc.Goroutines, sc.Iterations, sc.Rows, sc.Seed)
	default:
		c := "no cache"
		if sc.Cache == "lru" {
			c = fmt.Sprintf("WithCache(NewLRUCache(%d))", sc.Capacity)
		}
		p := "on-demand"
		if sc.Preload {
			p = "WithPreloadedData"
		}
		return fmt.Sprintf("%d goroutines x %d calls of Index.Execute (16 distinct queries with shared sub-expressions, 7 of 8 calls) / Index.GetSchema (1 of 8) on one %d-row index opened with %s, %s (seed %d)", sc.Goroutines, sc.Iterations, sc.Rows, c, p, sc.Seed)
	}
}

// ------------------------------------------------------------------------------------------------ parent side

func c04Excerpt(out string, marker string, maxLines int) string {
	i := strings.Index(out, marker)
	if i < 0 {
		return ""
	}
	lines := strings.Split(out[i:], "\n")
	if len(lines) > maxLines {
		lines = lines[:maxLines]
	}
	return strings.Join(lines, "\n")
}

// c04RunScenario runs one scenario in a child process; returns a violation, or a harness error.
func c04RunScenario(dir string, n int, sc c04Scenario, timeout time.Duration) (*c04Violation, *c04Result, error) {
	scFile := filepath.Join(dir, fmt.Sprintf("scenario-%d.json", n))
	resFile := filepath.Join(dir, fmt.Sprintf("result-%d.json", n))
	b, _ := json.Marshal(sc)
	if err := os.WriteFile(scFile, b, 0o644); err != nil {
		return nil, nil, err
	}
	ctx, cancel := context.WithTimeout(context.Background(), timeout)
	defer cancel()
	cmd := exec.CommandContext(ctx, os.Args[0], "-test.run=^TestVerifHarnessC04$", "-test.count=1", "-test.timeout=0")
	var env []string
	for _, e := range os.Environ() {
		if strings.HasPrefix(e, "VERIF_OUT=") || strings.HasPrefix(e, "VERIF_STATS=") || strings.HasPrefix(e, "GORACE=") {
			continue
		}
		env = append(env, e)
	}
	cmd.Env = append(env, "VERIF_C04_CHILD="+scFile, "VERIF_C04_RESULT="+resFile, "VERIF_C04_DIR="+dir, "GORACE=halt_on_error=1 exitcode=66 atexit_sleep_ms=0")
	var out bytes.Buffer
	cmd.Stdout, cmd.Stderr = &out, &out
	cmd.WaitDelay = 2 * time.Second
	runErr := cmd.Run()
	output := out.String()
	var res c04Result
	haveRes := false
	if rb, err := os.ReadFile(resFile); err == nil && json.Unmarshal(rb, &res) == nil {
		haveRes = true
	}
	mk := func(what string, exp, got interface{}) *c04Violation {
		return &c04Violation{Property: "C04", What: what + " while running: " + sc.describe(), Input: sc, Expected: exp, Got: got}
	}
	if strings.Contains(output, "WARNING: DATA RACE") {
		return mk("the race detector reported a data race", "no data race", c04Excerpt(output, "WARNING: DATA RACE", 45)), &res, nil
	}
	if strings.Contains(output, "fatal error:") {
		return mk("the process crashed with a Go runtime fatal error", "no crash", c04Excerpt(output, "fatal error:", 30)), &res, nil
	}
	if ctx.Err() != nil {
		return mk(fmt.Sprintf("the calls did not finish within %v (hang)", timeout), "all calls return", "timeout; tail of output: "+c04Tail(output, 1500)), &res, nil
	}
	if haveRes && len(res.Panics) > 0 {
		return mk("a call panicked", "no panic", res.Panics), &res, nil
	}
	if haveRes && len(res.Mismatches) > 0 {
		return mk("a concurrent call returned something else than the same call run alone", "every call returns what it returns when run alone (fresh index, no cache, single goroutine)", res.Mismatches), &res, nil
	}
	if strings.Contains(output, "panic:") && runErr != nil {
		return mk("the process died with a panic", "no panic", c04Excerpt(output, "panic:", 30)), &res, nil
	}
	if runErr != nil || !haveRes {
		return nil, &res, fmt.Errorf("child process failed (%v) without a classifiable outcome; output tail: %s", runErr, c04Tail(output, 2000))
	}
	if res.HarnessErr != "" {
		return nil, &res, fmt.Errorf("child: %s", res.HarnessErr)
	}
	return nil, &res, nil
}

func c04Tail(s string, n int) string {
	if len(s) > n {
		return s[len(s)-n:]
	}
	return s
}

func c04WriteJSON(path string, v interface{}) {
	if path == "" {
		return
	}
	b, _ := json.Marshal(v)
	_ = os.WriteFile(path, b, 0o644)
}

func TestVerifHarnessC04(t *testing.T) {
	if f := os.Getenv("VERIF_C04_CHILD"); f != "" {
		c04Child(t, f)
		return
	}
	bound := os.Getenv("VERIF_BOUND")
	if bound == "" {
		bound = "quick"
	}
	seed := int64(1)
	if s, err := strconv.ParseInt(os.Getenv("VERIF_SEED"), 10, 64); err == nil {
		seed = s
	}
	var cases, nontrivial int64
	boundText := ""
	defer func() {
		c04WriteJSON(os.Getenv("VERIF_STATS"), map[string]interface{}{"cases": cases, "distinct_nontrivial": nontrivial, "bound": boundText, "exhaustive": false})
	}()
	fail := func(v *c04Violation) {
		c04WriteJSON(os.Getenv("VERIF_OUT"), v)
		b, _ := json.Marshal(v)
		t.Fatalf("C04 violation: %s\n%s", v.What, b)
	}
	dir := t.TempDir()

	if os.Getenv("VERIF_MODE") == "replay" {
		raw, err := os.ReadFile(os.Getenv("VERIF_CASE"))
		if err != nil {
			t.Fatalf("cannot read VERIF_CASE: %v", err)
		}
		var wrap struct {
			Input *c04Scenario `json:"input"`
		}
		var sc c04Scenario
		if err := json.Unmarshal(raw, &wrap); err == nil && wrap.Input != nil {
			sc = *wrap.Input
		} else if err := json.Unmarshal(raw, &sc); err != nil {
			t.Fatalf("cannot parse VERIF_CASE: %v", err)
		}
		if sc.Rows == 0 {
			sc.Rows = 3000
		}
		// a schedule cannot be replayed exactly: the scenario is repeated a few times with consecutive seeds
		boundText = "replay: the scenario of the case, repeated up to 5 times (schedules are not reproducible exactly)"
		for rep := 0; rep < 5; rep++ {
			s := sc
			s.Seed = sc.Seed + int64(rep)
			v, res, err := c04RunScenario(dir, rep, s, 90*time.Second)
			cases++
			if res != nil {
				nontrivial += res.Calls
			}
			if err != nil {
				t.Fatalf("harness: %v", err)
			}
			if v != nil {
				fail(v)
			}
		}
		return
	}

	var plans []c04Scenario
	add := func(sc c04Scenario) {
		if sc.Rows == 0 && sc.Kind != "lru" {
			sc.Rows = 3000
		}
		plans = append(plans, sc)
	}
	g, it := 8, 200
	if bound == "thorough" {
		it = 400
	}
	// cheapest and most exposed first
	add(c04Scenario{Kind: "lru", Capacity: 400, Goroutines: g, Iterations: 2 * it, Seed: seed})
	add(c04Scenario{Kind: "lru", Capacity: 1 << 26, Goroutines: g, Iterations: 2 * it, Seed: seed})
	add(c04Scenario{Kind: "index", Cache: "lru", Capacity: 1 << 26, Goroutines: g, Iterations: it, Seed: seed})
	add(c04Scenario{Kind: "index", Cache: "lru", Capacity: 2000, Preload: true, Goroutines: g, Iterations: it, Seed: seed})
	add(c04Scenario{Kind: "grpc", Goroutines: g, Iterations: it / 3, Seed: seed})
	add(c04Scenario{Kind: "index", Cache: "none", Goroutines: g, Iterations: it, Seed: seed})
	add(c04Scenario{Kind: "index", Cache: "none", Preload: true, Goroutines: g, Iterations: it, Seed: seed})
	add(c04Scenario{Kind: "index", Cache: "lru", Capacity: 2000, Goroutines: g, Iterations: it, Seed: seed})
	add(c04Scenario{Kind: "index", Cache: "lru", Capacity: 1 << 26, Preload: true, Goroutines: g, Iterations: it, Seed: seed})
	add(c04Scenario{Kind: "index", Cache: "lru", Capacity: 0, Goroutines: 2, Iterations: it, Seed: seed})
	add(c04Scenario{Kind: "lru", Capacity: 400, Goroutines: 2, Iterations: 4 * it, Seed: seed + 1})
	add(c04Scenario{Kind: "lru", Capacity: 100, Goroutines: 32, Iterations: it, Seed: seed + 1})
	add(c04Scenario{Kind: "index", Cache: "lru", Capacity: 30000, Goroutines: 32, Iterations: it / 2, Seed: seed + 1})
	add(c04Scenario{Kind: "index", Cache: "lru", Capacity: 1 << 26, Preload: true, Goroutines: 2, Iterations: 2 * it, Seed: seed + 1})
	add(c04Scenario{Kind: "grpc", Preload: true, Goroutines: 16, Iterations: it / 4, Seed: seed + 1})
	if bound == "thorough" {
		for rep := int64(1); rep <= 3; rep++ {
			for _, gg := range []int{2, 4, 16, 32} {
				add(c04Scenario{Kind: "lru", Capacity: 400, Goroutines: gg, Iterations: 2 * it, Seed: seed + rep})
				add(c04Scenario{Kind: "lru", Capacity: 100, Goroutines: gg, Iterations: 2 * it, Seed: seed + rep})
				add(c04Scenario{Kind: "lru", Capacity: 1 << 26, Goroutines: gg, Iterations: 2 * it, Seed: seed + rep})
				for _, pre := range []bool{false, true} {
					add(c04Scenario{Kind: "index", Cache: "none", Preload: pre, Goroutines: gg, Iterations: it, Seed: seed + rep})
					add(c04Scenario{Kind: "index", Cache: "lru", Capacity: 2000, Preload: pre, Goroutines: gg, Iterations: it, Seed: seed + rep})
					add(c04Scenario{Kind: "index", Cache: "lru", Capacity: 30000, Preload: pre, Goroutines: gg, Iterations: it, Seed: seed + rep})
					add(c04Scenario{Kind: "index", Cache: "lru", Capacity: 1 << 26, Preload: pre, Goroutines: gg, Iterations: it, Seed: seed + rep})
				}
				add(c04Scenario{Kind: "grpc", Goroutines: gg, Iterations: it / 3, Seed: seed + rep})
			}
		}
	}

	budget := 16 * time.Second
	if bound == "thorough" {
		budget = 230 * time.Second
	}
	start := time.Now()
	ran := 0
	for i, sc := range plans {
		if time.Since(start) > budget {
			break
		}
		v, res, err := c04RunScenario(dir, i, sc, 60*time.Second)
		cases++
		ran++
		if res != nil {
			nontrivial += res.Calls
		}
		if err != nil {
			t.Fatalf("harness: scenario %+v: %v", sc, err)
		}
		if v != nil {
			fail(v)
		}
		t.Logf("scenario %d ok after %v: %s", i, time.Since(start), sc.describe())
	}
	boundText = fmt.Sprintf("%d of %d planned scenarios, each in its own race-instrumented child process (cases = scenarios, distinct_nontrivial = concurrent calls made): LRUCache Put/Get direct {tiny, ample}; Index.Execute/GetSchema x {no cache, LRU 0/2000/30000/64MiB} x {on-demand, preloaded}; gRPC Query against serverCmd with default cache; goroutines %s; %d calls per goroutine; seed %d; schedules sampled, not enumerated",
		ran, len(plans), map[string]string{"quick": "2,8,16,32", "thorough": "2,4,8,16,32"}[bound], it, seed)
}
