package updog

// C05 — Flush/open round trip preserves rows, ids and schema; both writers agree.
//
// Oracle: the rows handed to AddRow are kept in the harness. Checked per writer path (in-memory writer to file,
// in-memory writer into a caller-supplied bbolt DB, big disk-backed writer):
//   ids      AddRow returns 0,1,2,... in call order without error
//   flush    Flush / WriteToBoltDatabase succeed (no error, no panic), the output opens
//   schema   GetSchema == sorted columns, each with its sorted distinct values (computed from the rows)
//   universe for every column c and a value v of it: Count(OR[c=v, NOT c=v]) == number of AddRow calls
//   counts   Execute(universe, GroupBy [c]) == exact number of rows per value of c (no other values)
//   members  via the unique-per-row column "id": Execute(c=v, GroupBy [id]) lists exactly the ids of the rows that were
//            added with c=v (each once), likewise for NOT c=v (complement within the rows that carry an id)
//   reopen   the same answers after every Close + OpenIndex of the file (on demand / preloaded alternating)
// Since every answer is compared with the same row-level oracle, equal answers of the writers follow; the schema and a
// digest of all probe answers are additionally compared across the writers explicitly.
//
// Case format (VERIF_OUT / VERIF_CASE), key "input":
//   {"dataset": {"rows": [...]} | {"gen": {...}}, "writer": "mem-file"|"mem-db"|"big"|"" (all, plus comparison),
//    "opens": ["ondemand","preloaded",...], "step": <index into opens where it failed>, "probe": {...}}
// Strings that are not valid UTF-8 are written as {"hex":"..."}.

import (
	"crypto/sha256"
	"encoding/binary"
	"encoding/hex"
	"encoding/json"
	"fmt"
	"math/bits"
	"math/rand"
	"os"
	"sort"
	"strconv"
	"sync"
	"testing"
	"time"
)

type c05Probe struct {
	Kind    string `json:"kind"` // "schema" | "universe" | "counts" | "members" | "non-members"
	Expr    *c05E  `json:"expr,omitempty"`
	GroupBy []c05S `json:"group_by,omitempty"`
}

type c05Input struct {
	Dataset *c05Dataset `json:"dataset"`
	Writer  string      `json:"writer"`
	Opens   []string    `json:"opens,omitempty"`
	Step    *int        `json:"step,omitempty"`
	Probe   *c05Probe   `json:"probe,omitempty"`
}

type c05SchemaCol struct {
	Name   c05S   `json:"name"`
	Values []c05S `json:"values"`
}

type c05GroupCount struct {
	Value c05S   `json:"value"`
	Count uint64 `json:"count"`
}

// c05Plan holds a dataset and the oracle's view of it.
type c05Plan struct {
	ds        *c05Dataset
	maxProbes int // number of (column,value) pairs probed for exact membership
	seed      int64
	forced    [][2]string // pairs that must be probed (replay of a membership probe)
	once      sync.Once
	rows      []c05Row
	cols      map[string]map[string]bool
	names     []string
	schema    []c05SchemaCol
	hasID     bool
	pairs     [][2]string // (column,value) pairs for the membership probes
}

func (p *c05Plan) prepare() {
	p.once.Do(func() {
		p.rows = p.ds.materialize()
		p.cols = c05ColumnValues(p.rows)
		p.names = c05SortedCols(p.cols)
		for _, c := range p.names {
			p.schema = append(p.schema, c05SchemaCol{Name: c05S(c), Values: c05SS(c05SortedKeys(p.cols[c]))})
		}
		_, p.hasID = p.cols["id"]
		var all [][2]string
		for _, c := range p.names {
			vals := c05SortedKeys(p.cols[c])
			for _, v := range vals {
				all = append(all, [2]string{c, v})
			}
		}
		if len(all) <= p.maxProbes {
			p.pairs = all
			return
		}
		// first and last value of every column, then a seeded sample
		seen := map[[2]string]bool{}
		for _, x := range p.forced {
			seen[x] = true
			p.pairs = append(p.pairs, x)
		}
		add := func(x [2]string) {
			if !seen[x] && len(p.pairs) < p.maxProbes+len(p.forced) {
				seen[x] = true
				p.pairs = append(p.pairs, x)
			}
		}
		for _, c := range p.names {
			vals := c05SortedKeys(p.cols[c])
			add([2]string{c, vals[0]})
			add([2]string{c, vals[len(vals)-1]})
		}
		rng := rand.New(rand.NewSource(p.seed))
		for tries := 0; len(p.pairs) < p.maxProbes && tries < 20*p.maxProbes; tries++ {
			add(all[rng.Intn(len(all))])
		}
	})
}

func c05SchemaOf(s *Schema) []c05SchemaCol {
	var out []c05SchemaCol
	if s == nil {
		return nil
	}
	for _, c := range s.Columns {
		sc := c05SchemaCol{Name: c05S(c.Name), Values: []c05S{}}
		for _, v := range c.Values {
			sc.Values = append(sc.Values, c05S(v.Value))
		}
		out = append(out, sc)
	}
	return out
}

func c05SchemaEq(a, b []c05SchemaCol) bool {
	if len(a) != len(b) {
		return false
	}
	for i := range a {
		if a[i].Name != b[i].Name || len(a[i].Values) != len(b[i].Values) {
			return false
		}
		for j := range a[i].Values {
			if a[i].Values[j] != b[i].Values[j] {
				return false
			}
		}
	}
	return true
}

func c05SchemaExcerpt(s []c05SchemaCol) interface{} {
	total := 0
	for _, c := range s {
		total += len(c.Values)
	}
	if total <= 60 {
		return s
	}
	var out []interface{}
	for _, c := range s {
		if len(c.Values) <= 8 {
			out = append(out, c)
			continue
		}
		out = append(out, map[string]interface{}{"name": c.Name, "n_values": len(c.Values), "first": c.Values[:3], "last": c.Values[len(c.Values)-3:]})
	}
	return out
}

func c05GroupsExcerpt(gs []c05GroupCount, at int) interface{} {
	if len(gs) <= 30 {
		return gs
	}
	lo, hi := at-3, at+4
	if lo < 0 {
		lo = 0
	}
	if hi > len(gs) {
		hi = len(gs)
	}
	if lo > hi {
		lo = hi
	}
	return map[string]interface{}{"n_groups": len(gs), "first_difference_at_index": at, "groups_from_index": lo, "groups": gs[lo:hi]}
}

// c05Single executes a query grouped by one column and returns (value,count) per group; ok=false with a description if
// the result is not even of that shape.
func c05Single(idx *Index, e *c05E, col string) (total uint64, gs []c05GroupCount, bad string) {
	res, err, pan := c05Exec(idx, &Query{Expr: e.toExpr(), GroupBy: []string{col}})
	if pan != "" {
		return 0, nil, pan
	}
	if err != nil {
		return 0, nil, "error: " + err.Error()
	}
	if res == nil {
		return 0, nil, "nil result and nil error"
	}
	gs = make([]c05GroupCount, 0, len(res.Groups))
	for _, g := range res.Groups {
		if len(g.Fields) != 1 || g.Fields[0].Column != col {
			return 0, nil, fmt.Sprintf("group with fields %v for group-by [%q]", g.Fields, col)
		}
		gs = append(gs, c05GroupCount{Value: c05S(g.Fields[0].Value), Count: g.Count})
	}
	return res.Count, gs, ""
}

func c05GroupsDiff(exp, got []c05GroupCount) int {
	n := len(exp)
	if len(got) < n {
		n = len(got)
	}
	for i := 0; i < n; i++ {
		if exp[i] != got[i] {
			return i
		}
	}
	if len(exp) != len(got) {
		return n
	}
	return -1
}

// c05ProbeAll runs all probes on an open index. It returns the first disagreement with the oracle and a digest of all
// answers (used for the explicit cross-writer / cross-reopen comparison).
func c05ProbeAll(st *c05State, idx *Index, p *c05Plan, mk func(pr *c05Probe) c05Input) (*c05Viol, string) {
	h := sha256.New()
	n := uint64(len(p.rows))

	// schema
	pr := &c05Probe{Kind: "schema"}
	st.setCur(mk(pr))
	var sch *Schema
	if _, pan := c05Guard(func() error { sch = idx.GetSchema(); return nil }); pan != "" {
		return &c05Viol{What: "GetSchema panicked", Input: mk(pr), Expected: c05SchemaExcerpt(p.schema), Got: pan}, ""
	}
	got := c05SchemaOf(sch)
	st.count(len(p.schema) > 0)
	if !c05SchemaEq(got, p.schema) {
		return &c05Viol{What: "the schema of the opened index is not exactly the sorted columns with their sorted distinct values that were added",
			Input: mk(pr), Expected: c05SchemaExcerpt(p.schema), Got: c05SchemaExcerpt(got)}, ""
	}
	sb, _ := json.Marshal(got)
	h.Write(sb)

	for _, c := range p.names {
		vals := c05SortedKeys(p.cols[c])
		v0 := vals[0]
		uni := c05Or(c05Eq(c, v0), c05Not(c05Eq(c, v0)))
		// expected number of rows per value
		cnt := map[string]uint64{}
		for _, r := range p.rows {
			if v, ok := r[c]; ok {
				cnt[v]++
			}
		}
		exp := make([]c05GroupCount, 0, len(vals))
		for _, v := range vals {
			exp = append(exp, c05GroupCount{Value: c05S(v), Count: cnt[v]})
		}
		pr := &c05Probe{Kind: "counts", Expr: uni, GroupBy: []c05S{c05S(c)}}
		st.setCur(mk(pr))
		total, gs, bad := c05Single(idx, uni, c)
		st.count(true)
		if bad != "" {
			return &c05Viol{What: "a probe query on the opened index failed", Input: mk(pr), Expected: "a result", Got: bad}, ""
		}
		if total != n {
			pr.Kind = "universe"
			return &c05Viol{What: "the row universe of the opened index does not have exactly one row per AddRow call", Input: mk(pr), Expected: n, Got: total}, ""
		}
		if d := c05GroupsDiff(exp, gs); d >= 0 {
			return &c05Viol{What: "per-value row counts of a column differ from the rows that were added", Input: mk(pr), Expected: c05GroupsExcerpt(exp, d), Got: c05GroupsExcerpt(gs, d)}, ""
		}
		gb, _ := json.Marshal(gs)
		h.Write(gb)
	}

	if p.hasID {
		for _, cv := range p.pairs {
			for _, neg := range []bool{false, true} {
				e := c05Eq(cv[0], cv[1])
				kind := "members"
				if neg {
					e = c05Not(e)
					kind = "non-members"
				}
				var ids []string
				for _, r := range p.rows {
					if id, ok := r["id"]; ok && e.sat(r) {
						ids = append(ids, id)
					}
				}
				sort.Strings(ids)
				exp := make([]c05GroupCount, 0, len(ids))
				for i, id := range ids {
					if i > 0 && ids[i-1] == id {
						exp[len(exp)-1].Count++ // only if the replayed dataset's id column is not unique
						continue
					}
					exp = append(exp, c05GroupCount{Value: c05S(id), Count: 1})
				}
				pr := &c05Probe{Kind: kind, Expr: e, GroupBy: []c05S{"id"}}
				st.setCur(mk(pr))
				_, gs, bad := c05Single(idx, e, "id")
				st.count(len(ids) > 0)
				if bad != "" {
					return &c05Viol{What: "a probe query on the opened index failed", Input: mk(pr), Expected: "a result", Got: bad}, ""
				}
				if d := c05GroupsDiff(exp, gs); d >= 0 {
					return &c05Viol{What: "a (column,value) does not hold for exactly the rows it was added to (rows identified by the unique id column)",
						Input: mk(pr), Expected: c05GroupsExcerpt(exp, d), Got: c05GroupsExcerpt(gs, d)}, ""
				}
				gb, _ := json.Marshal(gs)
				h.Write(gb)
			}
		}
	}
	return nil, hex.EncodeToString(h.Sum(nil))
}

// c05RunWriter: build with one writer, check ids, then the open/close/reopen sequence with all probes at each step.
func c05RunWriter(st *c05State, p *c05Plan, writer string, opens []string) (*c05Viol, string) {
	p.prepare()
	mkIn := func(step int, pr *c05Probe) c05Input {
		in := c05Input{Dataset: p.ds.forReport(), Writer: writer, Opens: opens, Probe: pr}
		if step >= 0 {
			s := step
			in.Step = &s
		}
		return in
	}
	st.setCur(mkIn(-1, nil))
	dir, err := os.MkdirTemp(st.scratch, "w")
	if err != nil {
		return &c05Viol{What: "harness: " + err.Error()}, ""
	}
	defer os.RemoveAll(dir)
	b, fl := c05Build(dir, p.rows, writer)
	defer b.closeDB()
	for i, id := range b.ids {
		if id != uint32(i) {
			return &c05Viol{What: "AddRow did not assign row ids 0,1,2,... in call order", Input: mkIn(-1, nil),
				Expected: map[string]interface{}{"call": i, "row_id": i}, Got: map[string]interface{}{"call": i, "row_id": id}}, ""
		}
	}
	if fl != nil {
		return &c05Viol{What: "writing the rows failed: " + fl.Stage + " did not succeed", Input: mkIn(-1, nil),
			Expected: fmt.Sprintf("%d AddRow calls and Flush succeed and the output opens as an index of these rows", len(p.rows)), Got: fl.Stage + ": " + fl.Msg}, ""
	}
	st.count(len(p.rows) > 0)
	digest := ""
	for step, mode := range opens {
		st.setCur(mkIn(step, nil))
		if step > 0 {
			// from the second step on the index is reopened from the file
			b.closeDB()
		}
		idx, fl := b.open(mode)
		if fl != nil {
			return &c05Viol{What: "the flushed output could not be opened as an index (" + fl.Stage + ")", Input: mkIn(step, nil), Expected: "index opens", Got: fl.Stage + ": " + fl.Msg}, ""
		}
		v, dg := c05ProbeAll(st, idx, p, func(pr *c05Probe) c05Input { return mkIn(step, pr) })
		if v != nil {
			b.closeIndex(idx)
			return v, ""
		}
		if digest != "" && dg != digest {
			b.closeIndex(idx)
			return &c05Viol{What: "closing and reopening the index changed an answer", Input: mkIn(step, nil), Expected: digest, Got: dg}, ""
		}
		digest = dg
		if b.db == nil {
			if err, pan := c05Guard(idx.Close); err != nil || pan != "" {
				return &c05Viol{What: "closing the index failed", Input: mkIn(step, nil), Expected: "nil error", Got: fmt.Sprint(err, pan)}, ""
			}
		}
	}
	return nil, digest
}

func c05RunAll(st *c05State, p *c05Plan, writers, opens []string) *c05Viol {
	first := ""
	for i, w := range writers {
		v, dg := c05RunWriter(st, p, w, opens)
		if v != nil {
			return v
		}
		if i == 0 {
			first = dg
		} else if dg != first {
			return &c05Viol{What: "the writers produced observationally different indexes from the same rows", Input: c05Input{Dataset: p.ds.forReport(), Writer: w, Opens: opens},
				Expected: "digest of all probe answers " + first + " (writer " + writers[0] + ")", Got: dg}
		}
	}
	return nil
}

// ---------------------------------------------------------------------------------------------------------------
// a (column, value) pair whose 64-bit value index is 0: xxhash64 is inverted for a 16-byte input column+NUL+value.

func c05Inv64(a uint64) uint64 {
	x := a
	for i := 0; i < 6; i++ {
		x *= 2 - a*x
	}
	return x
}

func c05ZeroHashValue(col, prefix string) (string, bool) {
	const (
		p1 uint64 = 11400714785074694791
		p2 uint64 = 14029467366897019727
		p4 uint64 = 9650029242287828579
		p5 uint64 = 2870177450012600261
	)
	head := col + "\x00" + prefix
	if len(head) != 8 {
		return "", false
	}
	round := func(u uint64) uint64 { return bits.RotateLeft64(u*p2, 31) * p1 }
	h := p5 + 16
	h ^= round(binary.LittleEndian.Uint64([]byte(head)))
	h = bits.RotateLeft64(h, 27)*p1 + p4
	// need rotl27(h ^ round(u2))*p1 + p4 == 0; the final avalanche maps 0 to 0
	negP4 := p4
	negP4 = -negP4
	t := negP4 * c05Inv64(p1)
	k2 := bits.RotateLeft64(t, -27) ^ h
	u2 := bits.RotateLeft64(k2*c05Inv64(p1), -31) * c05Inv64(p2)
	var tail [8]byte
	binary.LittleEndian.PutUint64(tail[:], u2)
	val := prefix + string(tail[:])
	return val, getValueIndex(col, val) == 0
}

// ---------------------------------------------------------------------------------------------------------------

func c05WithID(d *c05Dataset) *c05Dataset {
	rows := d.materialize()
	out := make([]c05Row, len(rows))
	for i, r := range rows {
		cp := c05Row{}
		for k, v := range r {
			cp[k] = v
		}
		if len(cp) > 0 {
			cp["id"] = strconv.Itoa(i)
		}
		out[i] = cp
	}
	return c05Explicit(out)
}

func TestVerifHarnessC05(t *testing.T) {
	mode, bound, seed := c05Env()
	if mode == "replay" {
		c05Replay(t)
		return
	}
	thorough := bound == "thorough"
	budget := 17 * time.Second
	opens := []string{"ondemand", "preloaded", "ondemand"}
	jobTimeout := 30 * time.Second
	if thorough {
		budget = 230 * time.Second
		opens = []string{"ondemand", "ondemand", "preloaded", "preloaded", "ondemand"}
		jobTimeout = 150 * time.Second
	}
	r := c05NewRunner(t, budget)
	boundText := ""
	defer func() { r.writeStats(boundText, false) }()
	rng := rand.New(rand.NewSource(seed))

	allWriters := func(p *c05Plan) c05Job {
		return func(st *c05State) *c05Viol { return c05RunAll(st, p, c05Writers, opens) }
	}

	// phase 1: tiny datasets (cols a,b), each also with a unique id column: every row sequence of length <= 2
	L, nRand := 2, 60
	if thorough {
		L, nRand = 3, 3000
	}
	var jobs []c05Job
	tinyJobs := func(ds []*c05Dataset) []c05Job {
		var out []c05Job
		for _, d := range ds {
			out = append(out, allWriters(&c05Plan{ds: d, maxProbes: 50, seed: seed}))
			out = append(out, allWriters(&c05Plan{ds: c05WithID(d), maxProbes: 50, seed: seed}))
		}
		return out
	}
	boundText = fmt.Sprintf("bound=%s seed=%d; open sequence %v (first open from the writer's DB handle where the caller supplies it, then Close+OpenIndex of the file); all row sequences of length<=%d over 9 row types (cols a,b; empty row) + %d random of length<=12, each with and without unique id column, 3 writers + cross-writer comparison", bound, seed, opens, L, nRand)
	if v := r.run("tiny (length<=2)", tinyJobs(c05TinyDatasets(2)), jobTimeout); v != nil {
		c05Report(t, "C05", v)
	}

	// phase 2: a (column,value) pair whose value index (64-bit hash) is 0 — no collision involved
	jobs = nil
	if zv, ok := c05ZeroHashValue("c", "zero00"); ok {
		for _, rows := range [][]c05Row{
			{{"c": zv}},
			{{"a": "1", "id": "0"}, {"c": zv, "a": "2", "id": "1"}, {}},
			{{"a": "1", "id": "0"}, {"a": "2", "id": "1"}, {"c": zv, "id": "2"}, {"c": "other", "id": "3"}},
		} {
			jobs = append(jobs, allWriters(&c05Plan{ds: c05Explicit(rows), maxProbes: 50, seed: seed}))
		}
		boundText += "; 3 datasets containing the (column,value) pair with value index 0"
	} else {
		boundText += "; (value-index-0 pair could not be constructed: skipped)"
	}
	if v := r.run("value index 0", jobs, jobTimeout); v != nil {
		c05Report(t, "C05", v)
	}

	// phase 2b: the remaining tiny datasets (length 3 in thorough mode, random longer ones)
	var moreTiny []*c05Dataset
	for _, d := range c05TinyDatasets(L) {
		if len(d.Rows) > 2 {
			moreTiny = append(moreTiny, d)
		}
	}
	moreTiny = append(moreTiny, c05RandomTiny(rng, nRand, L+1, 12)...)
	if v := r.run("tiny (longer)", tinyJobs(moreTiny), jobTimeout); v != nil {
		c05Report(t, "C05", v)
	}

	// phase 3: arbitrary strings, wide rows
	jobs = nil
	ns := []int{1, 3, 10, 100, 1200}
	reps := 2
	if thorough {
		ns = []int{1, 2, 3, 5, 10, 30, 100, 400, 1200, 3000}
		reps = 20
	}
	for rep := 0; rep < reps; rep++ {
		for _, n := range ns {
			g1 := c05Gen{Kind: "strings", N: n, Seed: seed*100 + int64(rep), Trail: rep % 3, ID: rep%2 == 0}
			g2 := c05Gen{Kind: "wide", N: n, Seed: seed*100 + int64(rep), ID: rep%2 == 1}
			jobs = append(jobs, allWriters(&c05Plan{ds: &c05Dataset{Gen: &g1}, maxProbes: 40, seed: seed}))
			jobs = append(jobs, allWriters(&c05Plan{ds: &c05Dataset{Gen: &g2}, maxProbes: 40, seed: seed}))
		}
	}
	boundText += fmt.Sprintf("; 'strings' and 'wide' datasets n in %v x %d seeds", ns, reps)
	if v := r.run("strings+wide", jobs, jobTimeout); v != nil {
		c05Report(t, "C05", v)
	}

	// phase 4: more than 1000 rows and more than 1000 distinct values (unique id column): every commit batch of both
	// writers is crossed; exact membership through the id column
	jobs = nil
	sizes := []int{999, 1000, 1001, 1002, 2001, 2500, 4097}
	nProbe := 12
	if thorough {
		sizes = []int{1, 500, 999, 1000, 1001, 1002, 1003, 1999, 2000, 2001, 2002, 2500, 3001, 4095, 4096, 4097, 5000, 10001}
		nProbe = 30
	}
	mixSeeds := 1
	if thorough {
		mixSeeds = 2
	}
	for s := 0; s < mixSeeds; s++ {
		for i, n := range sizes {
			g := c05Gen{Kind: "mix", N: n, Seed: seed + int64(i+100*s), Trail: (i % 3) * 5, ID: true}
			p := &c05Plan{ds: &c05Dataset{Gen: &g}, maxProbes: nProbe, seed: seed + int64(i)}
			jobs = append(jobs, allWriters(p))
		}
	}
	boundText += fmt.Sprintf("; 'mix' datasets with unique id column n in %v x %d seeds (%d membership probes each, all per-value counts)", sizes, mixSeeds, nProbe)
	if v := r.run("batch boundaries with id", jobs, jobTimeout); v != nil {
		c05Report(t, "C05", v)
	}

	// phase 5: large, without id column (schema, universe, per-value counts), one job per writer
	jobs = nil
	big := []int{65537}
	if thorough {
		big = []int{150000, 131073, 70001, 65537, 65536, 65535}
	}
	for i, n := range big {
		g := c05Gen{Kind: "mix", N: n, Seed: seed + 50 + int64(i), Trail: 4 * (i % 2)}
		p := &c05Plan{ds: &c05Dataset{Gen: &g}, maxProbes: 0, seed: seed}
		jobs = append(jobs, allWriters(p))
	}
	boundText += fmt.Sprintf("; large 'mix' datasets n in %v (schema, universe, per-value counts)", big)
	if v := r.run("large", jobs, jobTimeout); v != nil {
		c05Report(t, "C05", v)
	}
}

func c05Replay(t *testing.T) {
	raw, err := os.ReadFile(os.Getenv("VERIF_CASE"))
	if err != nil {
		t.Fatalf("replay: cannot read VERIF_CASE: %v", err)
	}
	var wrap struct {
		Input *json.RawMessage `json:"input"`
	}
	if err := json.Unmarshal(raw, &wrap); err == nil && wrap.Input != nil {
		raw = *wrap.Input
	}
	var in c05Input
	if err := json.Unmarshal(raw, &in); err != nil {
		t.Fatalf("replay: cannot parse case: %v", err)
	}
	if in.Dataset == nil {
		t.Fatalf("replay: case has no dataset")
	}
	r := c05NewRunner(t, 280*time.Second)
	defer func() { r.writeStats("replay of one case", false) }()
	writers := c05Writers
	if in.Writer != "" {
		writers = []string{in.Writer}
	}
	opens := in.Opens
	if len(opens) == 0 {
		opens = []string{"ondemand", "preloaded", "ondemand"}
	}
	_, _, seed := c05Env()
	p := &c05Plan{ds: in.Dataset, maxProbes: 200, seed: seed}
	if in.Probe != nil && in.Probe.Expr != nil && in.Probe.Expr.valid() == nil {
		e := in.Probe.Expr
		if e.Op == "not" {
			e = e.Args[0]
		}
		if e.Op == "eq" {
			p.forced = append(p.forced, [2]string{e.col(), e.val()})
		}
	}
	job := func(st *c05State) *c05Viol { return c05RunAll(st, p, writers, opens) }
	if v := r.run("replay", []c05Job{job}, 250*time.Second); v != nil {
		c05Report(t, "C05", v)
	}
}
