package updog

// Real-code oracle harness for property C07 (LRU cache: correct lookups, byte bound, LRU eviction, counters).
//
// The cache is treated as a black box: only NewLRUCache / WithCacheMetrics / Put / Get and
// roaring.Bitmap.GetSizeInBytes / Equals are used.  The set of retrievable entries after a prefix of
// operations is observed without perturbing the cache under test by replaying the same prefix on a
// throw-away replica and probing every key of the sequence with Get (the cache is deterministic).
//
// The oracle demands exactly what the property states:
//   (hit)      a hit returns a bitmap equal to the one most recently Put under that key (every Put in a case
//              stores a bitmap with a unique marker value, so a bitmap of another key/older Put is detected);
//   (bound)    after every Put the sum of GetSizeInBytes of all retrievable bitmaps is <= capacity;
//   (lru)      every entry that disappears during an operation was used (Put or Get hit) less recently than
//              every other entry that survives it (the key of the operation itself is exempt: it may be
//              rejected/evicted when it does not fit);
//   (fits)     a Put of a bitmap with size+c07Slack <= capacity is retrievable right after the Put;
//   (noevict)  if sum(size+c07Slack) over everything stored (incl. the new entry) <= capacity nothing disappears;
//   (nospook)  nothing becomes retrievable that was not retrievable before, except the key just Put;
//   (counters) get/put/hit/miss counters count exactly the calls / hits / misses (any subset may be nil);
//   no panic.
// c07Slack (128 bytes/entry) is a generous allowance for the per-entry bookkeeping overhead an implementation may
// charge (the current one charges 64), so that "fits"/"fits comfortably" never raises a false alarm.

import (
	"encoding/json"
	"fmt"
	"math"
	"math/rand"
	"os"
	"sort"
	"strconv"
	"sync"
	"sync/atomic"
	"testing"
	"time"

	"github.com/RoaringBitmap/roaring"
)

const c07Slack = 128

type c07Op struct {
	Op     string `json:"op"`               // "put" | "get"
	Key    uint64 `json:"key"`              //
	N      int    `json:"n,omitempty"`      // put: number of regular values j*stride, j<n
	Stride uint32 `json:"stride,omitempty"` // put: default 8 (one container up to n=8191); 70000 = one container per value
	Tag    int    `json:"tag,omitempty"`    // put: if >0 the unique marker value 8*tag+1 is added
}

type c07Case struct {
	Capacity uint64   `json:"capacity"`
	Metrics  int      `json:"metrics"` // bit mask: 1 GetCall, 2 PutCall, 4 CacheHit, 8 CacheMiss; -1 = NewLRUCache without option
	Ops      []c07Op  `json:"ops"`
	Bytes    []uint64 `json:"put_sizes_bytes,omitempty"` // informational: GetSizeInBytes of the bitmap of each op (0 for get)
}

type c07Violation struct {
	Property string      `json:"property"`
	What     string      `json:"what"`
	Input    c07Case     `json:"input"`
	Expected interface{} `json:"expected"`
	Got      interface{} `json:"got"`
}

type c07Counter struct{ n int64 }

func (c *c07Counter) Inc() { c.n++ }

var c07BmCache sync.Map // string -> *roaring.Bitmap (read-only after creation)

func c07Bitmap(op c07Op) *roaring.Bitmap {
	stride := op.Stride
	if stride == 0 {
		stride = 8
	}
	k := strconv.Itoa(op.N) + "/" + strconv.Itoa(int(stride)) + "/" + strconv.Itoa(op.Tag)
	if v, ok := c07BmCache.Load(k); ok {
		return v.(*roaring.Bitmap)
	}
	bm := roaring.New()
	for j := 0; j < op.N; j++ {
		bm.Add(uint32(uint64(j) * uint64(stride) % (1 << 32)))
	}
	if op.Tag > 0 {
		bm.Add(uint32(op.Tag)*8 + 1)
	}
	v, _ := c07BmCache.LoadOrStore(k, bm)
	return v.(*roaring.Bitmap)
}

type c07Inst struct {
	c                   *LRUCache
	get, put, hit, miss *c07Counter
}

func c07New(cs *c07Case) *c07Inst {
	in := &c07Inst{}
	if cs.Metrics < 0 {
		in.c = NewLRUCache(cs.Capacity)
		return in
	}
	m := &CacheMetrics{}
	if cs.Metrics&1 != 0 {
		in.get = &c07Counter{}
		m.GetCall = in.get
	}
	if cs.Metrics&2 != 0 {
		in.put = &c07Counter{}
		m.PutCall = in.put
	}
	if cs.Metrics&4 != 0 {
		in.hit = &c07Counter{}
		m.CacheHit = in.hit
	}
	if cs.Metrics&8 != 0 {
		in.miss = &c07Counter{}
		m.CacheMiss = in.miss
	}
	in.c = NewLRUCache(cs.Capacity, WithCacheMetrics(m))
	return in
}

// c07Apply applies one op; panics are converted into an error string.
func c07Apply(c *LRUCache, op c07Op, bm *roaring.Bitmap) (got *roaring.Bitmap, found bool, panicked string) {
	defer func() {
		if r := recover(); r != nil {
			panicked = fmt.Sprint(r)
		}
	}()
	if op.Op == "put" {
		c.Put(op.Key, bm)
		return nil, false, ""
	}
	got, found = c.Get(op.Key)
	return got, found, ""
}

// c07Probe replays ops[0:n] on a fresh replica and returns the retrievable entries.
func c07Probe(cs *c07Case, bms []*roaring.Bitmap, n int, keys []uint64) (map[uint64]*roaring.Bitmap, string) {
	in := c07New(&c07Case{Capacity: cs.Capacity, Metrics: -1})
	for i := 0; i < n; i++ {
		if _, _, p := c07Apply(in.c, cs.Ops[i], bms[i]); p != "" {
			return nil, p
		}
	}
	res := map[uint64]*roaring.Bitmap{}
	for _, k := range keys {
		bm, found, p := c07Apply(in.c, c07Op{Op: "get", Key: k}, nil)
		if p != "" {
			return nil, p
		}
		if found {
			res[k] = bm
		}
	}
	return res, ""
}

type c07Info struct{ evictions, hits, overwrites int }

func c07Describe(m map[uint64]*roaring.Bitmap) map[string]interface{} {
	out := map[string]interface{}{}
	for k, bm := range m {
		if bm == nil {
			out[strconv.FormatUint(k, 10)] = "nil bitmap"
			continue
		}
		out[strconv.FormatUint(k, 10)] = map[string]interface{}{"size_bytes": bm.GetSizeInBytes(), "cardinality": bm.GetCardinality()}
	}
	return out
}

// c07Check checks one case against the oracle.
func c07Check(cs *c07Case, info *c07Info) *c07Violation {
	viol := func(what string, exp, got interface{}, upto int) *c07Violation {
		in := *cs
		in.Ops = append([]c07Op(nil), cs.Ops[:upto]...)
		in.Bytes = nil
		for _, op := range in.Ops {
			if op.Op == "put" {
				in.Bytes = append(in.Bytes, c07Bitmap(op).GetSizeInBytes())
			} else {
				in.Bytes = append(in.Bytes, 0)
			}
		}
		return &c07Violation{Property: "C07", What: what, Input: in, Expected: exp, Got: got}
	}

	bms := make([]*roaring.Bitmap, len(cs.Ops))
	keySet := map[uint64]bool{}
	for i, op := range cs.Ops {
		keySet[op.Key] = true
		if op.Op == "put" {
			bms[i] = c07Bitmap(op)
		}
	}
	keys := make([]uint64, 0, len(keySet))
	for k := range keySet {
		keys = append(keys, k)
	}
	sort.Slice(keys, func(i, j int) bool { return keys[i] < keys[j] })

	main := c07New(cs)
	latest := map[uint64]*roaring.Bitmap{} // most recent Put per key
	lastUse := map[uint64]int{}            // op index of the last use (Put or Get hit)
	prev := map[uint64]*roaring.Bitmap{}   // retrievable set before the op
	var nGet, nPut, nHit, nMiss int64

	for i, op := range cs.Ops {
		got, found, p := c07Apply(main.c, op, bms[i])
		if p != "" {
			return viol(fmt.Sprintf("operation %d (%s key %d) panicked", i, op.Op, op.Key), "no panic", p, i+1)
		}
		next, p := c07Probe(cs, bms, i+1, keys)
		if p != "" {
			return viol(fmt.Sprintf("panic while replaying the first %d operations and probing all keys with Get", i+1), "no panic", p, i+1)
		}

		if op.Op == "put" {
			nPut++
			latest[op.Key] = bms[i]
			if _, ok := prev[op.Key]; ok {
				info.overwrites++
			}
		} else {
			nGet++
			_, expFound := prev[op.Key]
			if found != expFound {
				return viol(fmt.Sprintf("operation %d: Get(%d) found=%v, but probing a replica after the same %d preceding operations says found=%v", i, op.Key, found, i, expFound),
					expFound, found, i+1)
			}
			if found {
				nHit++
				info.hits++
				if got == nil || !got.Equals(latest[op.Key]) {
					return viol(fmt.Sprintf("operation %d: Get(%d) hit does not return the bitmap most recently Put under that key", i, op.Key),
						c07Describe(map[uint64]*roaring.Bitmap{op.Key: latest[op.Key]}), c07Describe(map[uint64]*roaring.Bitmap{op.Key: got}), i+1)
				}
			} else {
				nMiss++
			}
		}

		// (hit)/(nospook): everything retrievable now holds the most recent bitmap of its key and was there before (or was just Put).
		for _, k := range keys {
			bm, ok := next[k]
			if !ok {
				continue
			}
			if _, was := prev[k]; !was && !(op.Op == "put" && op.Key == k) {
				return viol(fmt.Sprintf("after operation %d key %d is retrievable although it was not retrievable before and was not just Put", i, k), "miss", "hit", i+1)
			}
			if bm == nil || !bm.Equals(latest[k]) {
				return viol(fmt.Sprintf("after operation %d (%s key %d) Get(%d) hits but does not return the bitmap most recently Put under key %d", i, op.Op, op.Key, k, k),
					c07Describe(map[uint64]*roaring.Bitmap{k: latest[k]}), c07Describe(map[uint64]*roaring.Bitmap{k: bm}), i+1)
			}
		}

		// (lru): whatever disappeared (other than the op's own key) was used less recently than every other survivor.
		for _, e := range keys {
			if _, was := prev[e]; !was || e == op.Key {
				continue
			}
			if _, still := next[e]; still {
				continue
			}
			info.evictions++
			for _, s := range keys {
				if _, still := next[s]; !still || s == op.Key {
					continue
				}
				if _, was := prev[s]; !was {
					continue
				}
				if lastUse[e] > lastUse[s] {
					return viol(fmt.Sprintf("operation %d (%s key %d) evicted key %d (last used by operation %d) but kept key %d (last used earlier, by operation %d): not least-recently-used order",
						i, op.Op, op.Key, e, lastUse[e], s, lastUse[s]),
						fmt.Sprintf("key %d evicted before key %d", s, e), fmt.Sprintf("key %d evicted, key %d retrievable", e, s), i+1)
				}
			}
		}

		// (noevict): everything stored fits comfortably => nothing disappears.
		stored := map[uint64]*roaring.Bitmap{}
		for k := range prev {
			stored[k] = latest[k]
		}
		if op.Op == "put" {
			stored[op.Key] = bms[i]
		}
		var comfy uint64
		for _, bm := range stored {
			comfy += bm.GetSizeInBytes() + c07Slack
		}
		if comfy <= cs.Capacity {
			for _, k := range keys {
				if _, want := stored[k]; !want {
					continue
				}
				if _, ok := next[k]; !ok {
					return viol(fmt.Sprintf("operation %d (%s key %d) made key %d unretrievable although all stored bitmaps plus %d bytes of slack each need only %d of %d bytes",
						i, op.Op, op.Key, k, c07Slack, comfy, cs.Capacity), "key "+strconv.FormatUint(k, 10)+" retrievable", "miss", i+1)
				}
			}
		}

		if op.Op == "put" {
			// (fits)
			if bms[i].GetSizeInBytes()+c07Slack <= cs.Capacity {
				if _, ok := next[op.Key]; !ok {
					return viol(fmt.Sprintf("operation %d: Put(%d) of a %d byte bitmap into a cache of %d bytes is not retrievable right after the Put",
						i, op.Key, bms[i].GetSizeInBytes(), cs.Capacity), "hit", "miss", i+1)
				}
			}
			// (bound)
			var sum uint64
			for _, bm := range next {
				sum += bm.GetSizeInBytes()
			}
			if sum > cs.Capacity {
				return viol(fmt.Sprintf("after operation %d (Put key %d, %d bytes) the retrievable bitmaps occupy %d bytes, more than the configured maximum of %d bytes",
					i, op.Key, bms[i].GetSizeInBytes(), sum, cs.Capacity),
					fmt.Sprintf("sum of GetSizeInBytes of retrievable bitmaps <= %d", cs.Capacity),
					map[string]interface{}{"sum_bytes": sum, "retrievable": c07Describe(next)}, i+1)
			}
		}

		// (counters)
		type cnt struct {
			name string
			c    *c07Counter
			want int64
		}
		for _, c := range []cnt{{"GetCall", main.get, nGet}, {"PutCall", main.put, nPut}, {"CacheHit", main.hit, nHit}, {"CacheMiss", main.miss, nMiss}} {
			if c.c != nil && c.c.n != c.want {
				return viol(fmt.Sprintf("after operation %d the %s counter is wrong", i, c.name), c.want, c.c.n, i+1)
			}
		}

		if op.Op == "put" || found {
			lastUse[op.Key] = i
		}
		prev = next
	}
	return nil
}

// c07Shrink greedily removes operations while some violation persists.
func c07Shrink(cs c07Case) (c07Case, *c07Violation) {
	v := c07Check(&cs, &c07Info{})
	if v == nil {
		return cs, nil
	}
	cur := v.Input // already cut after the failing op
	cur.Bytes = nil
	for changed := true; changed; {
		changed = false
		for i := len(cur.Ops) - 1; i >= 0; i-- {
			cand := cur
			cand.Ops = append(append([]c07Op(nil), cur.Ops[:i]...), cur.Ops[i+1:]...)
			if v2 := c07Check(&cand, &c07Info{}); v2 != nil {
				cur = v2.Input
				cur.Bytes = nil
				v = v2
				changed = true
				break
			}
		}
	}
	return cur, v
}

func c07WriteJSON(path string, v interface{}) {
	if path == "" {
		return
	}
	b, _ := json.Marshal(v)
	_ = os.WriteFile(path, b, 0o644)
}

func TestVerifHarnessC07(t *testing.T) {
	bound := os.Getenv("VERIF_BOUND")
	if bound == "" {
		bound = "quick"
	}
	seed := int64(1)
	if s, err := strconv.ParseInt(os.Getenv("VERIF_SEED"), 10, 64); err == nil {
		seed = s
	}
	var cases, nontrivial int64
	boundText := ""
	exhaustive := false
	defer func() {
		c07WriteJSON(os.Getenv("VERIF_STATS"), map[string]interface{}{"cases": cases, "distinct_nontrivial": nontrivial, "bound": boundText, "exhaustive": exhaustive})
	}()
	fail := func(v *c07Violation) {
		c07WriteJSON(os.Getenv("VERIF_OUT"), v)
		b, _ := json.Marshal(v)
		t.Fatalf("C07 violation: %s\n%s", v.What, b)
	}

	if os.Getenv("VERIF_MODE") == "replay" {
		raw, err := os.ReadFile(os.Getenv("VERIF_CASE"))
		if err != nil {
			t.Fatalf("cannot read VERIF_CASE: %v", err)
		}
		var wrap struct {
			Input *c07Case `json:"input"`
		}
		var cs c07Case
		if err := json.Unmarshal(raw, &wrap); err == nil && wrap.Input != nil {
			cs = *wrap.Input
		} else if err := json.Unmarshal(raw, &cs); err != nil {
			t.Fatalf("cannot parse VERIF_CASE: %v", err)
		}
		boundText = "replay of one case"
		cases = 1
		info := &c07Info{}
		if v := c07Check(&cs, info); v != nil {
			fail(v)
		}
		nontrivial = 1
		return
	}

	// ---------------------------------------------------------------- phase 1: exhaustive short sequences
	// the first six are also used for the longest sequence length
	caps := []uint64{400, 0, 100, 1000, 9000, 1 << 20, 8, 72, 84, 200, 300, 20000, math.MaxUint64}
	keys := []uint64{1, 2, 3}
	classes := []int{0, 4, 100, 5000} // 12 B, 20 B, 212 B, 8204 B (with marker)
	maxLen := 5
	if bound == "thorough" {
		maxLen = 6
	}
	type alpha struct {
		op  string
		key uint64
		n   int
	}
	var alphabet []alpha
	for _, k := range keys {
		for _, n := range classes {
			alphabet = append(alphabet, alpha{"put", k, n})
		}
	}
	for _, k := range keys {
		alphabet = append(alphabet, alpha{"get", k, 0})
	}
	// pre-create all bitmaps so that workers only read them
	for pos := 1; pos <= maxLen; pos++ {
		for _, n := range classes {
			c07Bitmap(c07Op{Op: "put", N: n, Tag: pos})
		}
	}

	deadline := time.Now().Add(14 * time.Second)
	if bound == "thorough" {
		deadline = time.Now().Add(200 * time.Second)
	}

	type found struct {
		order int64
		v     *c07Violation
	}
	var mu sync.Mutex
	var first *found
	report := func(order int64, v *c07Violation) {
		mu.Lock()
		if first == nil || order < first.order {
			first = &found{order, v}
		}
		mu.Unlock()
	}

	truncated := false
	runLen := func(L int, nCaps int) {
		total := 1
		for i := 0; i < L; i++ {
			total *= len(alphabet)
		}
		// canonical key order: keys must first appear in the order 1,2,3 (symmetry reduction, keys are opaque)
		type job struct{ lo, hi int }
		jobs := make(chan job, 64)
		var wg sync.WaitGroup
		for w := 0; w < 16; w++ {
			wg.Add(1)
			go func() {
				defer wg.Done()
				ops := make([]c07Op, L)
				for jb := range jobs {
					for idx := jb.lo; idx < jb.hi; idx++ {
						x := idx
						nextKey := uint64(1)
						canon := true
						for p := L - 1; p >= 0; p-- {
							a := alphabet[x%len(alphabet)]
							x /= len(alphabet)
							ops[p] = c07Op{Op: a.op, Key: a.key, N: a.n, Tag: p + 1}
							if a.op == "get" {
								ops[p].Tag = 0
							}
						}
						for p := 0; p < L; p++ {
							if ops[p].Key > nextKey {
								canon = false
								break
							}
							if ops[p].Key == nextKey {
								nextKey++
							}
						}
						if !canon {
							continue
						}
						for ci, c := range caps[:nCaps] {
							cs := &c07Case{Capacity: c, Metrics: 15, Ops: ops}
							info := &c07Info{}
							v := c07Check(cs, info)
							atomic.AddInt64(&cases, 1)
							if info.evictions > 0 || info.overwrites > 0 {
								atomic.AddInt64(&nontrivial, 1)
							}
							if v != nil {
								report(int64(idx)*int64(len(caps))+int64(ci), v)
							}
						}
					}
				}
			}()
		}
		chunk := 2048
		for lo := 0; lo < total; lo += chunk {
			mu.Lock()
			stop := first != nil
			mu.Unlock()
			if stop {
				break
			}
			if L == maxLen && time.Now().After(deadline) {
				truncated = true
				break
			}
			hi := lo + chunk
			if hi > total {
				hi = total
			}
			jobs <- job{lo, hi}
		}
		close(jobs)
		wg.Wait()
	}

	done := 0
	for L := 1; L <= maxLen; L++ {
		t0 := time.Now()
		nCaps := len(caps)
		if L == maxLen {
			nCaps = 6
		}
		runLen(L, nCaps)
		t.Logf("exhaustive length %d done in %v (cases so far %d)", L, time.Since(t0), atomic.LoadInt64(&cases))
		if first != nil {
			fail(first.v)
		}
		done = L
	}
	exhaustive = !truncated
	if truncated {
		boundText = "(time limit hit: the longest length was only partly enumerated) "
	}
	boundText += fmt.Sprintf("exhaustive: all Put/Get sequences of length<=%d over 3 keys (canonical first-use order) x 4 bitmap sizes {12,20,212,8204 B} x %d capacities %v, and of length %d x capacities %v, all four counters; ", done-1, len(caps), caps, done, caps[:6])

	// ---------------------------------------------------------------- phase 2: seeded random long sequences
	nRandom := 6000
	maxOps := 120
	if bound == "thorough" {
		nRandom = 30000
		maxOps = 300
	}
	keyPool := []uint64{0, 1, 2, 3, 4, 5, 6, 7, 1 << 63, math.MaxUint64, math.MaxUint64 - 1, 1 << 32}
	capPool := []uint64{0, 1, 8, 50, 72, 100, 150, 250, 400, 700, 1000, 3000, 9000, 17000, 40000, 1 << 20, 1 << 40, math.MaxUint64}
	type rjob struct {
		i  int
		cs c07Case
	}
	rjobs := make(chan rjob, 64)
	var wg sync.WaitGroup
	var ran int64
	for w := 0; w < 16; w++ {
		wg.Add(1)
		go func() {
			defer wg.Done()
			for jb := range rjobs {
				info := &c07Info{}
				cs := jb.cs
				v := c07Check(&cs, info)
				atomic.AddInt64(&cases, 1)
				atomic.AddInt64(&ran, 1)
				if info.evictions > 0 || info.overwrites > 0 {
					atomic.AddInt64(&nontrivial, 1)
				}
				if v != nil {
					report(int64(jb.i), v)
				}
			}
		}()
	}
	rng := rand.New(rand.NewSource(seed))
	for i := 0; i < nRandom; i++ {
		mu.Lock()
		stop := first != nil
		mu.Unlock()
		if stop || time.Now().After(deadline) {
			break
		}
		nk := 2 + rng.Intn(6)
		ks := make([]uint64, nk)
		for j := range ks {
			ks[j] = keyPool[rng.Intn(len(keyPool))]
		}
		cs := c07Case{Capacity: capPool[rng.Intn(len(capPool))]}
		if rng.Intn(4) == 0 {
			cs.Capacity = uint64(rng.Intn(20000))
		}
		switch rng.Intn(4) {
		case 0:
			cs.Metrics = -1
		case 1:
			cs.Metrics = rng.Intn(16)
		default:
			cs.Metrics = 15
		}
		n := 5 + rng.Intn(maxOps-4)
		for j := 0; j < n; j++ {
			k := ks[rng.Intn(nk)]
			if rng.Intn(5) < 2 {
				cs.Ops = append(cs.Ops, c07Op{Op: "get", Key: k})
				continue
			}
			op := c07Op{Op: "put", Key: k, Tag: j + 1}
			switch rng.Intn(8) {
			case 0:
				op.N = 0
				if rng.Intn(2) == 0 {
					op.Tag = 0 // the empty bitmap (8 bytes), the smallest there is
				}
			case 1, 2:
				op.N = rng.Intn(20)
			case 3, 4:
				op.N = rng.Intn(300)
			case 5:
				op.N = rng.Intn(6000)
			case 6:
				op.N = rng.Intn(40)
				op.Stride = 70000 // one container per value
			default:
				op.N = int(cs.Capacity%20000)/2 - 8 + rng.Intn(16) // around the capacity
				if op.N < 0 {
					op.N = 0
				}
			}
			cs.Ops = append(cs.Ops, op)
		}
		rjobs <- rjob{i, cs}
	}
	close(rjobs)
	wg.Wait()
	t.Logf("random phase: %d sequences, finished %v before the deadline", ran, time.Until(deadline))
	if first != nil {
		_, v := c07Shrink(first.v.Input)
		if v == nil {
			v = first.v
		}
		fail(v)
	}
	boundText += fmt.Sprintf("random (seed %d): %d sequences of 5..%d operations over 2..7 keys from %v, bitmap sizes 8 B..>8 KB incl. multi-container and capacity-sized, capacities from %v or random <20000, counters all/some/none",
		seed, ran, maxOps, keyPool, capPool)
}
