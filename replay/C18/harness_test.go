package updog

// Real-code harness for property C18 (concurrent AddRow calls lose, duplicate and mix nothing).
//
// Runs under the Go race detector (marker file "race").  A missing/narrowed writer lock can abort the process
// ("fatal error: concurrent map writes" is not recoverable), so every scenario runs in a CHILD process (the test
// binary re-executed with VERIF_C18_CHILD set, GORACE=halt_on_error=1); the parent classifies the outcome:
// race report / fatal error / panic / hang / oracle mismatch recorded by the child.
//
// Scenario: writer in {IndexWriter, BigIndexWriter}, G goroutines, N rows.  Row i carries the unique value
// tag="t<i>" plus c1, c2 and (every third row) c3.  Goroutine g adds the rows i with i%G==g after a common start
// signal and records the id AddRow returned for each row.  Oracle (child, after all goroutines finished + Flush):
//   (ids)     no AddRow returned an error; the returned ids are exactly {0..N-1};
//   (probes)  on the flushed index: count(NOT tag="<absent>")=N (row total), count(tag=t_i)=1,
//             count(tag=t_i AND col=val)=1 for every value of row i, count(tag=t_i AND all its values)=1,
//             count(col=val)=number of rows that carry it, GetSchema = the columns/values added;
//   (same)    the "data" bucket of the flushed file equals (same keys; bitmaps compared as sets, schema decoded,
//             next row id bytewise) the bucket obtained by inserting the same rows from ONE goroutine in the order
//             of the returned ids with the same writer type.

import (
	"bytes"
	"context"
	"encoding/gob"
	"encoding/json"
	"fmt"
	"os"
	"os/exec"
	"path/filepath"
	"reflect"
	"sort"
	"strconv"
	"strings"
	"sync"
	"testing"
	"time"

	"github.com/RoaringBitmap/roaring"
	"go.etcd.io/bbolt"
)

type c18Scenario struct {
	Writer     string `json:"writer"` // "mem" (IndexWriter) | "big" (BigIndexWriter)
	Goroutines int    `json:"goroutines"`
	Rows       int    `json:"rows"`
	Seed       int64  `json:"seed"` // varies the column values of the rows
}

type c18Result struct {
	Ran        string   `json:"ran"`
	Problems   []string `json:"problems,omitempty"`
	Expected   string   `json:"expected,omitempty"`
	HarnessErr string   `json:"harness_error,omitempty"`
}

type c18Violation struct {
	Property string      `json:"property"`
	What     string      `json:"what"`
	Input    c18Scenario `json:"input"`
	Expected interface{} `json:"expected"`
	Got      interface{} `json:"got"`
}

func (sc c18Scenario) describe() string {
	w := "IndexWriter"
	if sc.Writer == "big" {
		w = "BigIndexWriter"
	}
	return fmt.Sprintf("%d goroutines adding %d uniquely tagged rows (row i by goroutine i%%%d) to one %s, then Flush (seed %d)", sc.Goroutines, sc.Rows, sc.Goroutines, w, sc.Seed)
}

func c18Row(i int, seed int64) map[string]string {
	s := int(seed % 97)
	r := map[string]string{
		"tag": "t" + strconv.Itoa(i),
		"c1":  "v" + strconv.Itoa((i+s)%7),
		"c2":  "w" + strconv.Itoa(((i+2*s)/7)%5),
	}
	if i%3 == 0 {
		r["c3"] = "x" + strconv.Itoa((i/3+s)%2)
	}
	return r
}

type c18Writer interface {
	AddRow(values map[string]string) (uint32, error)
}

// c18Open creates a writer on a new file; finish flushes and closes everything.
func c18Open(kind, file string) (w c18Writer, finish func() error, err error) {
	if kind == "mem" {
		iw := NewIndexWriter(file)
		return iw, iw.Flush, nil
	}
	db, err := bbolt.Open(file, 0o644, &bbolt.Options{Timeout: 10 * time.Second})
	if err != nil {
		return nil, nil, err
	}
	tmp, err := bbolt.Open(file+".tmp", 0o644, &bbolt.Options{Timeout: 10 * time.Second})
	if err != nil {
		db.Close()
		return nil, nil, err
	}
	bw, err := NewBigIndexWriter(db, tmp)
	if err != nil {
		db.Close()
		tmp.Close()
		return nil, nil, err
	}
	return bw, func() error {
		ferr := bw.Flush()
		e1 := tmp.Close()
		e2 := db.Close()
		if ferr != nil {
			return ferr
		}
		if e1 != nil {
			return e1
		}
		return e2
	}, nil
}

type c18Bucket struct {
	values map[string]*roaring.Bitmap
	nextID []byte
	schema map[string][]string // column -> sorted values
	hashes map[string]uint64   // "col\x00val" -> value index recorded in the schema
	others []string
}

func c18ReadBucket(file string) (*c18Bucket, error) {
	db, err := bbolt.Open(file, 0o600, &bbolt.Options{ReadOnly: true, Timeout: 10 * time.Second})
	if err != nil {
		return nil, err
	}
	defer db.Close()
	out := &c18Bucket{values: map[string]*roaring.Bitmap{}, schema: map[string][]string{}, hashes: map[string]uint64{}}
	err = db.View(func(tx *bbolt.Tx) error {
		b := tx.Bucket([]byte("data"))
		if b == nil {
			return fmt.Errorf("no data bucket")
		}
		return b.ForEach(func(k, v []byte) error {
			switch {
			case len(k) == 9 && k[0] == 'V':
				bm := roaring.New()
				if err := bm.UnmarshalBinary(append([]byte(nil), v...)); err != nil {
					return fmt.Errorf("value %x: %w", k, err)
				}
				out.values[string(k)] = bm
			case string(k) == "I":
				out.nextID = append([]byte(nil), v...)
			case string(k) == "S":
				var sch struct {
					Columns map[string]*struct{ Values map[string]uint64 }
				}
				if err := gob.NewDecoder(bytes.NewReader(v)).Decode(&sch); err != nil {
					return fmt.Errorf("schema: %w", err)
				}
				for c, col := range sch.Columns {
					out.schema[c] = []string{}
					if col == nil {
						continue
					}
					for val, h := range col.Values {
						out.schema[c] = append(out.schema[c], val)
						out.hashes[c+"\x00"+val] = h
					}
					sort.Strings(out.schema[c])
				}
			default:
				out.others = append(out.others, fmt.Sprintf("%x", k))
			}
			return nil
		})
	})
	return out, err
}

func c18Count(idx *Index, e Expression) (n uint64, problem string) {
	defer func() {
		if r := recover(); r != nil {
			problem = fmt.Sprintf("Execute(%s) panicked: %v", e.String(), r)
		}
	}()
	r, err := idx.Execute(&Query{Expr: e})
	if err != nil {
		return 0, fmt.Sprintf("Execute(%s) failed: %v", e.String(), err)
	}
	return r.Count, ""
}

func c18Child(t *testing.T, scenarioFile string) {
	res := &c18Result{}
	defer func() {
		b, _ := json.Marshal(res)
		_ = os.WriteFile(os.Getenv("VERIF_C18_RESULT"), b, 0o644)
	}()
	raw, err := os.ReadFile(scenarioFile)
	if err != nil {
		res.HarnessErr = err.Error()
		return
	}
	var sc c18Scenario
	if err := json.Unmarshal(raw, &sc); err != nil {
		res.HarnessErr = err.Error()
		return
	}
	res.Ran = sc.describe()
	problem := func(format string, a ...interface{}) {
		if len(res.Problems) < 8 {
			res.Problems = append(res.Problems, fmt.Sprintf(format, a...))
		}
	}
	// data lives below the parent's temp dir: a child aborted by the race detector cannot clean up itself
	dir, err := os.MkdirTemp(os.Getenv("VERIF_C18_DIR"), "child-")
	if err != nil {
		res.HarnessErr = err.Error()
		return
	}
	file := filepath.Join(dir, "concurrent.updog")
	w, finish, err := c18Open(sc.Writer, file)
	if err != nil {
		res.HarnessErr = err.Error()
		return
	}

	n := sc.Rows
	rows := make([]map[string]string, n)
	for i := range rows {
		rows[i] = c18Row(i, sc.Seed)
	}
	ids := make([]uint32, n)
	errs := make([]error, n)
	panics := make([]string, sc.Goroutines)
	var wg sync.WaitGroup
	start := make(chan struct{})
	for g := 0; g < sc.Goroutines; g++ {
		wg.Add(1)
		go func(g int) {
			defer wg.Done()
			defer func() {
				if r := recover(); r != nil {
					panics[g] = fmt.Sprint(r)
				}
			}()
			<-start
			for i := g; i < n; i += sc.Goroutines {
				// the writer gets its own copy of the map
				cp := make(map[string]string, len(rows[i]))
				for k, v := range rows[i] {
					cp[k] = v
				}
				ids[i], errs[i] = w.AddRow(cp)
			}
		}(g)
	}
	close(start)
	wg.Wait()
	for g, p := range panics {
		if p != "" {
			problem("AddRow panicked in goroutine %d: %s", g, p)
		}
	}
	for i, e := range errs {
		if e != nil {
			problem("AddRow of row %d returned an error: %v", i, e)
			break
		}
	}
	if len(res.Problems) > 0 {
		res.Expected = "no panic, no error"
		return
	}
	if err := finish(); err != nil {
		problem("Flush after the concurrent AddRow calls failed: %v", err)
		res.Expected = "Flush succeeds"
		return
	}

	// (ids)
	seen := make(map[uint32]int, n)
	idsOK := true
	for i, id := range ids {
		if j, dup := seen[id]; dup {
			problem("rows %d and %d both got id %d", j, i, id)
			idsOK = false
		}
		seen[id] = i
		if int(id) >= n {
			problem("row %d got id %d, outside 0..%d", i, id, n-1)
			idsOK = false
		}
	}
	if !idsOK {
		res.Expected = fmt.Sprintf("the returned ids are exactly 0..%d, each once", n-1)
		return
	}

	// (probes)
	idx, err := OpenIndex(file, WithPreloadedData())
	if err != nil {
		problem("the flushed index cannot be opened: %v", err)
		res.Expected = "OpenIndex succeeds"
		return
	}
	res.Expected = "total " + strconv.Itoa(n) + ", count(tag=t)=1, count(tag=t AND col=val)=1 for each value of the row, count(col=val)=multiplicity, schema as added"
	if c, p := c18Count(idx, &ExprNot{Expr: &ExprEqual{Column: "tag", Value: "absent"}}); p != "" {
		problem("%s", p)
	} else if c != uint64(n) {
		problem("total row count (NOT tag=absent) is %d, %d rows were added", c, n)
	}
	mult := map[string]uint64{}
	wantSchema := map[string]map[string]bool{}
	for i, r := range rows {
		tagE := &ExprEqual{Column: "tag", Value: r["tag"]}
		if c, p := c18Count(idx, tagE); p != "" {
			problem("%s", p)
		} else if c != 1 {
			problem("count(tag=%s) = %d, want 1 (row %d, id %d)", r["tag"], c, i, ids[i])
		}
		all := &ExprAnd{Exprs: []Expression{tagE}}
		for col, val := range r {
			if wantSchema[col] == nil {
				wantSchema[col] = map[string]bool{}
			}
			wantSchema[col][val] = true
			if col == "tag" {
				continue
			}
			mult[col+"\x00"+val]++
			eq := &ExprEqual{Column: col, Value: val}
			all.Exprs = append(all.Exprs, eq)
			if c, p := c18Count(idx, &ExprAnd{Exprs: []Expression{tagE, eq}}); p != "" {
				problem("%s", p)
			} else if c != 1 {
				problem("count(tag=%s AND %s=%s) = %d, want 1 (row %d, id %d): the row's values are not on one row", r["tag"], col, val, c, i, ids[i])
			}
		}
		if c, p := c18Count(idx, all); p != "" {
			problem("%s", p)
		} else if c != 1 {
			problem("count(%s) = %d, want 1 (row %d, id %d)", all.String(), c, i, ids[i])
		}
		if len(res.Problems) >= 8 {
			break
		}
	}
	for k, m := range mult {
		cv := strings.SplitN(k, "\x00", 2)
		if c, p := c18Count(idx, &ExprEqual{Column: cv[0], Value: cv[1]}); p != "" {
			problem("%s", p)
		} else if c != m {
			problem("count(%s=%s) = %d, but %d rows carry that value", cv[0], cv[1], c, m)
		}
	}
	sch := idx.GetSchema()
	gotSchema := map[string][]string{}
	for _, c := range sch.Columns {
		gotSchema[c.Name] = []string{}
		for _, v := range c.Values {
			gotSchema[c.Name] = append(gotSchema[c.Name], v.Value)
		}
	}
	expSchema := map[string][]string{}
	for c, vs := range wantSchema {
		expSchema[c] = []string{}
		for v := range vs {
			expSchema[c] = append(expSchema[c], v)
		}
		sort.Strings(expSchema[c])
	}
	if !reflect.DeepEqual(gotSchema, expSchema) {
		problem("GetSchema of the flushed index differs from the columns/values added: got %d columns %v", len(gotSchema), c18Keys(gotSchema))
	}
	_ = idx.Close()
	if len(res.Problems) > 0 {
		return
	}

	// (same) sequential insertion in id order with the same writer type
	order := make([]int, n)
	for i, id := range ids {
		order[id] = i
	}
	seqFile := filepath.Join(dir, "sequential.updog")
	sw, sfinish, err := c18Open(sc.Writer, seqFile)
	if err != nil {
		res.HarnessErr = err.Error()
		return
	}
	for pos, i := range order {
		cp := make(map[string]string, len(rows[i]))
		for k, v := range rows[i] {
			cp[k] = v
		}
		id, err := sw.AddRow(cp)
		if err != nil || int(id) != pos {
			res.HarnessErr = fmt.Sprintf("sequential reference insertion: row %d got id %d err %v", pos, id, err)
			return
		}
	}
	if err := sfinish(); err != nil {
		res.HarnessErr = "sequential reference flush: " + err.Error()
		return
	}
	got, err := c18ReadBucket(file)
	if err != nil {
		problem("the data bucket of the concurrently written file cannot be read: %v", err)
		return
	}
	want, err := c18ReadBucket(seqFile)
	if err != nil {
		res.HarnessErr = "reading the sequential reference: " + err.Error()
		return
	}
	res.Expected = "the flushed index equals the one produced by inserting the same rows sequentially in id order"
	if !bytes.Equal(got.nextID, want.nextID) {
		problem("next row id is %x, sequential insertion gives %x", got.nextID, want.nextID)
	}
	if !reflect.DeepEqual(got.schema, want.schema) || !reflect.DeepEqual(got.hashes, want.hashes) {
		problem("stored schema differs from the sequentially built one")
	}
	if !reflect.DeepEqual(got.others, want.others) {
		problem("unexpected keys in the data bucket: %v vs %v", got.others, want.others)
	}
	if len(got.values) != len(want.values) {
		problem("%d value bitmaps stored, sequential insertion stores %d", len(got.values), len(want.values))
	}
	for k, wb := range want.values {
		gb, ok := got.values[k]
		if !ok {
			problem("value bitmap %x is missing", k)
		} else if !gb.Equals(wb) {
			problem("value bitmap %x holds rows %s, sequential insertion gives %s", k, c18Short(gb), c18Short(wb))
		}
		if len(res.Problems) >= 8 {
			break
		}
	}
}

func c18Short(bm *roaring.Bitmap) string {
	s := bm.String()
	if len(s) > 120 {
		s = s[:120] + "..."
	}
	return s
}

func c18Keys(m map[string][]string) []string {
	var ks []string
	for k, v := range m {
		ks = append(ks, fmt.Sprintf("%s(%d values)", k, len(v)))
	}
	sort.Strings(ks)
	return ks
}

// ------------------------------------------------------------------------------------------------ parent side

func c18Excerpt(out string, marker string, maxLines int) string {
	i := strings.Index(out, marker)
	if i < 0 {
		return ""
	}
	lines := strings.Split(out[i:], "\n")
	if len(lines) > maxLines {
		lines = lines[:maxLines]
	}
	return strings.Join(lines, "\n")
}

func c18Tail(s string, n int) string {
	if len(s) > n {
		return s[len(s)-n:]
	}
	return s
}

func c18RunScenario(dir string, n int, sc c18Scenario, timeout time.Duration) (*c18Violation, error) {
	scFile := filepath.Join(dir, fmt.Sprintf("scenario-%d.json", n))
	resFile := filepath.Join(dir, fmt.Sprintf("result-%d.json", n))
	b, _ := json.Marshal(sc)
	if err := os.WriteFile(scFile, b, 0o644); err != nil {
		return nil, err
	}
	ctx, cancel := context.WithTimeout(context.Background(), timeout)
	defer cancel()
	cmd := exec.CommandContext(ctx, os.Args[0], "-test.run=^TestVerifHarnessC18$", "-test.count=1", "-test.timeout=0")
	var env []string
	for _, e := range os.Environ() {
		if strings.HasPrefix(e, "VERIF_OUT=") || strings.HasPrefix(e, "VERIF_STATS=") || strings.HasPrefix(e, "GORACE=") {
			continue
		}
		env = append(env, e)
	}
	cmd.Env = append(env, "VERIF_C18_CHILD="+scFile, "VERIF_C18_RESULT="+resFile, "VERIF_C18_DIR="+dir, "GORACE=halt_on_error=1 exitcode=66 atexit_sleep_ms=0")
	var out bytes.Buffer
	cmd.Stdout, cmd.Stderr = &out, &out
	cmd.WaitDelay = 2 * time.Second
	runErr := cmd.Run()
	output := out.String()
	var res c18Result
	haveRes := false
	if rb, err := os.ReadFile(resFile); err == nil && json.Unmarshal(rb, &res) == nil {
		haveRes = true
	}
	mk := func(what string, exp, got interface{}) *c18Violation {
		return &c18Violation{Property: "C18", What: what + " while running: " + sc.describe(), Input: sc, Expected: exp, Got: got}
	}
	if strings.Contains(output, "WARNING: DATA RACE") {
		return mk("the race detector reported a data race", "no data race", c18Excerpt(output, "WARNING: DATA RACE", 45)), nil
	}
	if strings.Contains(output, "fatal error:") {
		return mk("the process crashed with a Go runtime fatal error", "no crash", c18Excerpt(output, "fatal error:", 30)), nil
	}
	if ctx.Err() != nil {
		return mk(fmt.Sprintf("the scenario did not finish within %v (hang)", timeout), "all AddRow calls and Flush return", "timeout; tail of output: "+c18Tail(output, 1500)), nil
	}
	if haveRes && len(res.Problems) > 0 {
		return mk(res.Problems[0], res.Expected, res.Problems), nil
	}
	if strings.Contains(output, "panic:") && runErr != nil {
		return mk("the process died with a panic", "no panic", c18Excerpt(output, "panic:", 30)), nil
	}
	if runErr != nil || !haveRes {
		return nil, fmt.Errorf("child process failed (%v) without a classifiable outcome; output tail: %s", runErr, c18Tail(output, 2000))
	}
	if res.HarnessErr != "" {
		return nil, fmt.Errorf("child: %s", res.HarnessErr)
	}
	return nil, nil
}

func c18WriteJSON(path string, v interface{}) {
	if path == "" {
		return
	}
	b, _ := json.Marshal(v)
	_ = os.WriteFile(path, b, 0o644)
}

func TestVerifHarnessC18(t *testing.T) {
	if f := os.Getenv("VERIF_C18_CHILD"); f != "" {
		c18Child(t, f)
		return
	}
	bound := os.Getenv("VERIF_BOUND")
	if bound == "" {
		bound = "quick"
	}
	seed := int64(1)
	if s, err := strconv.ParseInt(os.Getenv("VERIF_SEED"), 10, 64); err == nil {
		seed = s
	}
	var cases, nontrivial int64
	boundText := ""
	defer func() {
		c18WriteJSON(os.Getenv("VERIF_STATS"), map[string]interface{}{"cases": cases, "distinct_nontrivial": nontrivial, "bound": boundText, "exhaustive": false})
	}()
	fail := func(v *c18Violation) {
		c18WriteJSON(os.Getenv("VERIF_OUT"), v)
		b, _ := json.Marshal(v)
		t.Fatalf("C18 violation: %s\n%s", v.What, b)
	}
	dir := t.TempDir()

	if os.Getenv("VERIF_MODE") == "replay" {
		raw, err := os.ReadFile(os.Getenv("VERIF_CASE"))
		if err != nil {
			t.Fatalf("cannot read VERIF_CASE: %v", err)
		}
		var wrap struct {
			Input *c18Scenario `json:"input"`
		}
		var sc c18Scenario
		if err := json.Unmarshal(raw, &wrap); err == nil && wrap.Input != nil {
			sc = *wrap.Input
		} else if err := json.Unmarshal(raw, &sc); err != nil {
			t.Fatalf("cannot parse VERIF_CASE: %v", err)
		}
		if sc.Goroutines < 1 || sc.Rows < 0 || (sc.Writer != "mem" && sc.Writer != "big") {
			t.Fatalf("bad scenario %+v", sc)
		}
		boundText = "replay: the scenario of the case, repeated up to 5 times (schedules are not reproducible exactly)"
		for rep := 0; rep < 5; rep++ {
			v, err := c18RunScenario(dir, rep, sc, 120*time.Second)
			cases++
			nontrivial++
			if err != nil {
				t.Fatalf("harness: %v", err)
			}
			if v != nil {
				fail(v)
			}
		}
		return
	}

	var plans []c18Scenario
	add := func(w string, g, n int, s int64) {
		plans = append(plans, c18Scenario{Writer: w, Goroutines: g, Rows: n, Seed: s})
	}
	// cheap and exposed first: many goroutines, few rows each
	add("mem", 8, 400, seed)
	add("big", 8, 400, seed)
	add("big", 8, 1001, seed)
	add("mem", 2, 64, seed)
	add("big", 2, 999, seed)
	add("big", 32, 2100, seed)
	add("big", 4, 1000, seed)
	add("mem", 32, 2100, seed)
	add("big", 3, 1002, seed)
	add("mem", 4, 1000, seed)
	add("big", 16, 40, seed)
	add("mem", 16, 40, seed)
	// the same once more (another schedule, other column values)
	for _, sc := range append([]c18Scenario(nil), plans...) {
		add(sc.Writer, sc.Goroutines, sc.Rows, seed+7)
	}
	if bound == "thorough" {
		for rep := int64(1); rep <= 4; rep++ {
			for _, g := range []int{2, 3, 4, 8, 16, 32} {
				for _, n := range []int{32, 999, 1000, 1001, 1002, 2001, 3100} {
					add("big", g, n, seed+rep)
				}
				for _, n := range []int{32, 1000, 3100} {
					add("mem", g, n, seed+rep)
				}
			}
		}
	}
	budget := 16 * time.Second
	if bound == "thorough" {
		budget = 230 * time.Second
	}
	start := time.Now()
	ran := 0
	for i, sc := range plans {
		if time.Since(start) > budget {
			break
		}
		v, err := c18RunScenario(dir, i, sc, 90*time.Second)
		cases++
		ran++
		nontrivial++
		if err != nil {
			t.Fatalf("harness: scenario %+v: %v", sc, err)
		}
		if v != nil {
			fail(v)
		}
		t.Logf("scenario %d ok after %v: %s", i, time.Since(start), sc.describe())
	}
	boundText = fmt.Sprintf("%d of %d planned scenarios, each in its own race-instrumented child process: writers {IndexWriter, BigIndexWriter} x goroutines %s x row totals %s (both sides of the big writer's 1000-row commit); seed %d; schedules sampled, not enumerated",
		ran, len(plans), map[string]string{"quick": "{2,3,4,8,16,32}", "thorough": "{2,3,4,8,16,32}"}[bound],
		map[string]string{"quick": "{40,64,400,999,1000,1001,1002,2100}", "thorough": "{32,40,64,400,999,1000,1001,1002,2001,2100,3100}"}[bound], seed)
}
