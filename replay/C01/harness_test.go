package updog

// C01 — Total count equals the number of rows satisfying the expression.
//
// Oracle: the rows handed to AddRow are kept in the harness; an expression is evaluated row by row (c01E.sat) and
// the satisfying rows are counted. An expression that tests a column occurring in no row must give (nil, error).
// Every dataset is written through the three writer paths and opened on demand and preloaded.
//
// Case format (VERIF_OUT / VERIF_CASE), key "input":
//   {"dataset": {"rows": [[["col","val"],...], ...]} | {"gen": {"kind","n","seed",...}},
//    "writer": "mem-file"|"mem-db"|"big", "open": "ondemand"|"preloaded",
//    "expr": {"op":"eq","col":..,"val":..} | {"op":"not"|"and"|"or","args":[...]}}      (expr optional: whole battery)
// Strings that are not valid UTF-8 are written as {"hex":"..."}.

import (
	"encoding/json"
	"fmt"
	"math/rand"
	"os"
	"sync"
	"testing"
	"time"
)

type c01Input struct {
	Dataset *c01Dataset `json:"dataset"`
	Writer  string      `json:"writer"`
	Open    string      `json:"open,omitempty"`
	Expr    *c01E       `json:"expr,omitempty"`
}

type c01Exp struct {
	Err   bool   `json:"error"`
	Count uint64 `json:"count"`
}

func c01Oracle(rows []c01Row, cols map[string]map[string]bool, e *c01E) c01Exp {
	if e.usesUnknownColumn(cols) {
		return c01Exp{Err: true}
	}
	var n uint64
	for _, r := range rows {
		if e.sat(r) {
			n++
		}
	}
	return c01Exp{Count: n}
}

// c01Plan is a dataset with its expression battery and the oracle's answers (computed once, shared by all
// writer/open configurations).
type c01Plan struct {
	ds      *c01Dataset
	mkExprs func(rows []c01Row) []*c01E
	once    sync.Once
	rows    []c01Row
	exprs   []*c01E
	exp     []c01Exp
}

func (p *c01Plan) prepare() {
	p.once.Do(func() {
		p.rows = p.ds.materialize()
		p.exprs = p.mkExprs(p.rows)
		cols := c01ColumnValues(p.rows)
		p.exp = make([]c01Exp, len(p.exprs))
		for i, e := range p.exprs {
			p.exp[i] = c01Oracle(p.rows, cols, e)
		}
	})
}

// c01CheckOne executes one expression and compares with the oracle.
func c01CheckOne(idx *Index, e *c01E, exp c01Exp) (what string, got interface{}) {
	res, err, pan := c01Exec(idx, &Query{Expr: e.toExpr()})
	if pan != "" {
		return "Execute panicked", pan
	}
	if exp.Err {
		if err == nil || res != nil {
			g := map[string]interface{}{"error": nil, "result_is_nil": res == nil}
			if err != nil {
				g["error"] = err.Error()
			}
			if res != nil {
				g["count"] = res.Count
			}
			return "a query testing a column that occurs in no row must return an error and no result", g
		}
		return "", nil
	}
	if err != nil {
		return "Execute returned an error for an expression over columns that occur in the data", "error: " + err.Error()
	}
	if res == nil {
		return "Execute returned nil result and nil error", nil
	}
	if res.Count != exp.Count {
		return "total count differs from the number of added rows satisfying the expression", c01Exp{Count: res.Count}
	}
	return "", nil
}

// c01RunConfig builds the dataset with one writer and checks the battery under the given open modes.
func c01RunConfig(st *c01State, p *c01Plan, writer string, opens []string, only *c01E) *c01Viol {
	p.prepare()
	in := func(open string, e *c01E) c01Input {
		return c01Input{Dataset: p.ds.forReport(), Writer: writer, Open: open, Expr: e}
	}
	st.setCur(in("", nil))
	dir, err := os.MkdirTemp(st.scratch, "w")
	if err != nil {
		return &c01Viol{What: "harness: " + err.Error()}
	}
	defer os.RemoveAll(dir)
	b, fl := c01Build(dir, p.rows, writer)
	defer b.closeDB()
	if fl != nil {
		return &c01Viol{What: "the index could not be written for a dataset in the property's domain (" + fl.Stage + " failed), so no count can be obtained",
			Input: in("", nil), Expected: fmt.Sprintf("%d rows are written without error", len(p.rows)), Got: fl.Stage + ": " + fl.Msg}
	}
	for _, open := range opens {
		st.setCur(in(open, nil))
		idx, fl := b.open(open)
		if fl != nil {
			return &c01Viol{What: "the written index could not be opened (" + fl.Stage + ")", Input: in(open, nil), Expected: "index opens", Got: fl.Stage + ": " + fl.Msg}
		}
		for i, e := range p.exprs {
			exp := p.exp[i]
			if only != nil {
				e = only
				exp = c01Oracle(p.rows, c01ColumnValues(p.rows), e)
			}
			what, got := c01CheckOne(idx, e, exp)
			st.count(!exp.Err && exp.Count > 0 && exp.Count < uint64(len(p.rows)))
			if what != "" {
				b.closeIndex(idx)
				return &c01Viol{What: what, Input: in(open, e), Expected: exp, Got: got}
			}
			if only != nil {
				break
			}
		}
		b.closeIndex(idx)
	}
	return nil
}

// ---------------------------------------------------------------------------------------------------------------
// expression batteries

// c01TinyExprs: every expression of depth <= 1 over the atoms a=1,a=2,a=9,b=1,b=2,b=9 (9 is absent from the data),
// the negation of each, seeded random trees of depth <= 4 with arity 1..4, and expressions over the unknown column z.
func c01TinyExprs(seed int64) []*c01E {
	atoms := []*c01E{c01Eq("a", "1"), c01Eq("a", "2"), c01Eq("a", "9"), c01Eq("b", "1"), c01Eq("b", "2"), c01Eq("b", "9")}
	var out []*c01E
	out = append(out, atoms...)
	var l1 []*c01E
	for _, x := range atoms {
		l1 = append(l1, c01Not(x), c01And(x), c01Or(x))
	}
	for _, x := range atoms {
		for _, y := range atoms {
			l1 = append(l1, c01And(x, y), c01Or(x, y))
		}
	}
	out = append(out, l1...)
	for _, x := range l1 {
		out = append(out, c01Not(x))
	}
	z := c01Eq("z", "1")
	out = append(out, z, c01Not(z), c01And(atoms[0], z), c01Or(atoms[0], z), c01And(z, atoms[0]), c01Or(c01Not(atoms[0]), c01Not(z)),
		c01And(atoms[0], c01Or(atoms[3], c01Not(z))))
	rng := rand.New(rand.NewSource(seed))
	for i := 0; i < 200; i++ {
		out = append(out, c01RandExpr(rng, atoms, 2+rng.Intn(3)))
	}
	return out
}

// c01GenExprs: battery for a generated dataset — per column a systematic family (c=v, NOT, universe, empty, double
// negation) and seeded random trees over present and absent values; plus unknown-column expressions.
func c01GenExprs(seed int64, nRandom, maxDepth int) func(rows []c01Row) []*c01E {
	return func(rows []c01Row) []*c01E {
		rng := rand.New(rand.NewSource(seed))
		atoms := c01AtomsFor(rng, rows, 4)
		unknown := c01Eq("\x01no-such-column", "1")
		if len(atoms) == 0 {
			// no column occurs in the data: every expression must fail
			a := c01Eq("a", "1")
			return []*c01E{a, c01Not(a), c01And(a, unknown), c01Or(c01Not(a))}
		}
		var out []*c01E
		seen := map[string]bool{}
		for _, a := range atoms {
			if seen[a.col()] {
				out = append(out, a)
				continue
			}
			seen[a.col()] = true
			out = append(out, a, c01Not(a), c01Or(a, c01Not(a)), c01And(a, c01Not(a)), c01Not(c01Not(a)), c01Not(c01Or(a, c01Not(a))), c01And(a, a), c01Or(a, a, a))
		}
		for i := 0; i < nRandom; i++ {
			out = append(out, c01RandExpr(rng, atoms, 1+rng.Intn(maxDepth)))
		}
		out = append(out, unknown, c01And(atoms[0], c01Not(unknown)), c01Or(atoms[0], unknown))
		// a deep chain: NOT^k and nested unary AND/OR
		deep := atoms[rng.Intn(len(atoms))]
		for i := 0; i < 25; i++ {
			switch i % 3 {
			case 0:
				deep = c01Not(deep)
			case 1:
				deep = c01And(deep)
			default:
				deep = c01Or(deep, atoms[rng.Intn(len(atoms))])
			}
		}
		out = append(out, deep)
		// a wide OR / AND
		var wide []*c01E
		for i := 0; i < 40; i++ {
			wide = append(wide, atoms[rng.Intn(len(atoms))])
		}
		out = append(out, c01Or(wide...), c01Not(c01Or(wide...)), c01And(c01Not(wide[0]), c01Not(wide[1]), c01Not(wide[2])))
		return out
	}
}

func c01Jobs(plans []*c01Plan, perWriter bool) []c01Job {
	var jobs []c01Job
	for _, p := range plans {
		p := p
		if perWriter {
			for _, w := range c01Writers {
				w := w
				jobs = append(jobs, func(st *c01State) *c01Viol { return c01RunConfig(st, p, w, c01Opens, nil) })
			}
			continue
		}
		jobs = append(jobs, func(st *c01State) *c01Viol {
			for _, w := range c01Writers {
				if v := c01RunConfig(st, p, w, c01Opens, nil); v != nil {
					return v
				}
			}
			return nil
		})
	}
	return jobs
}

func TestVerifHarnessC01(t *testing.T) {
	mode, bound, seed := c01Env()
	if mode == "replay" {
		c01Replay(t)
		return
	}
	thorough := bound == "thorough"
	budget := 17 * time.Second
	if thorough {
		budget = 230 * time.Second
	}
	r := c01NewRunner(t, budget)
	// watchdog per job: generous in thorough mode, 30 s in quick mode (a hang is a violation either way)
	jt := func(sec int) time.Duration {
		if !thorough {
			return 30 * time.Second
		}
		return time.Duration(sec) * time.Second
	}
	boundText := ""
	defer func() { r.writeStats(boundText, false) }()

	tinyExprs := c01TinyExprs(seed)
	tinyPlan := func(d *c01Dataset) *c01Plan {
		return &c01Plan{ds: d, mkExprs: func([]c01Row) []*c01E { return tinyExprs }}
	}
	genPlan := func(g c01Gen, nRandom, depth int) *c01Plan {
		gg := g
		return &c01Plan{ds: &c01Dataset{Gen: &gg}, mkExprs: c01GenExprs(seed*7919+g.Seed+int64(g.N), nRandom, depth)}
	}
	rng := rand.New(rand.NewSource(seed))

	// phase 1: every row sequence of length <= L over 9 row types (2 columns, incl. the empty row), all configurations
	L, nRandTiny := 2, 100
	if thorough {
		L, nRandTiny = 3, 6000
	}
	var plans []*c01Plan
	for _, d := range c01TinyDatasets(L) {
		plans = append(plans, tinyPlan(d))
	}
	for _, d := range c01RandomTiny(rng, nRandTiny, L+1, 10) {
		plans = append(plans, tinyPlan(d))
	}
	boundText = fmt.Sprintf("bound=%s seed=%d; all row sequences of length<=%d over 9 row types (cols a,b; values 1,2; empty row) + %d random of length<=10, x %d exprs (all depth<=1, their negations, 200 random depth<=4, unknown column) x 3 writers x 2 open modes", bound, seed, L, nRandTiny, len(tinyExprs))
	if v := r.run("tiny", c01Jobs(plans, false), jt(60)); v != nil {
		c01Report(t, "C01", v)
	}

	// phase 2: arbitrary UTF-8/binary/empty strings as column names (no NUL) and values; wide rows
	plans = nil
	strN := []int{1, 2, 3, 7, 30, 200}
	reps := 2
	if thorough {
		strN = []int{1, 2, 3, 4, 5, 7, 15, 30, 100, 200, 1000, 3000}
		reps = 40
	}
	for rep := 0; rep < reps; rep++ {
		for _, n := range strN {
			plans = append(plans, genPlan(c01Gen{Kind: "strings", N: n, Seed: seed*100 + int64(rep), Trail: rep % 3}, 60, 4))
			plans = append(plans, genPlan(c01Gen{Kind: "wide", N: n, Seed: seed*100 + int64(rep)}, 60, 4))
		}
	}
	boundText += fmt.Sprintf("; 'strings' and 'wide' generated datasets n in %v x %d seeds", strN, reps)
	if v := r.run("strings+wide", c01Jobs(plans, false), jt(60)); v != nil {
		c01Report(t, "C01", v)
	}

	// phase 3: sizes at and around the writer batch (1000) and roaring container boundaries (4096, 65536)
	plans = nil
	sizes := []int{1, 999, 1000, 1001, 1002, 2001, 4095, 4096, 4097}
	if thorough {
		sizes = []int{1, 2, 10, 500, 999, 1000, 1001, 1002, 1999, 2000, 2001, 3000, 4095, 4096, 4097, 8191, 8192, 8193, 10000, 20000, 40000}
	}
	midSeeds := 1
	if thorough {
		midSeeds = 6
	}
	for s := 0; s < midSeeds; s++ {
		for i, n := range sizes {
			trail := 0
			if (i+s)%3 == 1 {
				trail = 1 + i
			}
			plans = append(plans, genPlan(c01Gen{Kind: "mix", N: n, Seed: seed + int64(10*s), Trail: trail}, 40, 4))
			if n > 1 {
				plans = append(plans, genPlan(c01Gen{Kind: "mix", N: n, Seed: seed + 1 + int64(10*s), Trail: n / 2, ID: n <= 3000}, 25, 3))
			}
		}
	}
	boundText += fmt.Sprintf("; 'mix' datasets (run/dense/sparse/1300-value/uniform/block columns, 3%% empty rows, trailing empty rows) n in %v", sizes)
	if v := r.run("batch+container boundaries", c01Jobs(plans, true), jt(120)); v != nil {
		c01Report(t, "C01", v)
	}

	// phase 4: large
	plans = nil
	big := []int{150000, 70001, 65537, 65536, 65535}
	nRandom, bigSeeds := 25, 1
	if thorough {
		big = []int{160001, 150000, 131073, 131072, 131071, 100000, 70001, 65538, 65537, 65536, 65535}
		nRandom, bigSeeds = 80, 4
	}
	for s := 0; s < bigSeeds; s++ {
		for i, n := range big {
			trail := 0
			if (i+s)%2 == 1 {
				trail = 3 + 1000*s
			}
			plans = append(plans, genPlan(c01Gen{Kind: "mix", N: n, Seed: seed + 2 + int64(s), Trail: trail}, nRandom, 4))
		}
	}
	boundText += fmt.Sprintf("; large 'mix' datasets n in %v (all three writers, both open modes)", big)
	if v := r.run("large", c01Jobs(plans, true), jt(200)); v != nil {
		c01Report(t, "C01", v)
	}
}

func c01Replay(t *testing.T) {
	raw, err := os.ReadFile(os.Getenv("VERIF_CASE"))
	if err != nil {
		t.Fatalf("replay: cannot read VERIF_CASE: %v", err)
	}
	var wrap struct {
		Input *json.RawMessage `json:"input"`
	}
	if err := json.Unmarshal(raw, &wrap); err == nil && wrap.Input != nil {
		raw = *wrap.Input
	}
	var in c01Input
	if err := json.Unmarshal(raw, &in); err != nil {
		t.Fatalf("replay: cannot parse case: %v", err)
	}
	if in.Dataset == nil {
		t.Fatalf("replay: case has no dataset")
	}
	if in.Expr != nil {
		if err := in.Expr.valid(); err != nil {
			t.Fatalf("replay: bad expression: %v", err)
		}
	}
	r := c01NewRunner(t, 280*time.Second)
	defer func() { r.writeStats("replay of one case", false) }()
	writers := c01Writers
	if in.Writer != "" {
		writers = []string{in.Writer}
	}
	opens := c01Opens
	if in.Open != "" {
		opens = []string{in.Open}
	}
	_, _, seed := c01Env()
	p := &c01Plan{ds: in.Dataset, mkExprs: c01GenExprs(seed, 60, 4)}
	var jobs []c01Job
	for _, w := range writers {
		w := w
		jobs = append(jobs, func(st *c01State) *c01Viol { return c01RunConfig(st, p, w, opens, in.Expr) })
	}
	if v := r.run("replay", jobs, 250*time.Second); v != nil {
		c01Report(t, "C01", v)
	}
}
