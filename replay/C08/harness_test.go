package updog

// C08 — Executing a query does not change what the Query value means.
//
// One *Query value is executed along a sequence of indexes (the same index repeatedly and/or different ones). At every
// step the result of the re-used Query is compared with the result of a freshly constructed equal Query executed on
// the same index (same error-ness, same total count, same groups: tuples, column names, counts, order), and the
// caller-visible fields Expr and GroupBy are compared with a pristine copy (reflect.DeepEqual, pointer identity of
// Expr). The fresh query is the reference demanded by the property statement; no further oracle is needed.
// Queries include unknown columns in the expression or the group-by list (error results) so that failed executions
// are part of the histories.
//
// Case format (VERIF_OUT / VERIF_CASE), key "input":
//   {"indexes": [{"dataset": {...}, "writer": "mem-file"|"mem-db"|"big", "open": "ondemand"|"preloaded"}, ...],
//    "expr": {...}, "group_by": ["col",...] | null, "sequence": [i0, i1, ...]}   (indices into "indexes")
// Strings that are not valid UTF-8 are written as {"hex":"..."}.

import (
	"encoding/json"
	"fmt"
	"math/rand"
	"os"
	"reflect"
	"sync/atomic"
	"testing"
	"time"
)

type c08IndexSpec struct {
	Dataset *c08Dataset `json:"dataset"`
	Writer  string      `json:"writer"`
	Open    string      `json:"open"`
}

type c08Input struct {
	Indexes  []c08IndexSpec `json:"indexes"`
	Expr     *c08E          `json:"expr"`
	GroupBy  []c08S         `json:"group_by"`
	Sequence []int          `json:"sequence"`
}

type c08Query struct {
	e    *c08E
	list []string // nil = no group-by
}

type c08Group struct {
	Fields [][2]c08S `json:"fields"`
	Count  uint64    `json:"count"`
}

type c08Outcome struct {
	Step   int        `json:"step"` // position in the sequence
	Error  *string    `json:"error"`
	Panic  string     `json:"panic,omitempty"`
	Count  *uint64    `json:"count,omitempty"`
	Groups []c08Group `json:"groups,omitempty"`
	NGroup int        `json:"n_groups"`
}

func c08OutcomeOf(step int, res *Result, err error, pan string) c08Outcome {
	o := c08Outcome{Step: step, Panic: pan}
	if err != nil {
		s := err.Error()
		o.Error = &s
	}
	if res != nil {
		c := res.Count
		o.Count = &c
		o.NGroup = len(res.Groups)
		for i, g := range res.Groups {
			if i >= 12 {
				break
			}
			f := make([][2]c08S, len(g.Fields))
			for k, x := range g.Fields {
				f[k] = [2]c08S{c08S(x.Column), c08S(x.Value)}
			}
			o.Groups = append(o.Groups, c08Group{Fields: f, Count: g.Count})
		}
	}
	return o
}

// c08Same: same result in the sense of the property (error-ness, count, groups).
func c08Same(a *Result, aerr error, b *Result, berr error) bool {
	if (aerr == nil) != (berr == nil) {
		return false
	}
	if (a == nil) != (b == nil) {
		return false
	}
	if a == nil {
		return true
	}
	if a.Count != b.Count || len(a.Groups) != len(b.Groups) {
		return false
	}
	for i := range a.Groups {
		x, y := a.Groups[i], b.Groups[i]
		if x.Count != y.Count || len(x.Fields) != len(y.Fields) {
			return false
		}
		for k := range x.Fields {
			if x.Fields[k] != y.Fields[k] {
				return false
			}
		}
	}
	return true
}

func c08CopyList(l []string) []string {
	if l == nil {
		return nil
	}
	return append([]string{}, l...)
}

// c08RunSequence executes one Query value along the sequence. idx[i] are open indexes.
func c08RunSequence(st *c08State, idx []*Index, q c08Query, seq []int, mkIn func() c08Input) *c08Viol {
	orig := q.e.toExpr()
	reused := &Query{Expr: orig, GroupBy: c08CopyList(q.list)}
	pristineExpr := q.e.toExpr()
	pristineList := c08CopyList(q.list)
	for step, i := range seq {
		fres, ferr, fpan := c08Exec(idx[i], &Query{Expr: q.e.toExpr(), GroupBy: c08CopyList(q.list)})
		rres, rerr, rpan := c08Exec(idx[i], reused)
		st.count(step > 0 && len(q.list) > 0)
		if fpan != "" {
			// the fresh query itself panics: outside C08 (nothing to compare with)
			return nil
		}
		if rpan != "" {
			return &c08Viol{What: fmt.Sprintf("execution #%d of a re-used Query panicked while a fresh equal query on the same index returns normally", step+1),
				Input: mkIn(), Expected: c08OutcomeOf(step, fres, ferr, ""), Got: c08OutcomeOf(step, nil, nil, rpan)}
		}
		if !c08Same(fres, ferr, rres, rerr) {
			return &c08Viol{What: fmt.Sprintf("execution #%d of a re-used Query returned a different result than a freshly constructed equal query on the same index", step+1),
				Input: mkIn(), Expected: c08OutcomeOf(step, fres, ferr, ""), Got: c08OutcomeOf(step, rres, rerr, "")}
		}
		if reused.Expr != orig || !reflect.DeepEqual(reused.Expr, pristineExpr) {
			return &c08Viol{What: fmt.Sprintf("execution #%d changed the Expr field of the Query", step+1), Input: mkIn(), Expected: pristineExpr.String(), Got: fmt.Sprint(reused.Expr)}
		}
		if !reflect.DeepEqual(reused.GroupBy, pristineList) {
			return &c08Viol{What: fmt.Sprintf("execution #%d changed the GroupBy field of the Query", step+1), Input: mkIn(), Expected: pristineList, Got: reused.GroupBy}
		}
	}
	return nil
}

// c08Pool builds and opens the indexes of a job (each in its own files).
type c08Pool struct {
	specs []c08IndexSpec
	built []*c08Built
	idx   []*Index
}

func c08OpenPool(st *c08State, specs []c08IndexSpec) (*c08Pool, *c08Viol) {
	p := &c08Pool{specs: specs}
	for _, s := range specs {
		dir, err := os.MkdirTemp(st.scratch, "i")
		if err != nil {
			return p, &c08Viol{What: "harness: " + err.Error()}
		}
		b, fl := c08Build(dir, s.Dataset.materialize(), s.Writer)
		p.built = append(p.built, b)
		if fl != nil {
			// not C08's concern (C05 reports writer failures): signalled to the caller as a skipped pool
			return p, &c08Viol{What: "harness precondition: index could not be built: " + fl.Stage + ": " + fl.Msg, Input: s}
		}
		x, fl := b.open(s.Open)
		if fl != nil {
			return p, &c08Viol{What: "harness precondition: index could not be opened: " + fl.Stage + ": " + fl.Msg, Input: s}
		}
		p.idx = append(p.idx, x)
	}
	return p, nil
}

func (p *c08Pool) close() {
	for i, b := range p.built {
		if i < len(p.idx) {
			b.closeIndex(p.idx[i])
		}
		b.closeDB()
	}
}

// c08Minimal rewrites a failing case so that it only names the indexes its sequence uses.
func c08Minimal(specs []c08IndexSpec, q c08Query, seq []int) c08Input {
	remap := map[int]int{}
	in := c08Input{Expr: q.e}
	if q.list != nil {
		in.GroupBy = c08SS(q.list)
	}
	for _, i := range seq {
		if _, ok := remap[i]; !ok {
			remap[i] = len(in.Indexes)
			s := specs[i]
			s.Dataset = s.Dataset.forReport()
			in.Indexes = append(in.Indexes, s)
		}
		in.Sequence = append(in.Sequence, remap[i])
	}
	return in
}

func c08MkJob(specs []c08IndexSpec, queries []c08Query, seqs [][]int) c08Job {
	return func(st *c08State) *c08Viol {
		pool, v := c08OpenPool(st, specs)
		defer pool.close()
		if v != nil {
			// an index that cannot be written or opened is not C08's concern (C05 reports it): skip, note in the stats
			atomic.AddInt64(st.skipped, 1)
			return nil
		}
		for _, q := range queries {
			for _, seq := range seqs {
				q, seq := q, seq
				mk := func() c08Input { return c08Minimal(specs, q, seq) }
				st.setCur(func() interface{} { return mk() })
				if v := c08RunSequence(st, pool.idx, q, seq, mk); v != nil {
					return v
				}
			}
		}
		return nil
	}
}

func c08Sequences(rng *rand.Rand, nIdx int, nTriples, nLong, maxLen int) [][]int {
	var out [][]int
	// every pair first (same index twice comes first), then sampled triples, then longer random histories
	for i := 0; i < nIdx; i++ {
		out = append(out, []int{i, i})
	}
	for i := 0; i < nIdx; i++ {
		for j := 0; j < nIdx; j++ {
			if i != j {
				out = append(out, []int{i, j})
			}
		}
	}
	for i := 0; i < nIdx; i++ {
		out = append(out, []int{i, i, i})
	}
	for k := 0; k < nTriples; k++ {
		out = append(out, []int{rng.Intn(nIdx), rng.Intn(nIdx), rng.Intn(nIdx)})
	}
	for k := 0; k < nLong; k++ {
		n := 4 + rng.Intn(maxLen-3)
		s := make([]int, n)
		for i := range s {
			s[i] = rng.Intn(nIdx)
		}
		out = append(out, s)
	}
	return out
}

func TestVerifHarnessC08(t *testing.T) {
	mode, bound, seed := c08Env()
	if mode == "replay" {
		c08Replay(t)
		return
	}
	thorough := bound == "thorough"
	budget := 17 * time.Second
	if thorough {
		budget = 230 * time.Second
	}
	r := c08NewRunner(t, budget)
	// watchdog per job: generous in thorough mode, 30 s in quick mode (a hang is a violation either way)
	jt := func(sec int) time.Duration {
		if !thorough {
			return 30 * time.Second
		}
		return time.Duration(sec) * time.Second
	}
	boundText := ""
	defer func() { r.writeStats(boundText, false) }()
	rng := rand.New(rand.NewSource(seed))

	// phase 1: a pool of 8 small indexes over columns a,b (different value sets, one lacking column a, one empty, all
	// writer paths and open modes)
	row := func(kv ...string) c08Row {
		r := c08Row{}
		for i := 0; i+1 < len(kv); i += 2 {
			r[kv[i]] = kv[i+1]
		}
		return r
	}
	p0 := c08Explicit([]c08Row{row("a", "1", "b", "1"), row("a", "1", "b", "2"), row("a", "2", "b", "1"), row()})
	p1 := c08Explicit([]c08Row{row("a", "1")})
	p2 := c08Explicit([]c08Row{row("b", "2"), row("b", "1")})
	p3 := c08Explicit([]c08Row{row("a", "3", "b", "1"), row("a", "1", "b", "1"), row("a", "0")})
	p4 := c08Explicit(nil)
	p5 := &c08Dataset{Gen: &c08Gen{Kind: "wide", N: 40, Seed: seed}}
	specs := []c08IndexSpec{
		{p1, "mem-file", "ondemand"}, {p0, "big", "preloaded"}, {p0, "mem-db", "preloaded"}, {p2, "mem-file", "ondemand"},
		{p3, "mem-db", "ondemand"}, {p3, "big", "preloaded"}, {p4, "mem-file", "preloaded"}, {p5, "mem-file", "preloaded"},
	}
	a1, a2, a3, b1, b2, z1 := c08Eq("a", "1"), c08Eq("a", "2"), c08Eq("a", "3"), c08Eq("b", "1"), c08Eq("b", "2"), c08Eq("z", "1")
	atoms := []*c08E{a1, a2, a3, b1, b2}
	exprs := []*c08E{a1, c08Or(a1, c08Not(a1)), b1, c08Not(b2), c08Or(b1, c08Not(b1)), c08And(a1, b1), c08Or(a2, a3, b2), c08Not(c08And(a1, c08Not(b1))), z1, c08Or(a1, z1)}
	nExprRandom := 4
	if thorough {
		nExprRandom = 30
	}
	for i := 0; i < nExprRandom; i++ {
		exprs = append(exprs, c08RandExpr(rng, atoms, 1+rng.Intn(3)))
	}
	lists := [][]string{{"a"}, {"b"}, nil, {}, {"a", "b"}, {"b", "a"}, {"a", "a"}, {"z"}, {"a", "z"}, {"z", "a"}, {"a", "b", "a"}, {"b", "b", "a", "a"}, {"a", "b", "c", "d"}, {"f", "e", "d", "c", "b", "a"}}
	var queries []c08Query
	for _, l := range lists {
		for _, e := range exprs {
			queries = append(queries, c08Query{e: e, list: l})
		}
	}
	nTriples, nLong := 60, 40
	if thorough {
		nTriples, nLong = 512, 600
	}
	seqs := c08Sequences(rng, len(specs), nTriples, nLong, 8)
	var jobs []c08Job
	chunk := 6
	for i := 0; i < len(queries); i += chunk {
		j := i + chunk
		if j > len(queries) {
			j = len(queries)
		}
		jobs = append(jobs, c08MkJob(specs, queries[i:j], seqs))
	}
	boundText = fmt.Sprintf("bound=%s seed=%d; pool of %d small indexes (cols a,b and a 6-column one; all 3 writers, both open modes) x %d queries (%d exprs x %d group-by lists incl. nil, empty, repeated, unknown) x %d sequences (all pairs, all i-i-i, %d random triples, %d random of length 4..8)",
		bound, seed, len(specs), len(queries), len(exprs), len(lists), len(seqs), nTriples, nLong)
	if v := r.run("small pool", jobs, jt(60)); v != nil {
		c08Report(t, "C08", v)
	}

	// phase 2: pools of generated datasets, random queries and histories
	jobs = nil
	nPools := 8
	if thorough {
		nPools = 150
	}
	nGenQ, nGenSeq := 40, 25
	if thorough {
		nGenQ, nGenSeq = 150, 60
	}
	for pi := 0; pi < nPools; pi++ {
		prng := rand.New(rand.NewSource(seed*1000 + int64(pi)))
		kinds := []string{"wide", "mix", "strings", "wide", "mix"}
		sizes := []int{30, 300, 1500, 5000}
		var gspecs []c08IndexSpec
		var allRows []c08Row
		for k := 0; k < 4; k++ {
			g := c08Gen{Kind: kinds[(pi+k)%len(kinds)], N: sizes[prng.Intn(len(sizes))], Seed: seed + int64(pi*10+k), ID: false}
			ds := &c08Dataset{Gen: &g}
			gspecs = append(gspecs, c08IndexSpec{ds, c08Writers[(pi+k)%3], c08Opens[(pi/3+k)%2]})
			rows := ds.materialize()
			if len(rows) > 400 {
				rows = rows[:400]
			}
			allRows = append(allRows, rows...)
		}
		gatoms := c08AtomsFor(prng, allRows, 3)
		cols := c08SortedCols(c08ColumnValues(allRows))
		var gq []c08Query
		for len(gq) < nGenQ {
			e := c08RandExpr(prng, gatoms, prng.Intn(4))
			n := prng.Intn(5)
			var l []string
			for len(l) < n {
				c := cols[prng.Intn(len(cols))]
				if c == "m" && len(l) > 0 {
					continue // keep the number of intersections small
				}
				l = append(l, c)
			}
			gq = append(gq, c08Query{e: e, list: l})
		}
		var gs [][]int
		for len(gs) < nGenSeq {
			n := 2 + prng.Intn(5)
			s := make([]int, n)
			for i := range s {
				s[i] = prng.Intn(len(gspecs))
			}
			gs = append(gs, s)
		}
		jobs = append(jobs, c08MkJob(gspecs, gq, gs))
	}
	boundText += fmt.Sprintf("; %d pools of 4 generated indexes (wide/mix/strings, n in 30..5000) x %d random queries (group-by length 0..4) x %d random histories of length 2..6", nPools, nGenQ, nGenSeq)
	if v := r.run("generated pools", jobs, jt(120)); v != nil {
		c08Report(t, "C08", v)
	}
}

func c08Replay(t *testing.T) {
	raw, err := os.ReadFile(os.Getenv("VERIF_CASE"))
	if err != nil {
		t.Fatalf("replay: cannot read VERIF_CASE: %v", err)
	}
	var wrap struct {
		Input *json.RawMessage `json:"input"`
	}
	if err := json.Unmarshal(raw, &wrap); err == nil && wrap.Input != nil {
		raw = *wrap.Input
	}
	var in c08Input
	if err := json.Unmarshal(raw, &in); err != nil {
		t.Fatalf("replay: cannot parse case: %v", err)
	}
	if len(in.Indexes) == 0 || in.Expr == nil || len(in.Sequence) == 0 {
		t.Fatalf("replay: case needs indexes, expr and sequence")
	}
	if err := in.Expr.valid(); err != nil {
		t.Fatalf("replay: bad expression: %v", err)
	}
	for i := range in.Indexes {
		if in.Indexes[i].Dataset == nil {
			t.Fatalf("replay: index %d has no dataset", i)
		}
		if in.Indexes[i].Writer == "" {
			in.Indexes[i].Writer = "mem-file"
		}
		if in.Indexes[i].Open == "" {
			in.Indexes[i].Open = "ondemand"
		}
	}
	for _, i := range in.Sequence {
		if i < 0 || i >= len(in.Indexes) {
			t.Fatalf("replay: sequence element %d out of range", i)
		}
	}
	r := c08NewRunner(t, 280*time.Second)
	defer func() { r.writeStats("replay of one case", false) }()
	q := c08Query{e: in.Expr, list: c08Strs(in.GroupBy)}
	if v := r.run("replay", []c08Job{c08MkJob(in.Indexes, []c08Query{q}, [][]int{in.Sequence})}, 250*time.Second); v != nil {
		c08Report(t, "C08", v)
	}
}
