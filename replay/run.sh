#!/bin/bash
# run.sh <ID> — runs the real-code harness of property <ID> against the working tree of $VERIF_REPO (default /repo).
# The harness (/verif/replay/<ID>/harness_test.go) is injected into its package with `go test -overlay`; nothing is
# written into the repository. Environment passed through to the harness:
#   VERIF_MODE   search (default) | replay        VERIF_CASE  JSON file to replay (replay mode)
#   VERIF_BOUND  quick (default) | thorough       VERIF_SEED  integer seed (default 1)
#   VERIF_OUT    file that receives the failing case as JSON (default: a temp file, printed on failure)
#   VERIF_HINT   free text (obligation name) that a harness may use to focus its search
# Exit status: 0 = no violation found, 10 = violation found (failing case JSON on stdout), 2 = harness could not be built/run.
set -u
ID="$1"
HERE="$(cd "$(dirname "$0")" && pwd)"
REPO="${VERIF_REPO:-/repo}"
PKG="$(cat "$HERE/$ID/pkg" 2>/dev/null || echo .)"
export GOFLAGS=-mod=mod GOPROXY=off GOSUMDB=off GOTOOLCHAIN=local
TMP="$(mktemp -d)"
trap 'rm -rf "$TMP"' EXIT
OUT="${VERIF_OUT:-$TMP/case.json}"
export VERIF_OUT="$OUT"
export VERIF_STATS="${VERIF_STATS:-$TMP/stats.json}"
rm -f "$OUT"
{
  echo '{"Replace": {'
  first=1
  for f in "$HERE/$ID"/*_test.go; do
    [ -e "$f" ] || continue
    [ $first -eq 1 ] || echo ','
    first=0
    printf '"%s/%s/zz_verif_%s_%s": "%s"' "$REPO" "$PKG" "$ID" "$(basename "$f")" "$f"
  done
  echo '}}'
} > "$TMP/overlay.json"
TO="${VERIF_HARNESS_TIMEOUT:-300s}"
RACE=""
[ -e "$HERE/$ID/race" ] && RACE="-race"
( cd "$REPO" && go test $RACE -overlay "$TMP/overlay.json" -vet=off -count=1 -timeout "$TO" -run "TestVerifHarness$ID\$" "./$PKG" ) > "$TMP/log.txt" 2>&1
rc=$?
if [ -n "${VERIF_STATS_COPY:-}" ] && [ -e "$VERIF_STATS" ]; then cp "$VERIF_STATS" "$VERIF_STATS_COPY"; fi
if [ $rc -eq 0 ]; then
  [ -n "${VERIF_VERBOSE:-}" ] && cat "$TMP/log.txt" >&2
  exit 0
fi
if [ -s "$OUT" ]; then
  cat "$OUT"
  echo
  tail -n 30 "$TMP/log.txt" >&2
  exit 10
fi
if grep -q -- '--- FAIL' "$TMP/log.txt"; then
  # failed without writing a case: report the log tail as the case
  python3 - "$TMP/log.txt" <<'PY'
import json,sys
print(json.dumps({"log_tail": open(sys.argv[1]).read()[-3000:]}))
PY
  exit 10
fi
cat "$TMP/log.txt" >&2
exit 2
