package updog

// C02 — Group-by result is exactly SQL GROUP BY with COUNT(*) > 0, in sorted order.
//
// Oracle: the rows handed to AddRow are kept in the harness. For a query (expr, list) every row that satisfies the
// expression (row-by-row evaluation) and carries every listed column contributes 1 to the tuple of its values in
// list order; the tuples are sorted lexicographically (byte-wise, Go string comparison) and compared one by one with
// Result.Groups: number of groups, column names in list order, values, counts. Empty list => no groups. A list
// naming a column that occurs in no row => an error is demanded. Expressions only test columns occurring in the data.
//
// Case format (VERIF_OUT / VERIF_CASE), key "input":
//   {"dataset": {"rows": [[["col","val"],...], ...]} | {"gen": {...}}, "writer": "mem-file"|"mem-db"|"big",
//    "open": "ondemand"|"preloaded", "expr": {...}, "group_by": ["col", ...]}     (expr+group_by optional: battery)
// Strings that are not valid UTF-8 are written as {"hex":"..."}.

import (
	"encoding/json"
	"fmt"
	"math/rand"
	"os"
	"sort"
	"strconv"
	"sync"
	"testing"
	"time"
)

type c02Input struct {
	Dataset *c02Dataset `json:"dataset"`
	Writer  string      `json:"writer"`
	Open    string      `json:"open,omitempty"`
	Expr    *c02E       `json:"expr,omitempty"`
	GroupBy []c02S      `json:"group_by"`
}

type c02Group struct {
	Fields [][2]c02S `json:"fields"` // [column, value] in list order
	Count  uint64    `json:"count"`
}

type c02Exp struct {
	Err    bool       `json:"error"`
	Groups []c02Group `json:"groups"`
}

type c02Query struct {
	e    *c02E
	list []string
}

// c02Oracle is the reference GROUP BY.
func c02Oracle(rows []c02Row, cols map[string]map[string]bool, q c02Query) c02Exp {
	if q.e.usesUnknownColumn(cols) {
		// outside C02's domain (the search never generates it; a replayed case may): C01 demands an error
		return c02Exp{Err: true}
	}
	for _, c := range q.list {
		if _, ok := cols[c]; !ok {
			return c02Exp{Err: true}
		}
	}
	if len(q.list) == 0 {
		return c02Exp{}
	}
	type acc struct {
		vals  []string
		count uint64
	}
	groups := map[string]*acc{}
	var key []byte
	for _, r := range rows {
		if !q.e.sat(r) {
			continue
		}
		key = key[:0]
		vals := make([]string, 0, len(q.list))
		ok := true
		for _, c := range q.list {
			v, has := r[c]
			if !has {
				ok = false
				break
			}
			vals = append(vals, v)
			key = strconv.AppendInt(key, int64(len(v)), 10)
			key = append(key, ':')
			key = append(key, v...)
		}
		if !ok {
			continue
		}
		g := groups[string(key)]
		if g == nil {
			g = &acc{vals: vals}
			groups[string(key)] = g
		}
		g.count++
	}
	list := make([]*acc, 0, len(groups))
	for _, g := range groups {
		list = append(list, g)
	}
	sort.Slice(list, func(i, j int) bool {
		a, b := list[i].vals, list[j].vals
		for k := range a {
			if a[k] != b[k] {
				return a[k] < b[k] // Go string comparison is byte-wise
			}
		}
		return false
	})
	out := c02Exp{Groups: make([]c02Group, len(list))}
	for i, g := range list {
		f := make([][2]c02S, len(q.list))
		for k, c := range q.list {
			f[k] = [2]c02S{c02S(c), c02S(g.vals[k])}
		}
		out.Groups[i] = c02Group{Fields: f, Count: g.count}
	}
	return out
}

func c02FromResult(gs []ResultGroup) []c02Group {
	out := make([]c02Group, len(gs))
	for i, g := range gs {
		f := make([][2]c02S, len(g.Fields))
		for k, x := range g.Fields {
			f[k] = [2]c02S{c02S(x.Column), c02S(x.Value)}
		}
		out[i] = c02Group{Fields: f, Count: g.Count}
	}
	return out
}

func c02GroupEq(a, b c02Group) bool {
	if a.Count != b.Count || len(a.Fields) != len(b.Fields) {
		return false
	}
	for i := range a.Fields {
		if a.Fields[i] != b.Fields[i] {
			return false
		}
	}
	return true
}

// c02Excerpt keeps failing cases readable when there are thousands of groups.
func c02Excerpt(gs []c02Group, at int) interface{} {
	if len(gs) <= 40 {
		return map[string]interface{}{"n_groups": len(gs), "groups": gs}
	}
	lo, hi := at-3, at+4
	if lo < 0 {
		lo = 0
	}
	if hi > len(gs) {
		hi = len(gs)
	}
	if lo > hi {
		lo = hi
	}
	return map[string]interface{}{"n_groups": len(gs), "first_difference_at_index": at, "groups_from_index": lo, "groups": gs[lo:hi]}
}

func c02CheckOne(idx *Index, q c02Query, exp c02Exp) (what string, expected, got interface{}) {
	res, err, pan := c02Exec(idx, &Query{Expr: q.e.toExpr(), GroupBy: append([]string(nil), q.list...)})
	if len(q.list) == 0 {
		// also exercise the nil list
		res, err, pan = c02Exec(idx, &Query{Expr: q.e.toExpr()})
	}
	if pan != "" {
		return "Execute panicked", exp, pan
	}
	if exp.Err {
		if err == nil {
			g := map[string]interface{}{"error": nil}
			if res != nil {
				g["groups"] = c02FromResult(res.Groups)
			}
			return "a group-by list naming a column that occurs in no row must yield an error", "an error", g
		}
		return "", nil, nil
	}
	if err != nil {
		return "Execute returned an error for a query over columns that occur in the data", exp, "error: " + err.Error()
	}
	if res == nil {
		return "Execute returned nil result and nil error", exp, nil
	}
	got2 := c02FromResult(res.Groups)
	n := len(got2)
	if len(exp.Groups) < n {
		n = len(exp.Groups)
	}
	diff := -1
	for i := 0; i < n; i++ {
		if !c02GroupEq(got2[i], exp.Groups[i]) {
			diff = i
			break
		}
	}
	if diff < 0 && len(got2) != len(exp.Groups) {
		diff = n
	}
	if diff < 0 {
		return "", nil, nil
	}
	return "the result groups differ from the reference GROUP BY (tuples, counts, column names or order)", c02Excerpt(exp.Groups, diff), c02Excerpt(got2, diff)
}

type c02Plan struct {
	ds        *c02Dataset
	mkQueries func(rows []c02Row, cols map[string]map[string]bool) []c02Query
	once      sync.Once
	rows      []c02Row
	queries   []c02Query
	exp       []c02Exp
}

func (p *c02Plan) prepare() {
	p.once.Do(func() {
		p.rows = p.ds.materialize()
		cols := c02ColumnValues(p.rows)
		p.queries = p.mkQueries(p.rows, cols)
		p.exp = make([]c02Exp, len(p.queries))
		for i, q := range p.queries {
			p.exp[i] = c02Oracle(p.rows, cols, q)
		}
	})
}

func c02RunConfig(st *c02State, p *c02Plan, writer string, opens []string, only *c02Query) *c02Viol {
	p.prepare()
	in := func(open string, q *c02Query) c02Input {
		x := c02Input{Dataset: p.ds.forReport(), Writer: writer, Open: open}
		if q != nil {
			x.Expr = q.e
			x.GroupBy = c02SS(q.list)
			if x.GroupBy == nil {
				x.GroupBy = []c02S{}
			}
		}
		return x
	}
	st.setCur(in("", nil))
	dir, err := os.MkdirTemp(st.scratch, "w")
	if err != nil {
		return &c02Viol{What: "harness: " + err.Error()}
	}
	defer os.RemoveAll(dir)
	b, fl := c02Build(dir, p.rows, writer)
	defer b.closeDB()
	if fl != nil {
		return &c02Viol{What: "the index could not be written for a dataset in the property's domain (" + fl.Stage + " failed), so no group-by result can be obtained",
			Input: in("", nil), Expected: fmt.Sprintf("%d rows are written without error", len(p.rows)), Got: fl.Stage + ": " + fl.Msg}
	}
	for _, open := range opens {
		st.setCur(in(open, nil))
		idx, fl := b.open(open)
		if fl != nil {
			return &c02Viol{What: "the written index could not be opened (" + fl.Stage + ")", Input: in(open, nil), Expected: "index opens", Got: fl.Stage + ": " + fl.Msg}
		}
		check := func(q c02Query, exp c02Exp) *c02Viol {
			st.setCur(in(open, &q))
			what, expected, got := c02CheckOne(idx, q, exp)
			st.count(!exp.Err && len(exp.Groups) > 1)
			if what != "" {
				return &c02Viol{What: what, Input: in(open, &q), Expected: expected, Got: got}
			}
			return nil
		}
		var v *c02Viol
		if only != nil {
			v = check(*only, c02Oracle(p.rows, c02ColumnValues(p.rows), *only))
		} else {
			for i, q := range p.queries {
				if v = check(q, p.exp[i]); v != nil {
					break
				}
			}
		}
		b.closeIndex(idx)
		if v != nil {
			return v
		}
	}
	return nil
}

// ---------------------------------------------------------------------------------------------------------------
// query batteries

// c02Lists enumerates all lists of length lo..hi over the alphabet.
func c02Lists(alpha []string, lo, hi int) [][]string {
	var out [][]string
	for n := lo; n <= hi; n++ {
		idx := make([]int, n)
		for {
			l := make([]string, n)
			for i, k := range idx {
				l[i] = alpha[k]
			}
			out = append(out, l)
			p := n - 1
			for p >= 0 {
				idx[p]++
				if idx[p] < len(alpha) {
					break
				}
				idx[p] = 0
				p--
			}
			if p < 0 {
				break
			}
		}
	}
	return out
}

// c02TinyQueries: datasets over columns a,b. Expressions: universe, atoms, a few composites and random trees (only
// those over columns present in the dataset are used); lists: every list over {a,b} of length 0..4, a seeded sample
// of length 5 and 6, and lists containing the unknown column z.
func c02TinyQueries(seed int64, nExprRandom int) func(rows []c02Row, cols map[string]map[string]bool) []c02Query {
	a1, a2, a9, b1, b2 := c02Eq("a", "1"), c02Eq("a", "2"), c02Eq("a", "9"), c02Eq("b", "1"), c02Eq("b", "2")
	atoms := []*c02E{a1, a2, a9, b1, b2}
	exprs := []*c02E{
		a1, c02Or(a1, c02Not(a1)), c02Or(b1, c02Not(b1)), b2, c02Not(a1), c02Not(b1), c02Or(a1, a2), c02Or(a1, b1), c02And(a1, b1), c02And(c02Not(a2), c02Not(b2)),
		c02And(a1, c02Not(a1)), a9,
	}
	rng := rand.New(rand.NewSource(seed))
	for i := 0; i < nExprRandom; i++ {
		exprs = append(exprs, c02RandExpr(rng, atoms, 1+rng.Intn(3)))
	}
	lists := c02Lists([]string{"a", "b"}, 0, 4)
	l5 := c02Lists([]string{"a", "b"}, 5, 5)
	l6 := c02Lists([]string{"a", "b"}, 6, 6)
	for i := 0; i < 6; i++ {
		lists = append(lists, l5[rng.Intn(len(l5))], l6[rng.Intn(len(l6))])
	}
	lists = append(lists, []string{"z"}, []string{"a", "z"}, []string{"z", "a"}, []string{"a", "b", "z"}, []string{"a", "a", "a", "z", "b"}, []string{"b", "a", "b", "a", "b", "z"})
	return func(rows []c02Row, cols map[string]map[string]bool) []c02Query {
		var out []c02Query
		for _, e := range exprs {
			if e.usesUnknownColumn(cols) {
				continue
			}
			for _, l := range lists {
				out = append(out, c02Query{e: e, list: l})
			}
		}
		return out
	}
}

// c02GenQueries: battery for a generated dataset: nExpr expressions (universe first) x nLists random lists of
// length 0..6 over existing columns (cheap columns preferred), repeated columns and (rarely) an unknown column.
// Lists whose evaluation would need more than maxCost bitmap intersections are not used.
func c02GenQueries(seed int64, nExpr, nLists int, maxCost float64) func(rows []c02Row, cols map[string]map[string]bool) []c02Query {
	return func(rows []c02Row, cols map[string]map[string]bool) []c02Query {
		if len(cols) == 0 {
			return nil // no column occurs in the data: there is no expression in the property's domain
		}
		rng := rand.New(rand.NewSource(seed))
		atoms := c02AtomsFor(rng, rows, 3)
		names := c02SortedCols(cols)
		exprs := []*c02E{c02Or(atoms[0], c02Not(atoms[0]))}
		for len(exprs) < nExpr {
			exprs = append(exprs, c02RandExpr(rng, atoms, 1+rng.Intn(3)))
		}
		cost := func(l []string) float64 {
			groups, total := 1.0, 0.0
			for _, c := range l {
				card := float64(len(cols[c]))
				total += groups * card
				groups *= card
				if groups > float64(len(rows)) {
					groups = float64(len(rows))
				}
			}
			return total
		}
		var lists [][]string
		lists = append(lists, nil)
		// systematic: every single column, every ordered pair of the first columns, one list of all columns
		for _, c := range names {
			lists = append(lists, []string{c})
		}
		for i, c := range names {
			for j, d := range names {
				if i < 4 && j < 4 {
					lists = append(lists, []string{c, d})
				}
			}
		}
		if len(names) <= 6 {
			lists = append(lists, names)
			rev := make([]string, len(names))
			for i, c := range names {
				rev[len(names)-1-i] = c
			}
			lists = append(lists, rev)
		}
		for tries := 0; len(lists) < nLists && tries < 50*nLists; tries++ {
			n := rng.Intn(7)
			if rng.Intn(3) == 0 {
				n = 4 + rng.Intn(3)
			}
			l := make([]string, 0, n)
			for len(l) < n {
				switch x := rng.Intn(20); {
				case x == 0:
					l = append(l, "\x01no-such-column")
				case x < 4 && len(l) > 0:
					l = append(l, l[rng.Intn(len(l))])
				default:
					l = append(l, names[rng.Intn(len(names))])
				}
			}
			lists = append(lists, l)
		}
		var out []c02Query
		for ei, e := range exprs {
			for li, l := range lists {
				known := true
				for _, c := range l {
					if _, ok := cols[c]; !ok {
						known = false
					}
				}
				if known && cost(l) > maxCost {
					continue
				}
				// not the full product for the later expressions: keeps the oracle affordable on large datasets
				if ei > 0 && (li+ei)%3 != 0 {
					continue
				}
				out = append(out, c02Query{e: e, list: l})
			}
		}
		return out
	}
}

func c02Jobs(plans []*c02Plan, perWriter bool) []c02Job {
	var jobs []c02Job
	for _, p := range plans {
		p := p
		if perWriter {
			for _, w := range c02Writers {
				w := w
				jobs = append(jobs, func(st *c02State) *c02Viol { return c02RunConfig(st, p, w, c02Opens, nil) })
			}
			continue
		}
		jobs = append(jobs, func(st *c02State) *c02Viol {
			for _, w := range c02Writers {
				if v := c02RunConfig(st, p, w, c02Opens, nil); v != nil {
					return v
				}
			}
			return nil
		})
	}
	return jobs
}

func TestVerifHarnessC02(t *testing.T) {
	mode, bound, seed := c02Env()
	if mode == "replay" {
		c02Replay(t)
		return
	}
	thorough := bound == "thorough"
	budget := 17 * time.Second
	if thorough {
		budget = 230 * time.Second
	}
	r := c02NewRunner(t, budget)
	// watchdog per job: generous in thorough mode, 30 s in quick mode (a hang is a violation either way)
	jt := func(sec int) time.Duration {
		if !thorough {
			return 30 * time.Second
		}
		return time.Duration(sec) * time.Second
	}
	boundText := ""
	defer func() { r.writeStats(boundText, false) }()
	rng := rand.New(rand.NewSource(seed))

	// phase 1: tiny datasets over columns a,b — all sequences of length <= L, random longer ones
	L, nRand, nExprRandom := 2, 60, 6
	if thorough {
		L, nRand, nExprRandom = 3, 1000, 20
	}
	tinyQ := c02TinyQueries(seed, nExprRandom)
	var plans []*c02Plan
	for _, d := range c02TinyDatasets(L) {
		plans = append(plans, &c02Plan{ds: d, mkQueries: tinyQ})
	}
	for _, d := range c02RandomTiny(rng, nRand, L+1, 10) {
		plans = append(plans, &c02Plan{ds: d, mkQueries: tinyQ})
	}
	boundText = fmt.Sprintf("bound=%s seed=%d; all row sequences of length<=%d over 9 row types (cols a,b; values 1,2; empty row) + %d random of length<=10, x (12+%d) exprs x (all 31 lists over {a,b} of length 0..4 + 12 of length 5,6 + 6 lists with unknown column z) x 3 writers x 2 open modes", bound, seed, L, nRand, nExprRandom)
	if v := r.run("tiny", c02Jobs(plans, false), jt(60)); v != nil {
		c02Report(t, "C02", v)
	}

	// phase 2: 'wide' (six columns a..f, 2-3 values each, 1/5 missing) and 'strings' datasets, random lists of length 0..6
	plans = nil
	ns := []int{2, 3, 5, 12, 40, 300}
	reps, nExpr, nLists := 2, 5, 60
	if thorough {
		ns = []int{1, 2, 3, 4, 5, 8, 12, 40, 100, 300, 1000, 5000}
		reps, nExpr, nLists = 30, 8, 120
	}
	for rep := 0; rep < reps; rep++ {
		for _, n := range ns {
			g1 := c02Gen{Kind: "wide", N: n, Seed: seed*100 + int64(rep), Trail: rep % 2}
			g2 := c02Gen{Kind: "strings", N: n, Seed: seed*100 + int64(rep)}
			plans = append(plans, &c02Plan{ds: &c02Dataset{Gen: &g1}, mkQueries: c02GenQueries(seed+int64(rep*1000+n), nExpr, nLists, 2e5)})
			plans = append(plans, &c02Plan{ds: &c02Dataset{Gen: &g2}, mkQueries: c02GenQueries(seed+int64(rep*1000+n), nExpr, nLists/2, 2e5)})
		}
	}
	boundText += fmt.Sprintf("; 'wide' (6 columns) and 'strings' datasets n in %v x %d seeds, %d exprs x up to %d lists (singletons, pairs, all columns, random length 0..6 with repeats/unknown)", ns, reps, nExpr, nLists)
	if v := r.run("wide+strings", c02Jobs(plans, false), jt(90)); v != nil {
		c02Report(t, "C02", v)
	}

	// phase 3: 'mix' datasets at batch/container boundaries, with a unique column for the smaller ones
	plans = nil
	sizes := []int{1000, 1001, 4096, 4097}
	if thorough {
		sizes = []int{1, 999, 1000, 1001, 2001, 4095, 4096, 4097, 10000, 30000}
	}
	for i, n := range sizes {
		g := c02Gen{Kind: "mix", N: n, Seed: seed + int64(i), Trail: (i % 3) * 7, ID: n <= 4100}
		plans = append(plans, &c02Plan{ds: &c02Dataset{Gen: &g}, mkQueries: c02GenQueries(seed+int64(n), 4, 40, 3e5)})
	}
	boundText += fmt.Sprintf("; 'mix' datasets n in %v (unique id column when n<=4100)", sizes)
	if v := r.run("boundaries", c02Jobs(plans, true), jt(120)); v != nil {
		c02Report(t, "C02", v)
	}

	// phase 4: large
	plans = nil
	big := []int{70001}
	if thorough {
		big = []int{150000, 131073, 65537, 65536, 65535}
	}
	for i, n := range big {
		g := c02Gen{Kind: "mix", N: n, Seed: seed + 5 + int64(i), Trail: 3 * (i % 2)}
		plans = append(plans, &c02Plan{ds: &c02Dataset{Gen: &g}, mkQueries: c02GenQueries(seed+int64(n), 3, 30, 3e5)})
	}
	boundText += fmt.Sprintf("; large 'mix' datasets n in %v", big)
	if v := r.run("large", c02Jobs(plans, true), jt(200)); v != nil {
		c02Report(t, "C02", v)
	}
}

func c02Replay(t *testing.T) {
	raw, err := os.ReadFile(os.Getenv("VERIF_CASE"))
	if err != nil {
		t.Fatalf("replay: cannot read VERIF_CASE: %v", err)
	}
	var wrap struct {
		Input *json.RawMessage `json:"input"`
	}
	if err := json.Unmarshal(raw, &wrap); err == nil && wrap.Input != nil {
		raw = *wrap.Input
	}
	var in c02Input
	if err := json.Unmarshal(raw, &in); err != nil {
		t.Fatalf("replay: cannot parse case: %v", err)
	}
	if in.Dataset == nil {
		t.Fatalf("replay: case has no dataset")
	}
	var only *c02Query
	if in.Expr != nil {
		if err := in.Expr.valid(); err != nil {
			t.Fatalf("replay: bad expression: %v", err)
		}
		only = &c02Query{e: in.Expr, list: c02Strs(in.GroupBy)}
	}
	r := c02NewRunner(t, 280*time.Second)
	defer func() { r.writeStats("replay of one case", false) }()
	writers := c02Writers
	if in.Writer != "" {
		writers = []string{in.Writer}
	}
	opens := c02Opens
	if in.Open != "" {
		opens = []string{in.Open}
	}
	_, _, seed := c02Env()
	p := &c02Plan{ds: in.Dataset, mkQueries: c02GenQueries(seed, 5, 60, 3e5)}
	var jobs []c02Job
	for _, w := range writers {
		w := w
		jobs = append(jobs, func(st *c02State) *c02Viol { return c02RunConfig(st, p, w, opens, only) })
	}
	if v := r.run("replay", jobs, 250*time.Second); v != nil {
		c02Report(t, "C02", v)
	}
}
