package updog

// Shared harness infrastructure (dataset generators, expression model, row-by-row reference oracle,
// index builders for the three writer paths, job runner with watchdog). The same file is copied into each of
// the C02/C02/C05/C08 harness directories with a per-property identifier prefix, so that the files never clash.

import (
	"encoding/hex"
	"encoding/json"
	"fmt"
	"math/rand"
	"os"
	"path/filepath"
	"runtime"
	"runtime/debug"
	"sort"
	"strconv"
	"strings"
	"sync"
	"sync/atomic"
	"testing"
	"time"
	"unicode/utf8"

	"go.etcd.io/bbolt"
)

// ---------------------------------------------------------------------------------------------------------------
// binary-safe strings in JSON: a valid UTF-8 string is a JSON string, anything else is {"hex":"..."}.

type c02S string

func (s c02S) MarshalJSON() ([]byte, error) {
	if utf8.ValidString(string(s)) {
		return json.Marshal(string(s))
	}
	return json.Marshal(map[string]string{"hex": hex.EncodeToString([]byte(s))})
}

func (s *c02S) UnmarshalJSON(b []byte) error {
	t := strings.TrimSpace(string(b))
	if strings.HasPrefix(t, "\"") {
		var x string
		if err := json.Unmarshal(b, &x); err != nil {
			return err
		}
		*s = c02S(x)
		return nil
	}
	var m map[string]string
	if err := json.Unmarshal(b, &m); err != nil {
		return err
	}
	raw, err := hex.DecodeString(m["hex"])
	if err != nil {
		return err
	}
	*s = c02S(raw)
	return nil
}

func c02SS(in []string) []c02S {
	out := make([]c02S, len(in))
	for i, s := range in {
		out[i] = c02S(s)
	}
	return out
}

func c02Strs(in []c02S) []string {
	if in == nil {
		return nil
	}
	out := make([]string, len(in))
	for i, s := range in {
		out[i] = string(s)
	}
	return out
}

// ---------------------------------------------------------------------------------------------------------------
// datasets

type c02Row = map[string]string

// c02RowJ is the JSON form of a row: a list of [column, value] pairs (sorted by column).
type c02RowJ [][2]c02S

func c02RowToJ(r c02Row) c02RowJ {
	out := make(c02RowJ, 0, len(r))
	for k, v := range r {
		out = append(out, [2]c02S{c02S(k), c02S(v)})
	}
	sort.Slice(out, func(i, j int) bool { return out[i][0] < out[j][0] })
	return out
}

type c02Gen struct {
	Kind  string `json:"kind"` // "mix" | "strings" | "wide"
	N     int    `json:"n"`
	Seed  int64  `json:"seed"`
	Trail int    `json:"trailing_empty,omitempty"` // the last Trail rows (of the N) are empty rows
	ID    bool   `json:"id_column,omitempty"`      // add a unique-per-row column "id" to every non-empty row
}

// c02Dataset is either an explicit list of rows or a deterministic generator description.
type c02Dataset struct {
	Rows []c02RowJ `json:"rows,omitempty"`
	Gen  *c02Gen   `json:"gen,omitempty"`

	once sync.Once
	rows []c02Row
}

// MarshalJSON writes {"gen":...} for generated datasets and {"rows":[...]} (also when empty) for explicit ones.
func (d *c02Dataset) MarshalJSON() ([]byte, error) {
	if d.Gen != nil {
		return json.Marshal(map[string]interface{}{"gen": d.Gen})
	}
	rows := d.Rows
	if rows == nil {
		rows = []c02RowJ{}
	}
	return json.Marshal(map[string]interface{}{"rows": rows})
}

func c02Explicit(rows []c02Row) *c02Dataset {
	d := &c02Dataset{Rows: make([]c02RowJ, len(rows))}
	for i, r := range rows {
		d.Rows[i] = c02RowToJ(r)
	}
	return d
}

func (d *c02Dataset) materialize() []c02Row {
	d.once.Do(func() {
		if d.Gen != nil {
			d.rows = c02Generate(d.Gen)
			return
		}
		d.rows = make([]c02Row, len(d.Rows))
		for i, rj := range d.Rows {
			r := c02Row{}
			for _, kv := range rj {
				r[string(kv[0])] = string(kv[1])
			}
			d.rows[i] = r
		}
	})
	return d.rows
}

// forReport returns the dataset in the form written into a failing case: explicit rows when small.
func (d *c02Dataset) forReport() *c02Dataset {
	rows := d.materialize()
	if d.Gen != nil && len(rows) <= 64 {
		return c02Explicit(rows)
	}
	return &c02Dataset{Rows: d.Rows, Gen: d.Gen}
}

var c02WeirdValues = []string{
	"", " ", "a", "A", "0", "1", "a\x00b", "\x00", "\xff\xfe", "\xc3", "é", "é", "日本語", "\"q\"", "a=b", "(", ")", "&", "|", "!", "\n", "\t x",
	"V", "S", "I", "data", "temp", "12345678", "\x00\x00\x00\x00\x00\x00\x00\x00", strings.Repeat("long", 100), " ", "\U0001F600", "NULL", "nil", "-1", "$1",
}

var c02WeirdColumns = []string{
	"", " ", "a", "A", "\xff\xfe", "\xc3", "é", "é", "日本語", "\"q\"", "a=b", "(", "&", "\n", "V", "S", "I", "data", strings.Repeat("col", 60), "\U0001F600", "count", "a b",
}

func c02Generate(g *c02Gen) []c02Row {
	rng := rand.New(rand.NewSource(g.Seed*1000003 + int64(g.N)))
	rows := make([]c02Row, g.N)
	for i := 0; i < g.N; i++ {
		r := c02Row{}
		rows[i] = r
		if i >= g.N-g.Trail {
			continue
		}
		switch g.Kind {
		case "mix":
			// one column per bitmap shape: runs, dense, sparse, many distinct values, uniform, alternating full blocks
			roll := rng.Intn(1000)
			d, s, m, u := rng.Intn(100), rng.Intn(1000), rng.Intn(10), rng.Intn(10)
			mv, uv, sv := rng.Intn(1300), rng.Intn(4), rng.Intn(2)
			if roll < 30 {
				continue // a row without any column
			}
			r["r"] = strconv.Itoa((i / 700) % 3)
			switch {
			case d < 98:
				r["d"] = "1"
			case d < 99:
				r["d"] = "0"
			}
			if s < 4 {
				r["s"] = []string{"x", "y"}[sv]
			}
			if m < 9 {
				r["m"] = strconv.Itoa(mv)
			}
			if u < 8 {
				r["u"] = []string{"", "a", "b", "ü"}[uv]
			}
			if (i/5000)%2 == 0 {
				r["blk"] = "k"
			}
		case "strings":
			nc := rng.Intn(4)
			for c := 0; c < nc; c++ {
				col := c02WeirdColumns[rng.Intn(len(c02WeirdColumns))]
				r[col] = c02WeirdValues[rng.Intn(len(c02WeirdValues))]
			}
		case "wide":
			// six columns with two or three values each, each missing with probability 1/5
			for c, name := range []string{"a", "b", "c", "d", "e", "f"} {
				x := rng.Intn(5)
				if x == 0 {
					continue
				}
				r[name] = strconv.Itoa(x % (2 + c%2))
			}
		default:
			panic("unknown generator kind " + g.Kind)
		}
		if g.ID && len(r) > 0 {
			r["id"] = strconv.Itoa(i)
		}
	}
	return rows
}

// c02ColumnValues returns, per column occurring in the rows, its set of values.
func c02ColumnValues(rows []c02Row) map[string]map[string]bool {
	out := map[string]map[string]bool{}
	for _, r := range rows {
		for k, v := range r {
			if out[k] == nil {
				out[k] = map[string]bool{}
			}
			out[k][v] = true
		}
	}
	return out
}

func c02SortedKeys(m map[string]bool) []string {
	out := make([]string, 0, len(m))
	for k := range m {
		out = append(out, k)
	}
	sort.Strings(out)
	return out
}

func c02SortedCols(m map[string]map[string]bool) []string {
	out := make([]string, 0, len(m))
	for k := range m {
		out = append(out, k)
	}
	sort.Strings(out)
	return out
}

// ---------------------------------------------------------------------------------------------------------------
// expressions

type c02E struct {
	Op   string  `json:"op"` // "eq" | "not" | "and" | "or"
	Col  *c02S   `json:"col,omitempty"`
	Val  *c02S   `json:"val,omitempty"`
	Args []*c02E `json:"args,omitempty"`
}

func c02Eq(c, v string) *c02E {
	cs, vs := c02S(c), c02S(v)
	return &c02E{Op: "eq", Col: &cs, Val: &vs}
}
func c02Not(e *c02E) *c02E     { return &c02E{Op: "not", Args: []*c02E{e}} }
func c02And(es ...*c02E) *c02E { return &c02E{Op: "and", Args: es} }
func c02Or(es ...*c02E) *c02E  { return &c02E{Op: "or", Args: es} }
func (e *c02E) col() string    { return string(*e.Col) }
func (e *c02E) val() string    { return string(*e.Val) }
func (e *c02E) String() string { b, _ := json.Marshal(e); return string(b) }
func (e *c02E) valid() error {
	switch e.Op {
	case "eq":
		if e.Col == nil || e.Val == nil {
			return fmt.Errorf("eq needs col and val")
		}
	case "not":
		if len(e.Args) != 1 {
			return fmt.Errorf("not needs exactly one arg")
		}
	case "and", "or":
		if len(e.Args) < 1 {
			return fmt.Errorf("%s needs at least one arg", e.Op)
		}
	default:
		return fmt.Errorf("unknown op %q", e.Op)
	}
	for _, a := range e.Args {
		if a == nil {
			return fmt.Errorf("nil arg")
		}
		if err := a.valid(); err != nil {
			return err
		}
	}
	return nil
}

// toExpr builds a fresh updog expression tree (no node is shared with any other tree).
func (e *c02E) toExpr() Expression {
	switch e.Op {
	case "eq":
		return &ExprEqual{Column: e.col(), Value: e.val()}
	case "not":
		return &ExprNot{Expr: e.Args[0].toExpr()}
	case "and":
		x := &ExprAnd{}
		for _, a := range e.Args {
			x.Exprs = append(x.Exprs, a.toExpr())
		}
		return x
	case "or":
		x := &ExprOr{}
		for _, a := range e.Args {
			x.Exprs = append(x.Exprs, a.toExpr())
		}
		return x
	}
	panic("bad op")
}

// sat is the reference semantics: does the row satisfy the expression?
func (e *c02E) sat(r c02Row) bool {
	switch e.Op {
	case "eq":
		v, ok := r[e.col()]
		return ok && v == e.val()
	case "not":
		return !e.Args[0].sat(r)
	case "and":
		for _, a := range e.Args {
			if !a.sat(r) {
				return false
			}
		}
		return true
	case "or":
		for _, a := range e.Args {
			if a.sat(r) {
				return true
			}
		}
		return false
	}
	panic("bad op")
}

// usesUnknownColumn reports whether the expression tests a column that occurs in no row.
func (e *c02E) usesUnknownColumn(cols map[string]map[string]bool) bool {
	if e.Op == "eq" {
		_, ok := cols[e.col()]
		return !ok
	}
	for _, a := range e.Args {
		if a.usesUnknownColumn(cols) {
			return true
		}
	}
	return false
}

func (e *c02E) size() int {
	n := 1
	for _, a := range e.Args {
		n += a.size()
	}
	return n
}

// c02RandExpr draws a random expression tree over the given atoms.
func c02RandExpr(rng *rand.Rand, atoms []*c02E, depth int) *c02E {
	if depth <= 0 || rng.Intn(4) == 0 {
		return atoms[rng.Intn(len(atoms))]
	}
	switch rng.Intn(5) {
	case 0, 1:
		return c02Not(c02RandExpr(rng, atoms, depth-1))
	default:
		n := 1 + rng.Intn(4)
		args := make([]*c02E, 0, n)
		for i := 0; i < n; i++ {
			if i > 0 && rng.Intn(6) == 0 {
				args = append(args, args[rng.Intn(len(args))]) // duplicate operand
				continue
			}
			args = append(args, c02RandExpr(rng, atoms, depth-1))
		}
		if rng.Intn(2) == 0 {
			return c02And(args...)
		}
		return c02Or(args...)
	}
}

// c02AtomsFor returns column=value atoms for a dataset: present values, values absent from the column, values of
// other columns.
func c02AtomsFor(rng *rand.Rand, rows []c02Row, maxPerCol int) []*c02E {
	cv := c02ColumnValues(rows)
	var atoms []*c02E
	for _, col := range c02SortedCols(cv) {
		vals := c02SortedKeys(cv[col])
		pick := map[string]bool{vals[0]: true, vals[len(vals)-1]: true}
		for len(pick) < maxPerCol && len(pick) < len(vals) {
			pick[vals[rng.Intn(len(vals))]] = true
		}
		for _, v := range c02SortedKeys(pick) {
			atoms = append(atoms, c02Eq(col, v))
		}
		atoms = append(atoms, c02Eq(col, "\x01absent"))
		if _, ok := cv[col][""]; !ok {
			atoms = append(atoms, c02Eq(col, ""))
		}
	}
	return atoms
}

// ---------------------------------------------------------------------------------------------------------------
// guarded calls into the code under test

func c02Stack() string {
	s := string(debug.Stack())
	// keep the frames of the code under test: start after the runtime's panic frame
	if i := strings.Index(s, "\npanic("); i >= 0 {
		if j := strings.Index(s[i+1:], "\n\t"); j >= 0 {
			if k := strings.Index(s[i+1+j+1:], "\n"); k >= 0 {
				s = s[i+1+j+1+k+1:]
			}
		}
	}
	if len(s) > 900 {
		s = s[:900] + "..."
	}
	return s
}

func c02Exec(idx *Index, q *Query) (res *Result, err error, pan string) {
	defer func() {
		if r := recover(); r != nil {
			pan = fmt.Sprintf("panic: %v\n%s", r, c02Stack())
		}
	}()
	res, err = idx.Execute(q)
	return
}

func c02Guard(f func() error) (err error, pan string) {
	defer func() {
		if r := recover(); r != nil {
			pan = fmt.Sprintf("panic: %v\n%s", r, c02Stack())
		}
	}()
	err = f()
	return
}

// ---------------------------------------------------------------------------------------------------------------
// building and opening indexes

var c02Writers = []string{"mem-file", "mem-db", "big"}
var c02Opens = []string{"ondemand", "preloaded"}

// c02Built is an index written by one of the writer paths.
//
//	mem-file: NewIndexWriter(file).AddRow...; Flush()                               -> OpenIndex(file)
//	mem-db:   NewIndexWriter("").AddRow...; WriteToBoltDatabase(db supplied by us)  -> OpenIndexFromBoltDatabase(db)
//	big:      NewBigIndexWriter(db, tempDB).AddRow...; Flush()                      -> OpenIndexFromBoltDatabase(db)
type c02Built struct {
	writer string
	file   string
	db     *bbolt.DB // caller-supplied database still open (mem-db, big); nil for mem-file or once closed
	tempDB *bbolt.DB
	ids    []uint32 // return values of AddRow
}

type c02Failure struct {
	Stage string // which call failed
	Msg   string
}

func c02OpenBolt(path string) (*bbolt.DB, error) {
	return bbolt.Open(path, 0600, &bbolt.Options{Timeout: 10 * time.Second, NoSync: true, NoFreelistSync: true})
}

func c02Build(dir string, rows []c02Row, writer string) (*c02Built, *c02Failure) {
	b := &c02Built{writer: writer, file: filepath.Join(dir, "index.db")}
	fail := func(stage string, err error, pan string) *c02Failure {
		if pan != "" {
			return &c02Failure{Stage: stage, Msg: pan}
		}
		return &c02Failure{Stage: stage, Msg: "error: " + err.Error()}
	}
	type rowAdder interface {
		AddRow(map[string]string) (uint32, error)
	}
	addAll := func(w rowAdder) *c02Failure {
		b.ids = make([]uint32, 0, len(rows))
		for i, r := range rows {
			var id uint32
			err, pan := c02Guard(func() error {
				// the writer gets its own copy of the row map
				cp := make(map[string]string, len(r))
				for k, v := range r {
					cp[k] = v
				}
				var e error
				id, e = w.AddRow(cp)
				return e
			})
			if err != nil || pan != "" {
				return fail(fmt.Sprintf("AddRow #%d", i), err, pan)
			}
			b.ids = append(b.ids, id)
		}
		return nil
	}
	switch writer {
	case "mem-file":
		w := NewIndexWriter(b.file)
		if f := addAll(w); f != nil {
			return b, f
		}
		if err, pan := c02Guard(w.Flush); err != nil || pan != "" {
			return b, fail("IndexWriter.Flush", err, pan)
		}
	case "mem-db":
		w := NewIndexWriter("")
		if f := addAll(w); f != nil {
			return b, f
		}
		db, err := c02OpenBolt(b.file)
		if err != nil {
			return b, &c02Failure{Stage: "harness: bbolt.Open", Msg: err.Error()}
		}
		b.db = db
		if err, pan := c02Guard(func() error { return w.WriteToBoltDatabase(db) }); err != nil || pan != "" {
			return b, fail("IndexWriter.WriteToBoltDatabase", err, pan)
		}
	case "big":
		db, err := c02OpenBolt(b.file)
		if err != nil {
			return b, &c02Failure{Stage: "harness: bbolt.Open", Msg: err.Error()}
		}
		b.db = db
		tdb, err := c02OpenBolt(filepath.Join(dir, "temp.db"))
		if err != nil {
			return b, &c02Failure{Stage: "harness: bbolt.Open temp", Msg: err.Error()}
		}
		b.tempDB = tdb
		var w *BigIndexWriter
		if err, pan := c02Guard(func() error { var e error; w, e = NewBigIndexWriter(db, tdb); return e }); err != nil || pan != "" {
			return b, fail("NewBigIndexWriter", err, pan)
		}
		if f := addAll(w); f != nil {
			return b, f
		}
		if err, pan := c02Guard(w.Flush); err != nil || pan != "" {
			return b, fail("BigIndexWriter.Flush", err, pan)
		}
	default:
		return b, &c02Failure{Stage: "harness", Msg: "unknown writer " + writer}
	}
	return b, nil
}

func c02OpenOpts(mode string) []IndexOption {
	if mode == "preloaded" {
		return []IndexOption{WithPreloadedData()}
	}
	return nil
}

// open returns an index over the built data. For the caller-supplied database paths the index is opened from the
// still open database handle; after closeDB() it is opened from the file.
func (b *c02Built) open(mode string) (idx *Index, fl *c02Failure) {
	stage := "OpenIndex(" + mode + ")"
	err, pan := c02Guard(func() error {
		var e error
		if b.db != nil {
			stage = "OpenIndexFromBoltDatabase(" + mode + ")"
			idx, e = OpenIndexFromBoltDatabase(b.db, c02OpenOpts(mode)...)
		} else {
			idx, e = OpenIndex(b.file, c02OpenOpts(mode)...)
		}
		return e
	})
	if pan != "" {
		return nil, &c02Failure{Stage: stage, Msg: pan}
	}
	if err != nil {
		return nil, &c02Failure{Stage: stage, Msg: "error: " + err.Error()}
	}
	if idx == nil {
		return nil, &c02Failure{Stage: stage, Msg: "returned nil index and nil error"}
	}
	return idx, nil
}

// closeIndex closes an index opened from the file (never the shared caller-supplied database).
func (b *c02Built) closeIndex(idx *Index) {
	if b.db == nil && idx != nil {
		_, _ = c02Guard(idx.Close)
	}
}

// closeDB closes the caller-supplied databases; afterwards open() goes through OpenIndex(file).
func (b *c02Built) closeDB() {
	if b.tempDB != nil {
		_, _ = c02Guard(b.tempDB.Close)
		b.tempDB = nil
	}
	if b.db != nil {
		_, _ = c02Guard(b.db.Close)
		b.db = nil
	}
}

// ---------------------------------------------------------------------------------------------------------------
// violations, job runner, environment

type c02Viol struct {
	Property string      `json:"property"`
	What     string      `json:"what"`
	Input    interface{} `json:"input"`
	Expected interface{} `json:"expected"`
	Got      interface{} `json:"got"`
}

// c02State is handed to every job: it records what the job is currently doing (for hang reports) and counts cases.
type c02State struct {
	cur      atomic.Value // interface{}: input description of the operation in progress
	scratch  string       // directory for this job's files
	cases    *int64
	nontriv  *int64
	skipped  *int64
	deadline time.Time
}

func (st *c02State) setCur(v interface{}) { st.cur.Store(&v) }
func (st *c02State) count(nontrivial bool) {
	atomic.AddInt64(st.cases, 1)
	if nontrivial {
		atomic.AddInt64(st.nontriv, 1)
	}
}

type c02Job func(st *c02State) *c02Viol

type c02Runner struct {
	t         *testing.T
	base      string
	start     time.Time
	deadline  time.Time
	cases     int64
	nontriv   int64
	truncated int32
	phases    []string
	jobSeq    int64
	skipped   int64 // jobs that could not be set up for reasons outside the property (noted in the stats)
}

func c02NewRunner(t *testing.T, budget time.Duration) *c02Runner {
	return &c02Runner{t: t, base: t.TempDir(), start: time.Now(), deadline: time.Now().Add(budget)}
}

// run executes the jobs on a worker pool and returns the violation of the lowest-numbered failing job (deterministic:
// every job before it has completed without violation). Each job is bounded by a watchdog.
func (r *c02Runner) run(phase string, jobs []c02Job, jobTimeout time.Duration) *c02Viol {
	if len(jobs) == 0 {
		return nil
	}
	if time.Now().After(r.deadline) {
		atomic.StoreInt32(&r.truncated, 1)
		r.phases = append(r.phases, phase+" (skipped: time budget)")
		return nil
	}
	workers := runtime.GOMAXPROCS(0)
	if workers > 16 {
		workers = 16
	}
	if workers > len(jobs) {
		workers = len(jobs)
	}
	var next int64 = -1
	var stopAt int64 = int64(len(jobs))
	viols := make([]*c02Viol, len(jobs))
	var wg sync.WaitGroup
	var done int64
	for w := 0; w < workers; w++ {
		wg.Add(1)
		go func() {
			defer wg.Done()
			for {
				i := atomic.AddInt64(&next, 1)
				if i >= int64(len(jobs)) || i > atomic.LoadInt64(&stopAt) {
					return
				}
				if time.Now().After(r.deadline) {
					atomic.StoreInt32(&r.truncated, 1)
					return
				}
				v := r.runOne(jobs[i], jobTimeout)
				atomic.AddInt64(&done, 1)
				if v != nil {
					viols[i] = v
					for {
						cur := atomic.LoadInt64(&stopAt)
						if i >= cur || atomic.CompareAndSwapInt64(&stopAt, cur, i) {
							break
						}
					}
				}
			}
		}()
	}
	wg.Wait()
	r.phases = append(r.phases, fmt.Sprintf("%s: %d/%d jobs (t=%.1fs)", phase, done, len(jobs), time.Since(r.start).Seconds()))
	for _, v := range viols {
		if v != nil {
			return v
		}
	}
	return nil
}

func (r *c02Runner) runOne(job c02Job, timeout time.Duration) *c02Viol {
	dir := filepath.Join(r.base, fmt.Sprintf("j%d", atomic.AddInt64(&r.jobSeq, 1)))
	if err := os.MkdirAll(dir, 0700); err != nil {
		return &c02Viol{What: "harness: cannot create scratch directory: " + err.Error()}
	}
	st := &c02State{scratch: dir, cases: &r.cases, nontriv: &r.nontriv, skipped: &r.skipped, deadline: r.deadline}
	ch := make(chan *c02Viol, 1)
	go func() {
		defer func() {
			if p := recover(); p != nil {
				ch <- &c02Viol{What: fmt.Sprintf("harness bug: job panicked outside the guarded calls: %v\n%s", p, c02Stack())}
			}
		}()
		ch <- job(st)
	}()
	select {
	case v := <-ch:
		_ = os.RemoveAll(dir)
		return v
	case <-time.After(timeout):
		var cur interface{}
		if p, ok := st.cur.Load().(*interface{}); ok && p != nil {
			cur = *p
			if f, ok := cur.(func() interface{}); ok {
				cur = f()
			}
		}
		// the goroutine is left behind (it may hold a file lock on its own scratch files only)
		return &c02Viol{What: fmt.Sprintf("the operation did not return within %s (hang)", timeout), Input: cur, Expected: "the call returns", Got: "no return within the watchdog timeout"}
	}
}

func c02Env() (mode, bound string, seed int64) {
	mode = os.Getenv("VERIF_MODE")
	if mode == "" {
		mode = "search"
	}
	bound = os.Getenv("VERIF_BOUND")
	if bound == "" {
		bound = "quick"
	}
	seed = 1
	if s := os.Getenv("VERIF_SEED"); s != "" {
		if v, err := strconv.ParseInt(s, 10, 64); err == nil {
			seed = v
		}
	}
	return
}

func c02WriteJSON(path string, v interface{}) {
	if path == "" {
		return
	}
	b, err := json.Marshal(v)
	if err != nil {
		b, _ = json.Marshal(map[string]string{"error": "cannot marshal: " + err.Error()})
	}
	_ = os.WriteFile(path, append(b, '\n'), 0644)
}

func (r *c02Runner) writeStats(boundText string, exhaustive bool) {
	if n := atomic.LoadInt64(&r.skipped); n > 0 {
		boundText += fmt.Sprintf(" [%d jobs SKIPPED: index could not be built/opened]", n)
	}
	if atomic.LoadInt32(&r.truncated) != 0 {
		boundText += " [TRUNCATED by time budget]"
		exhaustive = false
	}
	c02WriteJSON(os.Getenv("VERIF_STATS"), map[string]interface{}{
		"cases":               atomic.LoadInt64(&r.cases),
		"distinct_nontrivial": atomic.LoadInt64(&r.nontriv),
		"bound":               boundText + " | phases: " + strings.Join(r.phases, "; "),
		"exhaustive":          exhaustive,
		"seconds":             time.Since(r.start).Seconds(),
	})
}

// report writes the failing case and fails the test.
func c02Report(t *testing.T, prop string, v *c02Viol) {
	v.Property = prop
	c02WriteJSON(os.Getenv("VERIF_OUT"), v)
	b, _ := json.Marshal(v)
	if len(b) > 4000 {
		b = append(b[:4000], "..."...)
	}
	t.Fatalf("%s violated: %s\n%s", prop, v.What, b)
}

// c02TinyRowTypes are the 9 rows over columns a,b with values absent/"1"/"2" (index 0 is the empty row).
func c02TinyRowTypes() []c02Row {
	var out []c02Row
	for _, a := range []string{"", "1", "2"} {
		for _, b := range []string{"", "1", "2"} {
			r := c02Row{}
			if a != "" {
				r["a"] = a
			}
			if b != "" {
				r["b"] = b
			}
			out = append(out, r)
		}
	}
	return out
}

// c02TinyDatasets enumerates every row sequence of length 0..maxLen over the 9 tiny row types.
func c02TinyDatasets(maxLen int) []*c02Dataset {
	types := c02TinyRowTypes()
	var out []*c02Dataset
	for n := 0; n <= maxLen; n++ {
		idx := make([]int, n)
		for {
			rows := make([]c02Row, n)
			for i, k := range idx {
				rows[i] = types[k]
			}
			out = append(out, c02Explicit(rows))
			p := n - 1
			for p >= 0 {
				idx[p]++
				if idx[p] < len(types) {
					break
				}
				idx[p] = 0
				p--
			}
			if p < 0 {
				break
			}
		}
	}
	return out
}

func c02RandomTiny(rng *rand.Rand, count, minLen, maxLen int) []*c02Dataset {
	types := c02TinyRowTypes()
	var out []*c02Dataset
	for i := 0; i < count; i++ {
		n := minLen + rng.Intn(maxLen-minLen+1)
		rows := make([]c02Row, n)
		for j := range rows {
			rows[j] = types[rng.Intn(len(types))]
		}
		out = append(out, c02Explicit(rows))
	}
	return out
}
