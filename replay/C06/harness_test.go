package main

// Real-code harness for property C06:
//
//   If the process creating an index dies at any moment before Flush has returned, the output path is either
//   absent, or rejected by OpenIndex with an error, or opens as an index that answers every query exactly as the
//   completely written index does.  It is never accepted as an index that silently misses rows, values or bitmaps,
//   and opening it never panics or hangs.
//
// How crash points are produced WITHOUT any hook in the repository:
//
//   (A) commit granularity, deterministic, exhaustive per dataset.  The harness opens the output bbolt database
//       itself with bbolt.Options{Logger: ...}.  bbolt v1.4.0 calls Logger.Debugf("Committing transaction %d
//       successfully") synchronously at the end of every Tx.Commit; at that instant the file on disk is exactly
//       what a process dying after that commit leaves behind.  The logger copies the file.  The database handle is
//       then given to the real (*IndexWriter).WriteToBoltDatabase, resp. the real NewBigIndexWriter/AddRow/Flush.
//       Snapshot "0 commits" is the file right after bbolt.Open created it (what Flush's own bbolt.Open leaves
//       before the first commit); snapshot "zero-byte" is the file after O_CREATE and before bbolt initialised it.
//   (B) SIGKILL at arbitrary instants of `updog create`: the test binary re-executes itself as a child process that
//       runs the real main() with os.Args = updog create [-b] -o OUT IN.csv.  The parent polls the two bbolt meta
//       pages of OUT (txid) and the clock, and SIGKILLs the child when the trigger is reached.
//
// Every file obtained this way is copied to a fresh path and opened with the real updog.OpenIndex (options:
// on-demand, preloaded, LRU-cached) under recover() and a watchdog.  Allowed outcomes: absent, error, or an index
// whose schema and answers to all probe queries equal those of the completely written index.  The complete index is
// itself cross-checked against a row-by-row reference over the rows that were added (if that fails the harness
// aborts with exit status 3 = "harness could not run": it is a C01 problem, not a C06 violation).

import (
	"bytes"
	"crypto/sha256"
	"encoding/binary"
	"encoding/csv"
	"encoding/hex"
	"encoding/json"
	"fmt"
	"math/rand"
	"os"
	"os/exec"
	"path/filepath"
	"reflect"
	"runtime"
	"runtime/debug"
	"sort"
	"strconv"
	"strings"
	"sync"
	"testing"
	"time"

	"github.com/akrennmair/updog"
	"go.etcd.io/bbolt"
)

// ---------------------------------------------------------------------------------------------------------------
// case description (this is what is written to VERIF_OUT.input and read back in replay mode)

type c06Spec struct {
	Rows  int   `json:"rows"`  // number of rows added
	Cards []int `json:"cards"` // one column per entry (named a, b, c, ...) with that many distinct values
	Seed  int64 `json:"seed"`  // value assignment seed (0 = round robin)
}

type c06Trigger struct {
	// AfterTxid >= 0: SIGKILL as soon as the output file's highest valid meta txid is >= AfterTxid
	// (0/1 = file initialised by bbolt.Open, 2 = first commit of the writer, ...).
	// AfterTxid == -1: SIGKILL as soon as the output path exists.  AfterTxid == -2: use DelayMicros only.
	AfterTxid   int `json:"after_txid"`
	DelayMicros int `json:"delay_us"` // additional delay after the trigger condition (or after process start for -2)
}

type c06Input struct {
	Scenario   string      `json:"scenario"`             // "commit-prefix" | "sigkill"
	Writer     string      `json:"writer"`               // "mem" (WriteToBoltDatabase) | "big" (BigIndexWriter) | "cli" | "cli-big"
	Spec       c06Spec     `json:"dataset"`              //
	OutCommits int         `json:"out_commits"`          // commit-prefix: number of committed transactions of the writer in the output file (-1 = zero-byte file)
	Open       string      `json:"open"`                 // "ondemand" | "preload" | "cache"
	Trigger    *c06Trigger `json:"trigger,omitempty"`    // sigkill only
	Observed   string      `json:"observed,omitempty"`   // informational: what the crashed file looked like
	FileSHA256 string      `json:"file_sha256,omitempty"` // informational
}

type c06Case struct {
	Property string      `json:"property"`
	What     string      `json:"what"`
	Input    c06Input    `json:"input"`
	Expected interface{} `json:"expected"`
	Got      interface{} `json:"got"`
	Also     []string    `json:"also,omitempty"`
}

type c06Stats struct {
	Cases      int    `json:"cases"`
	Nontrivial int    `json:"distinct_nontrivial"`
	Bound      string `json:"bound"`
	Exhaustive bool   `json:"exhaustive"`
}

// ---------------------------------------------------------------------------------------------------------------
// dataset + row-by-row reference

var c06ColNames = []string{"a", "b", "c", "d", "e"}

func c06Rows(spec c06Spec) []map[string]string {
	var rng *rand.Rand
	if spec.Seed != 0 {
		rng = rand.New(rand.NewSource(spec.Seed))
	}
	rows := make([]map[string]string, 0, spec.Rows)
	for i := 0; i < spec.Rows; i++ {
		row := map[string]string{}
		for j, card := range spec.Cards {
			if card <= 0 {
				continue
			}
			v := 0
			switch {
			case card >= spec.Rows:
				v = i
			case rng != nil && i >= card:
				v = rng.Intn(card)
			case j%2 == 0:
				v = i % card
			default:
				v = (i / 2) % card
			}
			row[c06ColNames[j]] = "v" + strconv.Itoa(v)
		}
		rows = append(rows, row)
	}
	return rows
}

type c06Probe struct {
	Kind string `json:"kind"` // eq | not | group | all | badcol | badgroup
	Col  string `json:"col,omitempty"`
	Val  string `json:"val,omitempty"`
}

type c06Answer struct {
	Panic  string              `json:"panic,omitempty"`
	Err    bool                `json:"error"`
	ErrMsg string              `json:"error_text,omitempty"`
	Count  uint64              `json:"count"`
	Groups []updog.ResultGroup `json:"groups,omitempty"`
}

func (a c06Answer) same(b c06Answer) bool {
	if a.Panic != "" || b.Panic != "" {
		return false
	}
	if a.Err != b.Err {
		return false
	}
	if a.Err {
		return true
	}
	if a.Count != b.Count || len(a.Groups) != len(b.Groups) {
		return false
	}
	for i := range a.Groups {
		if !reflect.DeepEqual(a.Groups[i], b.Groups[i]) {
			return false
		}
	}
	return true
}

const c06Absent = "\x00no-such-value"

func (p c06Probe) query(firstCol string) *updog.Query {
	all := func() updog.Expression {
		return &updog.ExprNot{Expr: &updog.ExprEqual{Column: firstCol, Value: c06Absent}}
	}
	switch p.Kind {
	case "eq":
		return &updog.Query{Expr: &updog.ExprEqual{Column: p.Col, Value: p.Val}}
	case "not":
		return &updog.Query{Expr: &updog.ExprNot{Expr: &updog.ExprEqual{Column: p.Col, Value: p.Val}}}
	case "group":
		return &updog.Query{Expr: all(), GroupBy: []string{p.Col}}
	case "all":
		return &updog.Query{Expr: all()}
	case "badcol":
		return &updog.Query{Expr: &updog.ExprEqual{Column: "no_such_column", Value: "x"}}
	case "badgroup":
		return &updog.Query{Expr: all(), GroupBy: []string{"no_such_column"}}
	}
	panic("unknown probe kind " + p.Kind)
}

// reference: evaluate the probe row by row over the rows that were added.
func (p c06Probe) reference(rows []map[string]string, cols map[string]bool) c06Answer {
	switch p.Kind {
	case "eq", "not":
		if !cols[p.Col] {
			return c06Answer{Err: true}
		}
		var n uint64
		for _, r := range rows {
			v, ok := r[p.Col]
			if (ok && v == p.Val) == (p.Kind == "eq") {
				n++
			}
		}
		return c06Answer{Count: n}
	case "all":
		return c06Answer{Count: uint64(len(rows))}
	case "group":
		if !cols[p.Col] {
			return c06Answer{Err: true}
		}
		cnt := map[string]uint64{}
		for _, r := range rows {
			if v, ok := r[p.Col]; ok {
				cnt[v]++
			}
		}
		var vals []string
		for v := range cnt {
			vals = append(vals, v)
		}
		sort.Strings(vals)
		a := c06Answer{Count: uint64(len(rows))}
		for _, v := range vals {
			a.Groups = append(a.Groups, updog.ResultGroup{Fields: []updog.ResultField{{Column: p.Col, Value: v}}, Count: cnt[v]})
		}
		return a
	case "badcol", "badgroup":
		return c06Answer{Err: true}
	}
	panic("unknown probe kind " + p.Kind)
}

type c06Dataset struct {
	spec     c06Spec
	rows     []map[string]string
	cols     map[string]bool
	firstCol string
	nValues  int
	probes   []c06Probe
	ref      []c06Answer   // row-by-row reference answers
	schema   *updog.Schema // row-by-row reference schema
}

func c06MakeDataset(spec c06Spec) *c06Dataset {
	ds := &c06Dataset{spec: spec, rows: c06Rows(spec), cols: map[string]bool{}}
	vals := map[string]map[string]bool{}
	for _, r := range ds.rows {
		for c, v := range r {
			if vals[c] == nil {
				vals[c] = map[string]bool{}
			}
			vals[c][v] = true
			ds.cols[c] = true
		}
	}
	var cols []string
	for c := range vals {
		cols = append(cols, c)
	}
	sort.Strings(cols)
	ds.schema = &updog.Schema{}
	for _, c := range cols {
		sc := updog.SchemaColumn{Name: c}
		var vs []string
		for v := range vals[c] {
			vs = append(vs, v)
		}
		sort.Strings(vs)
		for _, v := range vs {
			sc.Values = append(sc.Values, updog.SchemaColumnValue{Value: v})
			ds.nValues++
			ds.probes = append(ds.probes, c06Probe{Kind: "eq", Col: c, Val: v})
		}
		// NOT probes: at most 40 per column, spread evenly
		step := len(vs)/40 + 1
		for i := 0; i < len(vs); i += step {
			ds.probes = append(ds.probes, c06Probe{Kind: "not", Col: c, Val: vs[i]})
		}
		ds.probes = append(ds.probes, c06Probe{Kind: "eq", Col: c, Val: c06Absent})
		ds.schema.Columns = append(ds.schema.Columns, sc)
	}
	if len(cols) > 0 {
		ds.firstCol = cols[0]
		ds.probes = append(ds.probes, c06Probe{Kind: "all"})
		for _, c := range cols {
			ds.probes = append(ds.probes, c06Probe{Kind: "group", Col: c})
		}
		ds.probes = append(ds.probes, c06Probe{Kind: "badgroup"})
	}
	ds.probes = append(ds.probes, c06Probe{Kind: "badcol"})
	for _, p := range ds.probes {
		ds.ref = append(ds.ref, p.reference(ds.rows, ds.cols))
	}
	return ds
}

// ---------------------------------------------------------------------------------------------------------------
// guarded execution

type c06Guard struct {
	Panic    string
	TimedOut bool
}

func c06Guarded(d time.Duration, f func()) c06Guard {
	done := make(chan c06Guard, 1)
	go func() {
		defer func() {
			if r := recover(); r != nil {
				st := string(debug.Stack())
				if len(st) > 1500 {
					st = st[:1500]
				}
				done <- c06Guard{Panic: fmt.Sprintf("%v\n%s", r, st)}
				return
			}
			done <- c06Guard{}
		}()
		f()
	}()
	select {
	case g := <-done:
		return g
	case <-time.After(d):
		return c06Guard{TimedOut: true}
	}
}

func c06OpenOpts(name string) []updog.IndexOption {
	switch name {
	case "ondemand":
		return nil
	case "preload":
		return []updog.IndexOption{updog.WithPreloadedData()}
	case "cache":
		return []updog.IndexOption{updog.WithCache(updog.NewLRUCache(8 << 20))}
	}
	panic("unknown open option " + name)
}

var c06OpenNames = []string{"ondemand", "preload", "cache"}

// c06OpenResult: outcome of OpenIndex + probes on one file.
type c06OpenResult struct {
	Absent    bool
	OpenPanic string
	OpenHang  bool
	OpenErr   string
	Rejected  bool
	Schema    *updog.Schema
	Answers   []c06Answer
	QueryHang bool
}

var c06Counter, c06Panics int
var c06CounterMu sync.Mutex

func c06FreshPath(t *testing.T, base string) string {
	c06CounterMu.Lock()
	c06Counter++
	n := c06Counter
	c06CounterMu.Unlock()
	dir := filepath.Join(base, fmt.Sprintf("case%06d", n))
	if err := os.MkdirAll(dir, 0755); err != nil {
		c06Abort("mkdir: %v", err)
	}
	return filepath.Join(dir, "out.updog")
}

var c06Base string

func c06Abort(format string, args ...interface{}) {
	fmt.Fprintf(os.Stderr, "C06 HARNESS ABORT (not a property violation): "+format+"\n", args...)
	if c06Base != "" {
		_ = os.RemoveAll(c06Base)
	}
	os.Exit(3)
}

// c06OpenAndProbe writes content to a fresh file, opens it with the real OpenIndex and runs all probes.
func c06OpenAndProbe(t *testing.T, base string, content []byte, open string, ds *c06Dataset) c06OpenResult {
	path := c06FreshPath(t, base)
	if err := os.WriteFile(path, content, 0644); err != nil {
		c06Abort("write snapshot: %v", err)
	}
	var res c06OpenResult
	var idx *updog.Index
	var err error
	g := c06Guarded(20*time.Second, func() { idx, err = updog.OpenIndex(path, c06OpenOpts(open)...) })
	switch {
	case g.Panic != "":
		res.OpenPanic = g.Panic
		// the panicking call leaked its descriptor and mmap: let finalizers reclaim descriptors now and then
		c06CounterMu.Lock()
		c06Panics++
		n := c06Panics
		c06CounterMu.Unlock()
		if n%200 == 0 {
			runtime.GC()
			runtime.GC()
		}
		return res
	case g.TimedOut:
		res.OpenHang = true
		return res
	case err != nil:
		res.Rejected = true
		res.OpenErr = err.Error()
		return res
	case idx == nil:
		res.OpenPanic = "OpenIndex returned (nil, nil)"
		return res
	}
	g = c06Guarded(120*time.Second, func() {
		var gs c06Guard
		gs = c06Guarded(20*time.Second, func() { res.Schema = idx.GetSchema() })
		if gs.Panic != "" || gs.TimedOut {
			res.Schema = nil
		}
		res.Answers = make([]c06Answer, len(ds.probes))
		for i, p := range ds.probes {
			func() {
				defer func() {
					if r := recover(); r != nil {
						res.Answers[i] = c06Answer{Panic: fmt.Sprint(r)}
					}
				}()
				r, err := idx.Execute(p.query(ds.firstCol))
				if err != nil {
					res.Answers[i] = c06Answer{Err: true, ErrMsg: err.Error()}
					return
				}
				res.Answers[i] = c06Answer{Count: r.Count, Groups: r.Groups}
			}()
		}
	})
	if g.TimedOut {
		res.QueryHang = true
		return res
	}
	c06Guarded(10*time.Second, func() { _ = idx.Close() })
	return res
}

func c06NormSchema(s *updog.Schema) *updog.Schema {
	if s == nil {
		return nil
	}
	if len(s.Columns) == 0 {
		return &updog.Schema{}
	}
	return s
}

// ---------------------------------------------------------------------------------------------------------------
// the search driver

type c06Run struct {
	t        *testing.T
	base     string
	out      string
	stats    c06Stats
	first    *c06Case
	kinds    map[string]bool
	also     []string
	deadline time.Time
}

func (r *c06Run) report(kind string, c c06Case) {
	if r.kinds[kind] {
		return
	}
	r.kinds[kind] = true
	c.Property = "C06"
	if r.first == nil {
		r.first = &c
		r.writeOut()
	} else {
		in, _ := json.Marshal(c.Input)
		r.also = append(r.also, fmt.Sprintf("%s: %s input=%s", kind, c.What, in))
		r.first.Also = r.also
		r.writeOut()
	}
	r.t.Logf("C06 VIOLATION [%s]: %s", kind, c.What)
}

func (r *c06Run) writeOut() {
	if r.out == "" || r.first == nil {
		return
	}
	b, _ := json.Marshal(r.first)
	_ = os.WriteFile(r.out, b, 0644)
}

func (r *c06Run) writeStats() {
	if p := os.Getenv("VERIF_STATS"); p != "" {
		b, _ := json.Marshal(r.stats)
		_ = os.WriteFile(p, b, 0644)
	}
}

// complete: the completely written index file.  Verifies it against the row reference (harness precondition) and
// returns the answers of the complete index, which are the expected answers for every crashed file.
func (r *c06Run) completeAnswers(content []byte, ds *c06Dataset, how string) (*updog.Schema, []c06Answer) {
	var schema *updog.Schema
	var answers []c06Answer
	for _, open := range c06OpenNames {
		res := c06OpenAndProbe(r.t, r.base, content, open, ds)
		if res.OpenPanic != "" || res.OpenHang || res.Rejected || res.QueryHang {
			c06Abort("the COMPLETE index (%s, dataset %+v, open %s) cannot be opened: %+v", how, ds.spec, open, res)
		}
		if !reflect.DeepEqual(c06NormSchema(res.Schema), c06NormSchema(ds.schema)) {
			c06Abort("the COMPLETE index (%s, dataset %+v, open %s) has a schema different from the rows added", how, ds.spec, open)
		}
		for i := range ds.probes {
			if !res.Answers[i].same(ds.ref[i]) {
				c06Abort("the COMPLETE index (%s, dataset %+v, open %s) answers probe %+v with %+v, row-by-row reference says %+v (this is a C01/C02 problem, C06 cannot be judged)",
					how, ds.spec, open, ds.probes[i], res.Answers[i], ds.ref[i])
			}
		}
		schema, answers = res.Schema, res.Answers
	}
	return schema, answers
}

// judge one crashed file against the property.
func (r *c06Run) judge(in c06Input, content []byte, absent bool, ds *c06Dataset, wantSchema *updog.Schema, want []c06Answer) {
	r.stats.Cases++
	if absent {
		return // allowed: output path absent
	}
	sum := sha256.Sum256(content)
	in.FileSHA256 = hex.EncodeToString(sum[:])
	res := c06OpenAndProbe(r.t, r.base, content, in.Open, ds)
	allowed := "output path absent, or OpenIndex returns an error, or the index answers every query like the completely written index"
	switch {
	case res.OpenPanic != "":
		r.report("panic-on-open", c06Case{What: "OpenIndex panics on the file left behind by a writer that died before Flush returned (" + in.Observed + ")",
			Input: in, Expected: allowed, Got: map[string]string{"panic": res.OpenPanic}})
	case res.OpenHang:
		r.report("hang-on-open", c06Case{What: "OpenIndex hangs (>20s) on the file left behind by a writer that died before Flush returned (" + in.Observed + ")",
			Input: in, Expected: allowed, Got: "no return within 20s"})
	case res.Rejected:
		// allowed
	case res.QueryHang:
		r.report("hang-on-query", c06Case{What: "a partial file was accepted by OpenIndex and queries on it hang (" + in.Observed + ")",
			Input: in, Expected: allowed, Got: "probe queries did not finish within 120s"})
	default:
		if !reflect.DeepEqual(c06NormSchema(res.Schema), c06NormSchema(wantSchema)) {
			r.report("accepted-partial", c06Case{What: "a partial file was accepted by OpenIndex with a schema different from the complete index (" + in.Observed + ")",
				Input: in, Expected: map[string]interface{}{"schema_columns": len(c06NormSchema(wantSchema).Columns)},
				Got: map[string]interface{}{"schema": res.Schema}})
			return
		}
		bad := 0
		var firstBad int
		for i := range ds.probes {
			if !res.Answers[i].same(want[i]) {
				if bad == 0 {
					firstBad = i
				}
				bad++
			}
		}
		if bad > 0 {
			kind := "accepted-partial"
			if res.Answers[firstBad].Panic != "" {
				kind = "accepted-partial-query-panic"
			}
			r.report(kind, c06Case{
				What: fmt.Sprintf("a partial file was accepted by OpenIndex without error and answers %d of %d probe queries differently from the completely written index (%s)",
					bad, len(ds.probes), in.Observed),
				Input:    in,
				Expected: map[string]interface{}{"probe": ds.probes[firstBad], "answer_of_complete_index": want[firstBad], "or": "OpenIndex error"},
				Got:      map[string]interface{}{"open_error": nil, "probe": ds.probes[firstBad], "answer": res.Answers[firstBad], "differing_probes": bad},
			})
		}
	}
}

// ---------------------------------------------------------------------------------------------------------------
// (A) commit-granularity snapshots via bbolt.Options.Logger

type c06Logger struct {
	onCommit func()
}

func (l *c06Logger) Debug(v ...interface{}) {}
func (l *c06Logger) Debugf(format string, v ...interface{}) {
	if strings.HasPrefix(format, "Committing transaction") && strings.HasSuffix(format, "successfully") && l.onCommit != nil {
		l.onCommit()
	}
}
func (l *c06Logger) Error(v ...interface{})                   {}
func (l *c06Logger) Errorf(format string, v ...interface{})   {}
func (l *c06Logger) Info(v ...interface{})                    {}
func (l *c06Logger) Infof(format string, v ...interface{})    {}
func (l *c06Logger) Warning(v ...interface{})                 {}
func (l *c06Logger) Warningf(format string, v ...interface{}) {}
func (l *c06Logger) Fatal(v ...interface{})                   { panic(fmt.Sprint(v...)) }
func (l *c06Logger) Fatalf(format string, v ...interface{})   { panic(fmt.Sprintf(format, v...)) }
func (l *c06Logger) Panic(v ...interface{})                   { panic(fmt.Sprint(v...)) }
func (l *c06Logger) Panicf(format string, v ...interface{})   { panic(fmt.Sprintf(format, v...)) }

type c06Snap struct {
	OutCommits  int // committed transactions of the writer in the output file so far
	TempCommits int // big writer: committed transactions on the temp db so far
	Content     []byte
}

// c06Snapshots runs the real writer and returns the file after every commit (index 0 = right after bbolt.Open) and
// the final file after the writer returned and the db was closed.
func (r *c06Run) c06Snapshots(writer string, ds *c06Dataset) (snaps []c06Snap, final []byte) {
	dir := filepath.Dir(c06FreshPath(r.t, r.base))
	outPath := filepath.Join(dir, "out.updog")
	tmpPath := filepath.Join(dir, "temp.bolt")
	outCommits, tempCommits := 0, 0
	take := func() {
		b, err := os.ReadFile(outPath)
		if err != nil {
			c06Abort("snapshot read: %v", err)
		}
		snaps = append(snaps, c06Snap{OutCommits: outCommits, TempCommits: tempCommits, Content: b})
	}
	outLog := &c06Logger{}
	db, err := bbolt.Open(outPath, 0644, &bbolt.Options{Logger: outLog, Timeout: 5 * time.Second, NoSync: true})
	if err != nil {
		c06Abort("bbolt.Open output: %v", err)
	}
	take() // prefix "none": database file created, no transaction of the writer committed
	outLog.onCommit = func() { outCommits++; take() }

	var werr error
	var g c06Guard
	switch writer {
	case "mem":
		w := updog.NewIndexWriter(filepath.Join(dir, "unused.updog"))
		g = c06Guarded(120*time.Second, func() {
			for _, row := range ds.rows {
				if _, err := w.AddRow(row); err != nil {
					werr = err
					return
				}
			}
			werr = w.WriteToBoltDatabase(db)
		})
	case "big":
		tmpLog := &c06Logger{}
		tdb, err := bbolt.Open(tmpPath, 0600, &bbolt.Options{Logger: tmpLog, Timeout: 5 * time.Second, NoSync: true})
		if err != nil {
			c06Abort("bbolt.Open temp: %v", err)
		}
		tmpLog.onCommit = func() { tempCommits++; take() }
		g = c06Guarded(120*time.Second, func() {
			w, err := updog.NewBigIndexWriter(db, tdb)
			if err != nil {
				werr = err
				return
			}
			for _, row := range ds.rows {
				if _, err := w.AddRow(row); err != nil {
					werr = err
					return
				}
			}
			take() // all rows added, Flush not yet called
			werr = w.Flush()
		})
		if !g.TimedOut {
			_ = tdb.Close()
		}
	default:
		panic("unknown writer " + writer)
	}
	if g.Panic != "" || g.TimedOut || werr != nil {
		c06Abort("the writer %q itself failed on dataset %+v: err=%v guard=%+v (not a C06 matter)", writer, ds.spec, werr, g)
	}
	if err := db.Close(); err != nil {
		c06Abort("close output: %v", err)
	}
	if outCommits == 0 {
		c06Abort("bbolt logger hook did not fire: no commit observed on the output database (bbolt version changed?)")
	}
	final, err = os.ReadFile(outPath)
	if err != nil {
		c06Abort("read final: %v", err)
	}
	return snaps, final
}

func (r *c06Run) commitPrefixCases(writer string, spec c06Spec, onlyOpen string, onlyCommits *int) {
	ds := c06MakeDataset(spec)
	snaps, final := r.c06Snapshots(writer, ds)
	wantSchema, want := r.completeAnswers(final, ds, "writer "+writer)
	lastCommits := snaps[len(snaps)-1].OutCommits

	seen := map[[32]byte]bool{}
	type item struct {
		snap c06Snap
		obs  string
	}
	var items []item
	for _, s := range snaps {
		h := sha256.Sum256(s.Content)
		if seen[h] {
			continue
		}
		seen[h] = true
		obs := fmt.Sprintf("file after %d of %d commits of the %s writer on the output database", s.OutCommits, lastCommits, writer)
		if writer == "big" {
			obs += fmt.Sprintf(", %d commits on the temp database", s.TempCommits)
		}
		items = append(items, item{s, obs})
	}
	// the file after O_CREATE and before bbolt wrote its first pages
	items = append(items, item{c06Snap{OutCommits: -1}, "zero-byte file: created, nothing written yet"})

	for _, it := range items {
		if onlyCommits != nil && *onlyCommits != it.snap.OutCommits {
			continue
		}
		complete := it.snap.OutCommits == lastCommits
		for _, open := range c06OpenNames {
			if onlyOpen != "" && onlyOpen != open {
				continue
			}
			in := c06Input{Scenario: "commit-prefix", Writer: writer, Spec: spec, OutCommits: it.snap.OutCommits, Open: open, Observed: it.obs}
			if !complete {
				r.stats.Nontrivial++
			}
			r.judge(in, it.snap.Content, false, ds, wantSchema, want)
		}
	}
}

// ---------------------------------------------------------------------------------------------------------------
// (B) SIGKILL of `updog create`

const c06ChildEnv = "VERIF_C06_CHILD_ARGS"

func c06ChildMain() {
	var args []string
	if err := json.Unmarshal([]byte(os.Getenv(c06ChildEnv)), &args); err != nil {
		fmt.Fprintln(os.Stderr, "bad child args:", err)
		os.Exit(97)
	}
	os.Args = append([]string{"updog"}, args...)
	main() // the real command line entry point; calls os.Exit(1) on error
	os.Exit(0)
}

func c06WriteCSV(path string, ds *c06Dataset) {
	var buf bytes.Buffer
	w := csv.NewWriter(&buf)
	var cols []string
	for j, card := range ds.spec.Cards {
		if card > 0 {
			cols = append(cols, c06ColNames[j])
		}
	}
	_ = w.Write(cols)
	for _, row := range ds.rows {
		rec := make([]string, len(cols))
		for i, c := range cols {
			rec[i] = row[c]
		}
		_ = w.Write(rec)
	}
	w.Flush()
	if err := os.WriteFile(path, buf.Bytes(), 0644); err != nil {
		c06Abort("write csv: %v", err)
	}
}

// c06MetaTxid returns the highest txid of the valid-looking bbolt meta pages of the file, -1 if none, -2 if absent.
func c06MetaTxid(path string) int {
	f, err := os.Open(path)
	if err != nil {
		return -2
	}
	defer f.Close()
	ps := os.Getpagesize()
	buf := make([]byte, 2*ps)
	n, _ := f.ReadAt(buf, 0)
	best := -1
	for i := 0; i < 2; i++ {
		off := i * ps
		if n < off+80 {
			continue
		}
		if binary.LittleEndian.Uint32(buf[off+16:]) != 0xED0CDAED {
			continue
		}
		tx := int(binary.LittleEndian.Uint64(buf[off+64:]))
		if tx > best {
			best = tx
		}
	}
	return best
}

type c06KillResult struct {
	Completed bool // child exited by itself before the trigger
	ExitOK    bool
	Absent    bool
	Content   []byte
	TxidSeen  int
	Elapsed   time.Duration
	Stderr    string
}

func (r *c06Run) runCreate(ds *c06Dataset, big bool, trig *c06Trigger) c06KillResult {
	dir := filepath.Dir(c06FreshPath(r.t, r.base))
	csvPath := filepath.Join(dir, "in.csv")
	outPath := filepath.Join(dir, "out.updog")
	tmpDir := filepath.Join(dir, "tmp")
	_ = os.MkdirAll(tmpDir, 0755)
	c06WriteCSV(csvPath, ds)
	args := []string{"create", "-o", outPath}
	if big {
		args = append(args, "-b")
	}
	args = append(args, csvPath)
	ab, _ := json.Marshal(args)
	cmd := exec.Command(os.Args[0], "-test.run=^TestVerifHarnessC06$", "-test.timeout=120s")
	var stderr bytes.Buffer
	cmd.Stderr = &stderr
	cmd.Env = append(os.Environ(), c06ChildEnv+"="+string(ab), "TMPDIR="+tmpDir)
	start := time.Now()
	if err := cmd.Start(); err != nil {
		c06Abort("cannot start child: %v", err)
	}
	exited := make(chan error, 1)
	go func() { exited <- cmd.Wait() }()

	var res c06KillResult
	res.TxidSeen = -2
	var werr error
	killed := false
	hardStop := time.After(90 * time.Second)
	if trig == nil {
		select {
		case werr = <-exited:
			res.Completed = true
		case <-hardStop:
			_ = cmd.Process.Kill()
			<-exited
			c06Abort("`updog create` did not finish within 90s")
		}
	} else {
		var fireAt time.Time
		if trig.AfterTxid == -2 {
			fireAt = start.Add(time.Duration(trig.DelayMicros) * time.Microsecond)
		}
	loop:
		for {
			select {
			case werr = <-exited:
				res.Completed = true
				break loop
			case <-hardStop:
				_ = cmd.Process.Kill()
				<-exited
				c06Abort("`updog create` did not finish within 90s")
			default:
			}
			if fireAt.IsZero() {
				tx := c06MetaTxid(outPath)
				if (trig.AfterTxid == -1 && tx > -2) || (trig.AfterTxid >= 0 && tx >= trig.AfterTxid) {
					res.TxidSeen = tx
					fireAt = time.Now().Add(time.Duration(trig.DelayMicros) * time.Microsecond)
				}
			}
			if !fireAt.IsZero() && !time.Now().Before(fireAt) {
				_ = cmd.Process.Kill() // SIGKILL
				werr = <-exited
				killed = true
				break loop
			}
			if fireAt.IsZero() {
				time.Sleep(20 * time.Microsecond)
			} else if d := time.Until(fireAt); d > 200*time.Microsecond {
				time.Sleep(100 * time.Microsecond)
			}
		}
	}
	_ = killed
	res.Elapsed = time.Since(start)
	res.ExitOK = res.Completed && werr == nil
	res.Stderr = stderr.String()
	b, err := os.ReadFile(outPath)
	if err != nil {
		if os.IsNotExist(err) {
			res.Absent = true
		} else {
			c06Abort("read output of child: %v", err)
		}
	}
	res.Content = b
	if !res.Absent {
		res.TxidSeen = c06MetaTxid(outPath)
	}
	_ = os.RemoveAll(tmpDir)
	return res
}

type c06CLIRef struct {
	ds         *c06Dataset
	wantSchema *updog.Schema
	want       []c06Answer
	finalTxid  int
	duration   time.Duration
}

func (r *c06Run) cliReference(spec c06Spec, big bool) *c06CLIRef {
	ds := c06MakeDataset(spec)
	res := r.runCreate(ds, big, nil)
	if !res.ExitOK || res.Absent {
		c06Abort("un-killed `updog create` (big=%v) failed on dataset %+v: %s", big, spec, res.Stderr)
	}
	ws, want := r.completeAnswers(res.Content, ds, fmt.Sprintf("updog create big=%v", big))
	return &c06CLIRef{ds: ds, wantSchema: ws, want: want, finalTxid: res.TxidSeen, duration: res.Elapsed}
}

func (r *c06Run) sigkillCase(ref *c06CLIRef, big bool, trig c06Trigger, onlyOpen string) {
	writer := "cli"
	if big {
		writer = "cli-big"
	}
	res := r.runCreate(ref.ds, big, &trig)
	var obs string
	switch {
	case res.Completed && res.ExitOK:
		obs = "child finished before the kill trigger"
	case res.Completed:
		c06Abort("`updog create` failed by itself: %s", res.Stderr)
	case res.Absent:
		obs = "killed; output path absent"
	default:
		obs = fmt.Sprintf("killed after %.1f ms; output file has %d bytes, highest meta txid %d (complete file: txid %d)",
			float64(res.Elapsed.Microseconds())/1000, len(res.Content), res.TxidSeen, ref.finalTxid)
	}
	nontrivial := !res.Completed && !res.Absent && res.TxidSeen != ref.finalTxid
	r.t.Logf("sigkill %s trigger=%+v: %s", writer, trig, obs)
	for _, open := range c06OpenNames {
		if onlyOpen != "" && onlyOpen != open {
			continue
		}
		t := trig
		in := c06Input{Scenario: "sigkill", Writer: writer, Spec: ref.ds.spec, Open: open, Trigger: &t, Observed: obs, OutCommits: res.TxidSeen - 1}
		if nontrivial {
			r.stats.Nontrivial++
		}
		r.judge(in, res.Content, res.Absent, ref.ds, ref.wantSchema, ref.want)
	}
}

// ---------------------------------------------------------------------------------------------------------------

func TestVerifHarnessC06(t *testing.T) {
	if os.Getenv(c06ChildEnv) != "" {
		c06ChildMain()
		return
	}
	bound := os.Getenv("VERIF_BOUND")
	if bound == "" {
		bound = "quick"
	}
	seed := int64(1)
	if s := os.Getenv("VERIF_SEED"); s != "" {
		if v, err := strconv.ParseInt(s, 10, 64); err == nil {
			seed = v
		}
	}
	r := &c06Run{t: t, base: t.TempDir(), out: os.Getenv("VERIF_OUT"), kinds: map[string]bool{}}
	c06Base = r.base
	defer r.writeStats()

	if os.Getenv("VERIF_MODE") == "replay" {
		r.stats.Bound = "replay of one case"
		b, err := os.ReadFile(os.Getenv("VERIF_CASE"))
		if err != nil {
			c06Abort("cannot read VERIF_CASE: %v", err)
		}
		var c c06Case
		if err := json.Unmarshal(b, &c); err != nil {
			c06Abort("cannot parse VERIF_CASE: %v", err)
		}
		in := c.Input
		switch in.Scenario {
		case "commit-prefix":
			n := in.OutCommits
			r.commitPrefixCases(in.Writer, in.Spec, in.Open, &n)
		case "sigkill":
			big := in.Writer == "cli-big"
			ref := r.cliReference(in.Spec, big)
			trig := c06Trigger{AfterTxid: -1}
			if in.Trigger != nil {
				trig = *in.Trigger
			}
			for i := 0; i < 6 && r.first == nil; i++ { // timing dependent: a few attempts
				r.sigkillCase(ref, big, trig, in.Open)
			}
		default:
			c06Abort("unknown scenario %q", in.Scenario)
		}
		r.writeStats()
		if r.first != nil {
			t.Fatalf("C06 violated (replay): %s", r.first.What)
		}
		return
	}

	// ------------------------------------------------------------------ search
	// datasets on both sides of the 1000-value batch (in-memory writer commits every 1000 bitmaps) and of the
	// 1000-row batch (big writer commits its temp db when rowID%1000 == 0).
	small := []c06Spec{
		{Rows: 1, Cards: []int{1}},
		{Rows: 3, Cards: []int{2, 2}},
		{Rows: 0, Cards: nil},
	}
	edge := []c06Spec{
		{Rows: 1001, Cards: []int{1001}},       // 1001 values: 2 commits, the second holds 1 bitmap
		{Rows: 1000, Cards: []int{1000}},       // exactly 1000 values: commit + empty final commit
		{Rows: 999, Cards: []int{999}},         // 999 values: single commit
		{Rows: 1001, Cards: []int{3, 4}},       // > 1000 rows, 7 values
		{Rows: 2001, Cards: []int{5, 2001, 2}}, // 2008 values, 3 commits; 2 temp commits of the big writer
		{Rows: 1000, Cards: []int{7}},          // rowIDs 0..999: no temp commit
		{Rows: 999, Cards: []int{600, 500}},    // < 1000 rows, 1100 values
	}
	var large []c06Spec
	if bound == "thorough" {
		rng := rand.New(rand.NewSource(seed))
		large = append(large,
			c06Spec{Rows: 2000, Cards: []int{2000}},
			c06Spec{Rows: 2002, Cards: []int{1001, 1001}, Seed: seed},
			c06Spec{Rows: 5000, Cards: []int{5000, 5000, 11}},
			c06Spec{Rows: 12000, Cards: []int{12000, 13}, Seed: seed + 1},
		)
		for i := 0; i < 14; i++ {
			rows := 1 + rng.Intn(3500)
			nc := 1 + rng.Intn(3)
			var cards []int
			for j := 0; j < nc; j++ {
				switch rng.Intn(3) {
				case 0:
					cards = append(cards, 1+rng.Intn(10))
				case 1:
					cards = append(cards, 1+rng.Intn(rows))
				default:
					cards = append(cards, rows)
				}
			}
			large = append(large, c06Spec{Rows: rows, Cards: cards, Seed: rng.Int63n(1 << 30)})
		}
	}

	// cheap and likely-to-fail first
	for _, spec := range small {
		r.commitPrefixCases("mem", spec, "", nil)
		r.commitPrefixCases("big", spec, "", nil)
	}
	for _, spec := range edge {
		r.commitPrefixCases("mem", spec, "", nil)
		r.commitPrefixCases("big", spec, "", nil)
	}

	// SIGKILL of the command line tool
	killSpec := c06Spec{Rows: 6000, Cards: []int{6000, 3000}} // 9000 values: 10 commits during Flush
	nRandom := 6
	if bound == "thorough" {
		nRandom = 60
	}
	for _, big := range []bool{false, true} {
		ref := r.cliReference(killSpec, big)
		var trigs []c06Trigger
		trigs = append(trigs, c06Trigger{AfterTxid: -1}, c06Trigger{AfterTxid: 0})
		if !big {
			for tx := 2; tx < ref.finalTxid; tx++ {
				if bound == "thorough" || tx == 2 || tx == 3 || tx == ref.finalTxid/2 || tx == ref.finalTxid-1 {
					trigs = append(trigs, c06Trigger{AfterTxid: tx})
				}
			}
		}
		rng := rand.New(rand.NewSource(seed + 77))
		for i := 0; i < nRandom; i++ {
			// arbitrary instants: uniformly over the run time of the un-killed command
			trigs = append(trigs, c06Trigger{AfterTxid: -2, DelayMicros: rng.Intn(int(ref.duration.Microseconds()) + 1)})
			if i%2 == 0 {
				// and arbitrary instants after the output file appeared
				trigs = append(trigs, c06Trigger{AfterTxid: -1, DelayMicros: rng.Intn(int(ref.duration.Microseconds())/2 + 1)})
			}
		}
		for _, trig := range trigs {
			r.sigkillCase(ref, big, trig, "")
		}
	}
	if bound == "thorough" {
		// a second CLI dataset just above the batch size
		spec := c06Spec{Rows: 1500, Cards: []int{1500}}
		ref := r.cliReference(spec, false)
		rng := rand.New(rand.NewSource(seed + 99))
		for i := 0; i < 30; i++ {
			r.sigkillCase(ref, false, c06Trigger{AfterTxid: 2, DelayMicros: rng.Intn(300)}, "")
			r.sigkillCase(ref, false, c06Trigger{AfterTxid: -1, DelayMicros: rng.Intn(int(ref.duration.Microseconds())/2 + 1)}, "")
		}
	}

	for _, spec := range large {
		r.commitPrefixCases("mem", spec, "", nil)
		r.commitPrefixCases("big", spec, "", nil)
	}

	r.stats.Exhaustive = false
	r.stats.Bound = fmt.Sprintf("bound=%s seed=%d: every committed prefix (incl. none and the zero-byte file) of WriteToBoltDatabase and of BigIndexWriter AddRow+Flush for %d datasets "+
		"(rows 0..%d, distinct values on both sides of 1000, rows on both sides of 1000) x open options {ondemand, preload, cache}; "+
		"SIGKILL of `updog create` and `updog create -b` (6000 rows, 9000 values) at txid-triggered and %d random instants each; "+
		"every accepted file probed with Equal on every value, NOT, all-rows, group-by on every column, unknown column, schema",
		bound, seed, len(small)+len(edge)+len(large), maxRows(small, edge, large), nRandom)
	r.writeStats()
	if r.first != nil {
		t.Fatalf("C06 violated: %s (kinds found: %v)", r.first.What, keys(r.kinds))
	}
}

func maxRows(lists ...[]c06Spec) int {
	m := 0
	for _, l := range lists {
		for _, s := range l {
			if s.Rows > m {
				m = s.Rows
			}
		}
	}
	return m
}

func keys(m map[string]bool) []string {
	var ks []string
	for k := range m {
		ks = append(ks, k)
	}
	sort.Strings(ks)
	return ks
}
