package updog

// Real-code oracle harness for property C03 (result caches are transparent, evaluation is side-effect free).
//
// For every case (data set, cache configuration, preloading on/off, sequence of queries) the sequence is executed
// on ONE index opened with the given options; each result is compared with the result the same query yields when it
// is executed ALONE on a freshly opened index WITHOUT cache and WITHOUT preloading (this is the oracle the property
// statement names).  As a second, independent opinion every expected result is also computed row by row over the
// rows that were added; the row-by-row value is attached to a violation report (and a disagreement between it and
// the fresh index is only logged: that would be a defect of another property, not of C03).
//
// Only the public API is used (IndexWriter, OpenIndex/OpenIndexFromBoltDatabase, WithCache, NewLRUCache,
// WithPreloadedData, Execute, Expr*), so the harness keeps compiling when cache keys are computed differently.

import (
	"encoding/json"
	"fmt"
	"math/rand"
	"os"
	"path/filepath"
	"reflect"
	"sort"
	"strconv"
	"strings"
	"sync"
	"sync/atomic"
	"testing"
	"time"

	"go.etcd.io/bbolt"
)

// ------------------------------------------------------------------------------------------------ case format

type c03E struct {
	Op   string `json:"op"` // eq | not | and | or
	Col  string `json:"col,omitempty"`
	Val  string `json:"val,omitempty"`
	Args []c03E `json:"args,omitempty"`
}

type c03Query struct {
	Expr    c03E     `json:"expr"`
	GroupBy []string `json:"group_by,omitempty"`
	Text    string   `json:"text,omitempty"` // informational
}

type c03DataSpec struct {
	Name string              `json:"name"`
	Rows []map[string]string `json:"rows,omitempty"` // explicit rows, or
	GenN int                 `json:"gen_rows,omitempty"`
	Kind string              `json:"gen_kind,omitempty"` // "random" | "big"
	Seed int64               `json:"gen_seed,omitempty"`
}

type c03Config struct {
	Cache    string `json:"cache"` // "none" | "lru"
	Capacity uint64 `json:"capacity,omitempty"`
	Preload  bool   `json:"preload"`
}

type c03Case struct {
	Data    c03DataSpec `json:"dataset"`
	Config  c03Config   `json:"config"`
	Queries []c03Query  `json:"queries"`
}

type c03Res struct {
	Count  uint64        `json:"count"`
	Groups []ResultGroup `json:"groups,omitempty"`
	Err    string        `json:"error,omitempty"`
	Panic  string        `json:"panic,omitempty"`
}

type c03Violation struct {
	Property string      `json:"property"`
	What     string      `json:"what"`
	Input    c03Case     `json:"input"`
	Expected interface{} `json:"expected"`
	Got      interface{} `json:"got"`
}

func c03Eq(c, v string) c03E   { return c03E{Op: "eq", Col: c, Val: v} }
func c03Not(e c03E) c03E       { return c03E{Op: "not", Args: []c03E{e}} }
func c03And(es ...c03E) c03E   { return c03E{Op: "and", Args: append([]c03E{}, es...)} }
func c03Or(es ...c03E) c03E    { return c03E{Op: "or", Args: append([]c03E{}, es...)} }
func (e c03E) other() string   { return map[string]string{"and": "or", "or": "and"}[e.Op] }
func (e c03E) isNary() bool    { return e.Op == "and" || e.Op == "or" }
func (q c03Query) key() string { return q.Expr.text() + "|" + strings.Join(q.GroupBy, ",") }

func (e c03E) text() string {
	switch e.Op {
	case "eq":
		return e.Col + "=" + strconv.Quote(e.Val)
	case "not":
		return "^" + e.Args[0].text()
	default:
		parts := make([]string, len(e.Args))
		for i, a := range e.Args {
			parts[i] = a.text()
		}
		sep := " & "
		if e.Op == "or" {
			sep = " | "
		}
		return strings.ToUpper(e.Op) + "(" + strings.Join(parts, sep) + ")"
	}
}

func (e c03E) build() Expression {
	switch e.Op {
	case "eq":
		return &ExprEqual{Column: e.Col, Value: e.Val}
	case "not":
		return &ExprNot{Expr: e.Args[0].build()}
	case "and":
		x := &ExprAnd{}
		for _, a := range e.Args {
			x.Exprs = append(x.Exprs, a.build())
		}
		return x
	case "or":
		x := &ExprOr{}
		for _, a := range e.Args {
			x.Exprs = append(x.Exprs, a.build())
		}
		return x
	}
	panic("harness: bad expression op " + e.Op)
}

// row-by-row meaning (empty AND / OR follow the code's convention "no rows"; never used for the verdict)
func (e c03E) holds(row map[string]string) bool {
	switch e.Op {
	case "eq":
		v, ok := row[e.Col]
		return ok && v == e.Val
	case "not":
		return !e.Args[0].holds(row)
	case "and":
		if len(e.Args) == 0 {
			return false
		}
		for _, a := range e.Args {
			if !a.holds(row) {
				return false
			}
		}
		return true
	default:
		for _, a := range e.Args {
			if a.holds(row) {
				return true
			}
		}
		return false
	}
}

// ------------------------------------------------------------------------------------------------ data sets

type c03Dataset struct {
	spec   c03DataSpec
	rows   []map[string]string
	file   string
	db     *bbolt.DB
	cols   map[string][]string // column -> sorted values
	leaves []c03E
	expMu  sync.Mutex
	exp    map[string]*c03Res // fresh-index result per query key
	rowRef map[string]*c03Res // row-by-row result per query key

	refChecked, refMismatch int    // informational: fresh index vs row-by-row reference
	refExample              string //
}

func c03GenRows(spec c03DataSpec) []map[string]string {
	if len(spec.Rows) > 0 || spec.GenN == 0 {
		return spec.Rows
	}
	rng := rand.New(rand.NewSource(spec.Seed))
	rows := make([]map[string]string, 0, spec.GenN)
	for i := 0; i < spec.GenN; i++ {
		r := map[string]string{}
		if spec.Kind == "big" {
			// a: long runs (run containers), b: dense random (bitmap containers), c: sparse (array containers), d: 3 values
			if (i/5000)%2 == 0 {
				r["a"] = "1"
			} else {
				r["a"] = "2"
			}
			r["b"] = strconv.Itoa(1 + rng.Intn(2))
			if rng.Intn(100) == 0 {
				r["c"] = "1"
			} else if rng.Intn(3) == 0 {
				r["c"] = "2"
			}
			r["d"] = strconv.Itoa(1 + rng.Intn(3))
		} else {
			if rng.Intn(10) < 8 {
				r["a"] = strconv.Itoa(1 + rng.Intn(3))
			}
			if rng.Intn(10) < 8 {
				r["b"] = strconv.Itoa(1 + rng.Intn(4))
			}
			if rng.Intn(10) < 9 {
				r["c"] = strconv.Itoa(1 + rng.Intn(2))
			}
			if rng.Intn(10) < 5 {
				r["d"] = strconv.Itoa(1 + rng.Intn(10))
			}
		}
		rows = append(rows, r)
	}
	return rows
}

func c03TinyRows() []map[string]string {
	var rows []map[string]string
	for _, a := range []string{"1", "2"} {
		for _, b := range []string{"1", "2"} {
			for _, c := range []string{"1", "2"} {
				rows = append(rows, map[string]string{"a": a, "b": b, "c": c})
			}
		}
	}
	rows = append(rows, map[string]string{"a": "1"}, map[string]string{"b": "1"}, map[string]string{"b": "1"}, map[string]string{"c": "2"},
		map[string]string{"a": "2", "b": "1"}, map[string]string{"d": "x"}, map[string]string{"a": "1", "c": "1", "d": "x"})
	return rows
}

func c03BuildDataset(dir string, spec c03DataSpec) (*c03Dataset, error) {
	ds := &c03Dataset{spec: spec, rows: c03GenRows(spec), exp: map[string]*c03Res{}, rowRef: map[string]*c03Res{}, cols: map[string][]string{}}
	ds.file = filepath.Join(dir, "c03-"+spec.Name+".updog")
	w := NewIndexWriter(ds.file)
	seen := map[string]map[string]bool{}
	for _, r := range ds.rows {
		cp := map[string]string{}
		for k, v := range r {
			cp[k] = v
			if seen[k] == nil {
				seen[k] = map[string]bool{}
			}
			seen[k][v] = true
		}
		if _, err := w.AddRow(cp); err != nil {
			return nil, err
		}
	}
	if err := w.Flush(); err != nil {
		return nil, err
	}
	var colNames []string
	for c, vs := range seen {
		colNames = append(colNames, c)
		for v := range vs {
			ds.cols[c] = append(ds.cols[c], v)
		}
		sort.Strings(ds.cols[c])
	}
	sort.Strings(colNames)
	for _, c := range colNames {
		for _, v := range ds.cols[c] {
			ds.leaves = append(ds.leaves, c03Eq(c, v))
		}
	}
	db, err := bbolt.Open(ds.file, 0o600, &bbolt.Options{ReadOnly: true, Timeout: 10 * time.Second})
	if err != nil {
		return nil, err
	}
	ds.db = db
	return ds, nil
}

func c03Exec(idx *Index, q c03Query) (res *c03Res) {
	res = &c03Res{}
	defer func() {
		if r := recover(); r != nil {
			res = &c03Res{Panic: fmt.Sprint(r)}
		}
	}()
	qq := &Query{Expr: q.Expr.build(), GroupBy: append([]string(nil), q.GroupBy...)}
	r, err := idx.Execute(qq)
	if err != nil {
		return &c03Res{Err: "error"} // only the fact that an error is returned is compared
	}
	out := &c03Res{Count: r.Count}
	for _, g := range r.Groups {
		out.Groups = append(out.Groups, ResultGroup{Fields: append([]ResultField(nil), g.Fields...), Count: g.Count})
	}
	return out
}

func c03Same(a, b *c03Res) bool {
	if a.Panic != "" || b.Panic != "" {
		return false
	}
	if (a.Err != "") != (b.Err != "") {
		return false
	}
	if a.Count != b.Count || len(a.Groups) != len(b.Groups) {
		return false
	}
	for i := range a.Groups {
		if a.Groups[i].Count != b.Groups[i].Count || len(a.Groups[i].Fields) != len(b.Groups[i].Fields) {
			return false
		}
		if len(a.Groups[i].Fields) > 0 && !reflect.DeepEqual(a.Groups[i].Fields, b.Groups[i].Fields) {
			return false
		}
	}
	return true
}

func (ds *c03Dataset) openOpts(cfg c03Config) []IndexOption {
	var opts []IndexOption
	if cfg.Cache == "lru" {
		opts = append(opts, WithCache(NewLRUCache(cfg.Capacity)))
	}
	if cfg.Preload {
		opts = append(opts, WithPreloadedData())
	}
	return opts
}

// expected: the query alone on a freshly opened index without cache and without preloading.
func (ds *c03Dataset) expected(q c03Query) (*c03Res, error) {
	k := q.key()
	ds.expMu.Lock()
	r, ok := ds.exp[k]
	ds.expMu.Unlock()
	if ok {
		return r, nil
	}
	idx, err := OpenIndexFromBoltDatabase(ds.db)
	if err != nil {
		return nil, fmt.Errorf("opening the fresh reference index failed: %w", err)
	}
	r = c03Exec(idx, q)
	var rw *c03Res
	if len(ds.rows) <= 1000 {
		rw = ds.rowwise(q)
	}
	ds.expMu.Lock()
	ds.exp[k] = r
	if rw != nil {
		ds.refChecked++
		if !c03Same(r, rw) {
			ds.refMismatch++
			if ds.refExample == "" {
				a, _ := json.Marshal(r)
				b, _ := json.Marshal(rw)
				ds.refExample = fmt.Sprintf("%s group by %v: fresh index %s, row by row %s", q.Expr.text(), q.GroupBy, a, b)
			}
		}
	}
	ds.expMu.Unlock()
	return r, nil
}

// rowwise: row-by-row reference (second opinion, informational).
func (ds *c03Dataset) rowwise(q c03Query) *c03Res {
	k := q.key()
	ds.expMu.Lock()
	r, ok := ds.rowRef[k]
	ds.expMu.Unlock()
	if ok {
		return r
	}
	r = &c03Res{}
	unknown := false
	var walk func(e c03E)
	walk = func(e c03E) {
		if e.Op == "eq" {
			if _, ok := ds.cols[e.Col]; !ok {
				unknown = true
			}
		}
		for _, a := range e.Args {
			walk(a)
		}
	}
	walk(q.Expr)
	for _, g := range q.GroupBy {
		if _, ok := ds.cols[g]; !ok {
			unknown = true
		}
	}
	if unknown {
		r.Err = "error (unknown column; the code may skip the check when a parent is answered before reaching the leaf)"
	} else {
		counts := map[string]uint64{}
		for _, row := range ds.rows {
			if !q.Expr.holds(row) {
				continue
			}
			r.Count++
			if len(q.GroupBy) > 0 {
				var parts []string
				okAll := true
				for _, g := range q.GroupBy {
					v, ok := row[g]
					if !ok {
						okAll = false
						break
					}
					parts = append(parts, v)
				}
				if okAll {
					counts[strings.Join(parts, "\x00")]++
				}
			}
		}
		var keys []string
		for k := range counts {
			keys = append(keys, k)
		}
		sort.Strings(keys)
		for _, k := range keys {
			vals := strings.Split(k, "\x00")
			g := ResultGroup{Count: counts[k]}
			for i, c := range q.GroupBy {
				g.Fields = append(g.Fields, ResultField{Column: c, Value: vals[i]})
			}
			r.Groups = append(r.Groups, g)
		}
	}
	ds.expMu.Lock()
	ds.rowRef[k] = r
	ds.expMu.Unlock()
	return r
}

// c03Check runs one sequence on one index; returns the index of the first deviating query.
func c03Check(ds *c03Dataset, cfg c03Config, qs []c03Query, viaFile bool) (bad int, exp, got *c03Res, err error) {
	var idx *Index
	func() {
		defer func() {
			if r := recover(); r != nil {
				err = fmt.Errorf("opening the index panicked: %v", r)
			}
		}()
		if viaFile {
			idx, err = OpenIndex(ds.file, ds.openOpts(cfg)...)
		} else {
			idx, err = OpenIndexFromBoltDatabase(ds.db, ds.openOpts(cfg)...)
		}
	}()
	if err != nil {
		return -1, nil, nil, err
	}
	if viaFile {
		defer idx.Close()
	}
	for i, q := range qs {
		g := c03Exec(idx, q)
		e, err := ds.expected(q)
		if err != nil {
			return -1, nil, nil, err
		}
		if !c03Same(e, g) {
			return i, e, g, nil
		}
	}
	return -1, nil, nil, nil
}

func c03MkViolation(ds *c03Dataset, cfg c03Config, qs []c03Query, bad int, exp, got *c03Res) *c03Violation {
	// shrink: cut after the deviating query, then drop earlier queries while some deviation persists
	cur := append([]c03Query(nil), qs[:bad+1]...)
	for changed := true; changed; {
		changed = false
		for j := len(cur) - 2; j >= 0; j-- {
			cand := append(append([]c03Query(nil), cur[:j]...), cur[j+1:]...)
			b, e, g, err := c03Check(ds, cfg, cand, false)
			if err == nil && b >= 0 {
				cur, exp, got = cand[:b+1], e, g
				changed = true
				break
			}
		}
	}
	for i := range cur {
		cur[i].Text = cur[i].Expr.text()
	}
	spec := ds.spec
	if len(ds.rows) <= 64 {
		spec = c03DataSpec{Name: ds.spec.Name, Rows: ds.rows}
	}
	last := cur[len(cur)-1]
	what := fmt.Sprintf("query #%d %s (group by %v), executed after %d other queries on an index with cache=%s capacity=%d preload=%v, differs from the same query executed alone on a freshly opened index without cache",
		len(cur)-1, last.Expr.text(), last.GroupBy, len(cur)-1, cfg.Cache, cfg.Capacity, cfg.Preload)
	if got.Panic != "" {
		what = "Execute panicked: " + what
	}
	return &c03Violation{Property: "C03", What: what, Input: c03Case{Data: spec, Config: cfg, Queries: cur},
		Expected: map[string]interface{}{"fresh_index_without_cache": exp, "row_by_row_reference": ds.rowwise(last)}, Got: got}
}

// ------------------------------------------------------------------------------------------------ query generators

// c03Templates instantiates the "suspicious" shapes of the quantifier over three leaves.
func c03Templates(p, q, r c03E) []c03E {
	return []c03E{
		c03And(p, p), c03Or(p, p), c03And(p), c03Or(p), p, c03Not(p), c03Not(c03Not(p)),
		c03And(p, p, p), c03Or(p, p, p),
		c03And(p, q), c03Or(p, q), c03And(p, p, q), c03Or(p, p, q), c03And(p, q, q),
		c03And(c03Not(p), c03Not(q)), c03Or(c03Not(p), c03Not(q)), c03Not(c03And(p, q)), c03Not(c03Or(p, q)),
		c03And(p, c03Not(q)), c03Or(p, c03Not(q)), c03And(p, c03Not(p)), c03Or(p, c03Not(p)),
		c03And(c03Or(p, r), c03Or(q, r)), c03Or(c03And(p, r), c03And(q, r)), c03And(c03And(p, r), c03And(q, r)), c03Or(c03Or(p, r), c03Or(q, r)),
		c03And(c03Or(p, q), r), c03Or(c03And(p, q), r), c03And(p, c03Or(q, r)), c03Or(p, c03And(q, r)),
		c03And(p, q, r), c03Or(p, q, r), c03And(c03And(p, q), r), c03And(p, c03And(q, r)), c03Or(c03Or(p, q), r), c03Or(p, c03Or(q, r)),
		c03And(c03Not(p), c03Or(q, r)), c03Not(c03And(c03Not(p), c03Not(q))), c03And(c03Not(c03Not(p)), q),
		c03And(c03Or(p), c03Or(q)), c03Or(c03And(p), c03And(q)), c03And(c03Not(p), q), c03Or(c03Not(p), q),
	}
}

type c03Gen struct {
	rng    *rand.Rand
	leaves []c03E
	pool   []c03E
	cols   []string
}

func (g *c03Gen) leaf() c03E {
	switch g.rng.Intn(40) {
	case 0:
		return c03Eq("a", "no-such-value")
	case 1:
		return c03Eq("nocolumn", "1")
	}
	return g.leaves[g.rng.Intn(len(g.leaves))]
}

func (g *c03Gen) expr(depth int) c03E {
	if depth <= 0 || g.rng.Intn(4) == 0 {
		return g.leaf()
	}
	if len(g.pool) > 0 && g.rng.Intn(4) == 0 {
		return g.mutate(g.pool[g.rng.Intn(len(g.pool))])
	}
	var e c03E
	switch g.rng.Intn(5) {
	case 0:
		e = c03Not(g.expr(depth - 1))
	default:
		n := []int{0, 1, 2, 2, 2, 2, 3, 3, 4}[g.rng.Intn(9)]
		var args []c03E
		for i := 0; i < n; i++ {
			switch {
			case i > 0 && g.rng.Intn(5) == 0:
				args = append(args, args[g.rng.Intn(i)]) // duplicated operand
			case len(g.pool) > 0 && g.rng.Intn(3) == 0:
				args = append(args, g.pool[g.rng.Intn(len(g.pool))]) // shared sub-expression
			default:
				args = append(args, g.expr(depth-1))
			}
		}
		if g.rng.Intn(2) == 0 {
			e = c03And(args...)
		} else {
			e = c03Or(args...)
		}
	}
	g.pool = append(g.pool, e)
	return e
}

// mutate derives a related expression: permuted / duplicated operands, the other operator over the same operands,
// negated operands, a common extra operand pushed into every operand, re-association, double negation.
func (g *c03Gen) mutate(e c03E) c03E {
	if !e.isNary() || len(e.Args) == 0 {
		switch g.rng.Intn(3) {
		case 0:
			return c03Not(e)
		case 1:
			return c03Not(c03Not(e))
		default:
			return c03And(e, e)
		}
	}
	args := append([]c03E(nil), e.Args...)
	mk := func(op string, a []c03E) c03E { return c03E{Op: op, Args: a} }
	switch g.rng.Intn(9) {
	case 0:
		g.rng.Shuffle(len(args), func(i, j int) { args[i], args[j] = args[j], args[i] })
		return mk(e.Op, args)
	case 1:
		return mk(e.Op, append(args, args[g.rng.Intn(len(args))]))
	case 2:
		d := args[g.rng.Intn(len(args))]
		return mk(e.Op, append(args, d, d))
	case 3:
		return mk(e.other(), args)
	case 4:
		for i := range args {
			args[i] = c03Not(args[i])
		}
		if g.rng.Intn(2) == 0 {
			return mk(e.Op, args)
		}
		return mk(e.other(), args)
	case 5:
		x := g.leaf()
		inner := []string{"and", "or"}[g.rng.Intn(2)]
		for i := range args {
			args[i] = mk(inner, []c03E{args[i], x})
		}
		return mk(e.Op, args)
	case 6:
		if len(args) >= 3 {
			op2 := e.Op
			if g.rng.Intn(2) == 0 {
				op2 = e.other()
			}
			return mk(e.Op, []c03E{mk(op2, args[:2]), mk(e.Op, args[2:])})
		}
		return mk(e.Op, []c03E{mk(e.Op, args[:1]), mk(e.Op, args[1:])})
	case 7:
		return c03Not(c03Not(e))
	default:
		return c03Not(e)
	}
}

func (g *c03Gen) groupBy() []string {
	switch g.rng.Intn(8) {
	case 0:
		return []string{g.cols[g.rng.Intn(len(g.cols))]}
	case 1:
		a, b := g.cols[g.rng.Intn(len(g.cols))], g.cols[g.rng.Intn(len(g.cols))]
		if a == b {
			return []string{a}
		}
		return []string{a, b}
	}
	return nil
}

func (g *c03Gen) sequence(n int) []c03Query {
	g.pool = nil
	var qs []c03Query
	for len(qs) < n {
		var e c03E
		if len(qs) > 0 && g.rng.Intn(2) == 0 {
			e = g.mutate(qs[g.rng.Intn(len(qs))].Expr) // related to an earlier query
		} else {
			e = g.expr(1 + g.rng.Intn(3))
		}
		qs = append(qs, c03Query{Expr: e, GroupBy: g.groupBy()})
		if g.rng.Intn(6) == 0 {
			qs = append(qs, qs[g.rng.Intn(len(qs))]) // the same query again
		}
	}
	// finally re-read some leaves and their negations: nothing stored/preloaded/cached may have been altered
	for i := 0; i < 3; i++ {
		l := g.leaves[g.rng.Intn(len(g.leaves))]
		qs = append(qs, c03Query{Expr: l}, c03Query{Expr: c03Not(l), GroupBy: g.groupBy()})
	}
	return qs
}

// ------------------------------------------------------------------------------------------------ driver

func c03WriteJSON(path string, v interface{}) {
	if path == "" {
		return
	}
	b, _ := json.Marshal(v)
	_ = os.WriteFile(path, b, 0o644)
}

type c03Job struct {
	order int
	ds    *c03Dataset
	cfg   c03Config
	qs    []c03Query
}

func TestVerifHarnessC03(t *testing.T) {
	bound := os.Getenv("VERIF_BOUND")
	if bound == "" {
		bound = "quick"
	}
	seed := int64(1)
	if s, err := strconv.ParseInt(os.Getenv("VERIF_SEED"), 10, 64); err == nil {
		seed = s
	}
	var cases, nontrivial int64
	boundText := ""
	exhaustive := false
	defer func() {
		c03WriteJSON(os.Getenv("VERIF_STATS"), map[string]interface{}{"cases": cases, "distinct_nontrivial": nontrivial, "bound": boundText, "exhaustive": exhaustive})
	}()
	fail := func(v *c03Violation) {
		c03WriteJSON(os.Getenv("VERIF_OUT"), v)
		b, _ := json.Marshal(v)
		t.Fatalf("C03 violation: %s\n%s", v.What, b)
	}
	dir := t.TempDir()
	var datasets []*c03Dataset
	defer func() {
		for _, ds := range datasets {
			if ds.db != nil {
				_ = ds.db.Close()
			}
		}
	}()
	mkds := func(spec c03DataSpec) *c03Dataset {
		ds, err := c03BuildDataset(dir, spec)
		if err != nil {
			t.Fatalf("harness: cannot build data set %s: %v", spec.Name, err)
		}
		datasets = append(datasets, ds)
		return ds
	}

	if os.Getenv("VERIF_MODE") == "replay" {
		raw, err := os.ReadFile(os.Getenv("VERIF_CASE"))
		if err != nil {
			t.Fatalf("cannot read VERIF_CASE: %v", err)
		}
		var wrap struct {
			Input *c03Case `json:"input"`
		}
		var cs c03Case
		if err := json.Unmarshal(raw, &wrap); err == nil && wrap.Input != nil {
			cs = *wrap.Input
		} else if err := json.Unmarshal(raw, &cs); err != nil {
			t.Fatalf("cannot parse VERIF_CASE: %v", err)
		}
		if cs.Data.Name == "" {
			cs.Data.Name = "replay"
		}
		ds := mkds(cs.Data)
		boundText = "replay of one case"
		cases, nontrivial = 1, 1
		// expected values first (shared read-only handle), then the sequence through the real OpenIndex(file, opts...)
		for _, q := range cs.Queries {
			if _, err := ds.expected(q); err != nil {
				t.Fatalf("harness: %v", err)
			}
		}
		_ = ds.db.Close()
		ds.db = nil
		type out struct {
			bad      int
			exp, got *c03Res
			err      error
		}
		ch := make(chan out, 1)
		go func() {
			b, e, g, err := c03Check(ds, cs.Config, cs.Queries, true)
			ch <- out{b, e, g, err}
		}()
		select {
		case o := <-ch:
			if o.err != nil {
				t.Fatalf("harness: %v", o.err)
			}
			if o.bad >= 0 {
				qs := append([]c03Query(nil), cs.Queries[:o.bad+1]...)
				for i := range qs {
					qs[i].Text = qs[i].Expr.text()
				}
				last := qs[o.bad]
				fail(&c03Violation{Property: "C03", What: fmt.Sprintf("query #%d %s (group by %v) differs from the same query executed alone on a freshly opened index without cache (cache=%s capacity=%d preload=%v)",
					o.bad, last.Expr.text(), last.GroupBy, cs.Config.Cache, cs.Config.Capacity, cs.Config.Preload),
					Input:    c03Case{Data: cs.Data, Config: cs.Config, Queries: qs},
					Expected: map[string]interface{}{"fresh_index_without_cache": o.exp, "row_by_row_reference": ds.rowwise(last)}, Got: o.got})
			}
		case <-time.After(60 * time.Second):
			t.Fatalf("harness: replay timed out")
		}
		return
	}

	start := time.Now()
	budget := 15 * time.Second
	if bound == "thorough" {
		budget = 220 * time.Second
	}
	deadline := start.Add(budget)

	// ---- worker pool; violations are ordered by job number so that the report is deterministic
	var mu sync.Mutex
	var firstOrder = -1
	var firstV struct {
		job        c03Job
		bad        int
		exp, got   *c03Res
		harnessErr error
	}
	runJobs := func(jobs []c03Job) {
		ch := make(chan c03Job, 256)
		var wg sync.WaitGroup
		for w := 0; w < 16; w++ {
			wg.Add(1)
			go func() {
				defer wg.Done()
				for jb := range ch {
					bad, e, g, err := c03Check(jb.ds, jb.cfg, jb.qs, false)
					atomic.AddInt64(&cases, 1)
					if jb.cfg.Cache == "lru" && jb.cfg.Capacity >= 200 {
						atomic.AddInt64(&nontrivial, 1)
					}
					if err != nil || bad >= 0 {
						mu.Lock()
						if firstOrder < 0 || jb.order < firstOrder {
							firstOrder = jb.order
							firstV.job, firstV.bad, firstV.exp, firstV.got, firstV.harnessErr = jb, bad, e, g, err
						}
						mu.Unlock()
					}
				}
			}()
		}
		for _, jb := range jobs {
			mu.Lock()
			stop := firstOrder >= 0
			mu.Unlock()
			if stop {
				break
			}
			ch <- jb
		}
		close(ch)
		wg.Wait()
		if firstOrder >= 0 {
			if firstV.harnessErr != nil {
				t.Fatalf("harness: %v", firstV.harnessErr)
			}
			fail(c03MkViolation(firstV.job.ds, firstV.job.cfg, firstV.job.qs, firstV.bad, firstV.exp, firstV.got))
		}
	}
	order := 0
	tiny := mkds(c03DataSpec{Name: "tiny", Rows: c03TinyRows()})

	cfgsAmple := []c03Config{{Cache: "lru", Capacity: 1 << 26}, {Cache: "lru", Capacity: 1 << 26, Preload: true}}
	cfgsAllTiny := []c03Config{
		{Cache: "lru", Capacity: 1 << 26}, {Cache: "lru", Capacity: 1 << 26, Preload: true},
		{Cache: "lru", Capacity: 300}, {Cache: "lru", Capacity: 300, Preload: true},
		{Cache: "lru", Capacity: 100}, {Cache: "lru", Capacity: 100, Preload: true},
		{Cache: "lru", Capacity: 0}, {Cache: "lru", Capacity: 0, Preload: true},
		{Cache: "none"}, {Cache: "none", Preload: true},
	}

	// ---- phase 1: all ordered pairs (and, thorough, triples of a subset) of the template queries on the tiny data set
	a1, b1, c1, a2 := c03Eq("a", "1"), c03Eq("b", "1"), c03Eq("c", "1"), c03Eq("a", "2")
	var tq []c03E
	seen := map[string]bool{}
	addT := func(es []c03E) {
		for _, e := range es {
			if k := e.text(); !seen[k] {
				seen[k] = true
				tq = append(tq, e)
			}
		}
	}
	addT(c03Templates(a1, b1, c1))
	addT(c03Templates(b1, a1, c1))
	addT(c03Templates(c1, a1, b1))
	addT(c03Templates(a2, c1, b1))
	addT(c03Templates(a1, c1, a2))
	addT([]c03E{c03And(), c03Or(), c03Not(c03And()), c03Not(c03Or()), c03And(c03And(), a1), c03Or(c03Or(), a1)})
	var jobs []c03Job
	for _, cfg := range cfgsAmple {
		for _, q1 := range tq {
			for _, q2 := range tq {
				jobs = append(jobs, c03Job{order: order, ds: tiny, cfg: cfg, qs: []c03Query{{Expr: q1}, {Expr: q2}}})
				order++
			}
		}
	}
	runJobs(jobs)
	nPairs := len(jobs)
	t.Logf("phase 1a: %d template queries, %d ordered pairs x {ample LRU} x {on-demand, preloaded} done after %v", len(tq), nPairs, time.Since(start))

	// pairs under the remaining configurations, with a group-by on the second query (first 60 templates)
	jobs = nil
	sub := tq
	if len(sub) > 60 {
		sub = sub[:60]
	}
	for _, cfg := range cfgsAllTiny[2:] {
		for _, q1 := range sub {
			for _, q2 := range sub {
				jobs = append(jobs, c03Job{order: order, ds: tiny, cfg: cfg, qs: []c03Query{{Expr: q1}, {Expr: q2, GroupBy: []string{"b"}}, {Expr: q1, GroupBy: []string{"a", "c"}}}})
				order++
			}
		}
	}
	runJobs(jobs)
	t.Logf("phase 1b: %d sequences (q1, q2 group by b, q1 group by a,c) x 8 other configurations done after %v", len(jobs), time.Since(start))
	if bound == "thorough" {
		jobs = nil
		sub3 := tq
		if len(sub3) > 44 {
			sub3 = sub3[:44] // the first instantiation of the templates
		}
		for _, cfg := range cfgsAmple {
			for _, q1 := range sub3 {
				for _, q2 := range sub3 {
					for _, q3 := range sub3 {
						jobs = append(jobs, c03Job{order: order, ds: tiny, cfg: cfg, qs: []c03Query{{Expr: q1}, {Expr: q2}, {Expr: q3}}})
						order++
					}
				}
			}
		}
		runJobs(jobs)
		t.Logf("phase 1c: %d ordered triples of the first %d templates done after %v", len(jobs), len(sub3), time.Since(start))
		boundText = fmt.Sprintf("exhaustive: all ordered triples of the first %d template queries x LRU 64MiB x {on-demand, preloaded}; ", len(sub3))
	}
	exhaustive = true
	boundText += fmt.Sprintf("exhaustive: all ordered pairs of %d template queries (duplicate/permuted operands, empty and unary AND/OR, NOT pairs, De-Morgan and distribution look-alikes, re-associations over 3 leaves) on a 15-row index x LRU 64MiB x {on-demand, preloaded}; all pairs of the first %d templates as 3-query sequences with group-by x capacities {300,100,0,no cache} x {on-demand, preloaded}; ",
		len(tq), len(sub))

	// ---- phase 2: seeded random sequences
	nSmall, nBig, maxLen := 12000, 200, 10
	if bound == "thorough" {
		nSmall, nBig, maxLen = 500000, 5000, 16
	}
	small := mkds(c03DataSpec{Name: "random200", GenN: 200, Kind: "random", Seed: seed})
	rng := rand.New(rand.NewSource(seed))
	colsOf := func(ds *c03Dataset) []string {
		var cs []string
		for c := range ds.cols {
			cs = append(cs, c)
		}
		sort.Strings(cs)
		return append(cs, "nocolumn")
	}
	gens := map[*c03Dataset]*c03Gen{
		tiny:  {rng: rng, leaves: tiny.leaves, cols: colsOf(tiny)},
		small: {rng: rng, leaves: small.leaves, cols: colsOf(small)},
	}
	capsSmall := []uint64{1 << 26, 1 << 26, 1 << 26, 2000, 600, 300, 100, 0}
	ran2 := 0
	for batch := 0; ran2 < nSmall && time.Now().Before(deadline); batch++ {
		jobs = nil
		for i := 0; i < 1000 && ran2 < nSmall; i++ {
			ds := tiny
			if rng.Intn(3) > 0 {
				ds = small
			}
			cfg := c03Config{Cache: "lru", Capacity: capsSmall[rng.Intn(len(capsSmall))], Preload: rng.Intn(2) == 0}
			if rng.Intn(12) == 0 {
				cfg = c03Config{Cache: "none", Preload: true}
			}
			jobs = append(jobs, c03Job{order: order, ds: ds, cfg: cfg, qs: gens[ds].sequence(2 + rng.Intn(maxLen-1))})
			order++
			ran2++
		}
		runJobs(jobs)
	}
	t.Logf("phase 2: %d random sequences on tiny/random200 done after %v", ran2, time.Since(start))

	// ---- phase 3: a 70000-row index (several containers per bitmap; run, bitmap and array containers)
	big := mkds(c03DataSpec{Name: "big70000", GenN: 70000, Kind: "big", Seed: seed})
	gens[big] = &c03Gen{rng: rng, leaves: big.leaves, cols: colsOf(big)}
	capsBig := []uint64{1 << 26, 1 << 26, 200000, 40000, 9000, 100, 0}
	ran3 := 0
	for batch := 0; ran3 < nBig && time.Now().Before(deadline); batch++ {
		jobs = nil
		for i := 0; i < 64 && ran3 < nBig; i++ {
			cfg := c03Config{Cache: "lru", Capacity: capsBig[rng.Intn(len(capsBig))], Preload: rng.Intn(2) == 0}
			if rng.Intn(12) == 0 {
				cfg = c03Config{Cache: "none", Preload: true}
			}
			jobs = append(jobs, c03Job{order: order, ds: big, cfg: cfg, qs: gens[big].sequence(2 + rng.Intn(maxLen-1))})
			order++
			ran3++
		}
		runJobs(jobs)
	}
	t.Logf("phase 3: %d random sequences on big70000 done after %v", ran3, time.Since(start))

	// second opinion: the fresh-index results against the row-by-row reference (informational only)
	refNote := ""
	for _, ds := range []*c03Dataset{tiny, small} {
		refNote += fmt.Sprintf("; second opinion on %s: %d distinct queries, fresh index and row-by-row reference disagree on %d", ds.spec.Name, ds.refChecked, ds.refMismatch)
		if ds.refMismatch > 0 {
			t.Logf("NOTE (not a C03 verdict): on %s the fresh uncached index disagrees with the row-by-row reference for %d of %d distinct queries, e.g. %s", ds.spec.Name, ds.refMismatch, ds.refChecked, ds.refExample)
		}
	}
	boundText += fmt.Sprintf("random (seed %d): %d sequences of 2..%d related queries (+6 leaf re-reads) on a 15-row and a 200-row index, %d on a 70000-row index; capacities {0,100,300,600,2000,9000,40000,200000,64MiB,no cache} x {on-demand, preloaded}; group-by on 0..2 columns; unknown values/columns included",
		seed, ran2, maxLen, ran3) + refNote
}
