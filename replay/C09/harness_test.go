package queryparser

// Real-code harness for property C09:
//
//   "Parsing terminates on every input string without panicking and leaves no goroutine behind. It returns a
//    query exactly when the whole input is a sentence of the documented grammar (expression, optionally ';' and a
//    field list; no unconsumed trailing text, no unterminated string, placeholders numbered from 1 and
//    representable), and the tree returned is the one the grammar prescribes: '^' binds tightest, a chain of '&'
//    or of '|' is one n-ary node in source order, parentheses only group, '""' inside a value is one quote;
//    otherwise it returns an error and no query."
//
// Oracle: an independent byte-level tokenizer plus a recursive-descent parser written directly from the EBNF in
// the header of queryparser.go (c09Oracle).  A second, table-driven recogniser (c09Derives, "does non-terminal N
// derive tokens[i:j]" by exhaustive splitting, one clause per EBNF rule) cross-checks the acceptance verdict of
// the first on every enumerated token string; a disagreement between the two oracles is a harness error (exit 2),
// never a reported violation.
//
// Lexical classes (the EBNF leaves `field` and white space undefined; both are taken from the documented examples
// and README: identifiers [A-Za-z][A-Za-z0-9_]*, blanks/tabs/newlines/carriage returns between tokens).
//
// VERIF_HINT: "noleak" (or an obligation name containing T1,T3,T4,T6,T8) switches the goroutine check off,
//             "leakonly" (or T7) switches the acceptance/tree check off. Default: both are checked.

import (
	"encoding/base64"
	"encoding/json"
	"fmt"
	"math/rand"
	"os"
	"runtime"
	"strconv"
	"strings"
	"sync"
	"sync/atomic"
	"testing"
	"time"
	"unicode/utf8"

	proto "github.com/akrennmair/updog/proto/updog/v1"
)

// ---------------------------------------------------------------------------------------------------------------
// reference oracle

type c09Node struct {
	op   byte // 'e' equal, 'n' not, 'a' and, 'o' or
	col  string
	val  string
	ph   int32
	kids []*c09Node
}

type c09Query struct {
	expr    *c09Node
	groupBy []string
}

type c09Tok struct {
	k    byte // 'f' field, 'v' value, 'p' placeholder, otherwise the punctuation character itself
	text string
}

func c09IsAlpha(c byte) bool { return (c >= 'a' && c <= 'z') || (c >= 'A' && c <= 'Z') }
func c09IsDigit(c byte) bool { return c >= '0' && c <= '9' }

// c09Lex splits the whole input into tokens. Any byte that cannot start a token, a '$' without digits and a
// string without closing quote make the input a non-sentence.
func c09Lex(s string) ([]c09Tok, string) {
	var toks []c09Tok
	i := 0
	for i < len(s) {
		c := s[i]
		switch {
		case c == ' ' || c == '\n' || c == '\r' || c == '\t':
			i++
		case strings.IndexByte("()&|^,;=", c) >= 0:
			toks = append(toks, c09Tok{c, s[i : i+1]})
			i++
		case c09IsAlpha(c):
			j := i + 1
			for j < len(s) && (c09IsAlpha(s[j]) || c09IsDigit(s[j]) || s[j] == '_') {
				j++
			}
			toks = append(toks, c09Tok{'f', s[i:j]})
			i = j
		case c == '"':
			j := i + 1
			closed := false
			for j < len(s) {
				if s[j] == '"' {
					if j+1 < len(s) && s[j+1] == '"' { // """" : an escaped quote
						j += 2
						continue
					}
					closed = true
					j++
					break
				}
				j++
			}
			if !closed {
				return nil, fmt.Sprintf("unterminated string starting at byte %d", i)
			}
			toks = append(toks, c09Tok{'v', s[i:j]})
			i = j
		case c == '$':
			j := i + 1
			for j < len(s) && c09IsDigit(s[j]) {
				j++
			}
			if j == i+1 {
				return nil, fmt.Sprintf("'$' without a number at byte %d", i)
			}
			toks = append(toks, c09Tok{'p', s[i:j]})
			i = j
		default:
			return nil, fmt.Sprintf("byte 0x%02x at offset %d starts no token", c, i)
		}
	}
	return toks, ""
}

// c09Unquote: text is '"' { char | '""' } '"'.
func c09Unquote(text string) string {
	in := text[1 : len(text)-1]
	var b strings.Builder
	for i := 0; i < len(in); i++ {
		b.WriteByte(in[i])
		if in[i] == '"' {
			i++ // second quote of the pair
		}
	}
	return b.String()
}

// c09Placeholder: text is '$' digits. ok iff 1 <= n <= MaxInt32 (the field is an int32).
func c09Placeholder(text string) (int32, bool) {
	d := strings.TrimLeft(text[1:], "0")
	if d == "" || len(d) > 10 {
		return 0, false
	}
	var n uint64
	for i := 0; i < len(d); i++ {
		n = n*10 + uint64(d[i]-'0')
	}
	if n < 1 || n > 2147483647 {
		return 0, false
	}
	return int32(n), true
}

type c09Parser struct {
	toks []c09Tok
	pos  int
	err  string
}

func (p *c09Parser) kind() byte {
	if p.pos < len(p.toks) {
		return p.toks[p.pos].k
	}
	return 0 // end of input
}

func (p *c09Parser) fail(format string, a ...interface{}) {
	if p.err == "" {
		p.err = fmt.Sprintf("token %d: ", p.pos) + fmt.Sprintf(format, a...)
	}
}

// expr ::= simple-expr | and-expr | or-expr ; and-expr ::= simple-expr { '&' simple-expr } ; or-expr likewise
func (p *c09Parser) expr() *c09Node {
	first := p.simple()
	if p.err != "" {
		return nil
	}
	op := p.kind()
	if op != '&' && op != '|' {
		return first
	}
	n := &c09Node{op: 'a', kids: []*c09Node{first}}
	if op == '|' {
		n.op = 'o'
	}
	for p.kind() == op {
		p.pos++
		k := p.simple()
		if p.err != "" {
			return nil
		}
		n.kids = append(n.kids, k)
	}
	return n
}

// simple-expr ::= '(' expr ')' | '^' simple-expr | field '=' ( value | placeholder )
func (p *c09Parser) simple() *c09Node {
	// '^' chains are handled iteratively so that the oracle does not need a deep stack for them
	nots := 0
	for p.kind() == '^' {
		nots++
		p.pos++
	}
	var n *c09Node
	switch p.kind() {
	case '(':
		p.pos++
		n = p.expr()
		if p.err != "" {
			return nil
		}
		if p.kind() != ')' {
			p.fail("expected ')'")
			return nil
		}
		p.pos++
	case 'f':
		col := p.toks[p.pos].text
		p.pos++
		if p.kind() != '=' {
			p.fail("expected '='")
			return nil
		}
		p.pos++
		switch p.kind() {
		case 'v':
			n = &c09Node{op: 'e', col: col, val: c09Unquote(p.toks[p.pos].text)}
		case 'p':
			ph, ok := c09Placeholder(p.toks[p.pos].text)
			if !ok {
				p.fail("placeholder %s is not in 1..2147483647", c09Clip(p.toks[p.pos].text, 40))
				return nil
			}
			n = &c09Node{op: 'e', col: col, ph: ph}
		default:
			p.fail("expected value or placeholder")
			return nil
		}
		p.pos++
	default:
		p.fail("expected '(', '^' or a field")
		return nil
	}
	for ; nots > 0; nots-- {
		n = &c09Node{op: 'n', kids: []*c09Node{n}}
	}
	return n
}

// c09Oracle returns the query the grammar prescribes, or nil and the reason why s is not a sentence.
func c09Oracle(s string) (*c09Query, string) {
	toks, lexErr := c09Lex(s)
	if lexErr != "" {
		return nil, lexErr
	}
	p := &c09Parser{toks: toks}
	q := &c09Query{}
	q.expr = p.expr()
	if p.err != "" {
		return nil, p.err
	}
	if p.kind() == ';' {
		p.pos++
		for {
			if p.kind() != 'f' {
				p.fail("expected a field in the field list")
				return nil, p.err
			}
			q.groupBy = append(q.groupBy, p.toks[p.pos].text)
			p.pos++
			if p.kind() != ',' {
				break
			}
			p.pos++
		}
	}
	if p.pos != len(toks) {
		p.fail("unconsumed trailing input starting with %s", c09Clip(toks[p.pos].text, 40))
		return nil, p.err
	}
	return q, ""
}

// ---- second oracle: recogniser by exhaustive splitting, one clause per EBNF rule (short inputs only)

type c09Rec struct {
	k    []byte
	memo map[[3]int]bool
}

const (
	c09NTQuery = iota
	c09NTExpr
	c09NTSimple
	c09NTAnd
	c09NTOr
	c09NTFieldList
)

func (r *c09Rec) d(nt, i, j int) bool {
	if i >= j {
		return false
	}
	key := [3]int{nt, i, j}
	if v, ok := r.memo[key]; ok {
		return v
	}
	res := false
	switch nt {
	case c09NTQuery: // query ::= expr [ ';' field-list ]
		res = r.d(c09NTExpr, i, j)
		for m := i + 1; !res && m < j-1; m++ {
			res = r.k[m] == ';' && r.d(c09NTExpr, i, m) && r.d(c09NTFieldList, m+1, j)
		}
	case c09NTExpr: // expr ::= simple-expr | and-expr | or-expr
		res = r.d(c09NTSimple, i, j) || r.d(c09NTAnd, i, j) || r.d(c09NTOr, i, j)
	case c09NTSimple: // grouped-expr | not-expr | comparison
		res = (r.k[i] == '(' && r.k[j-1] == ')' && r.d(c09NTExpr, i+1, j-1)) ||
			(r.k[i] == '^' && r.d(c09NTSimple, i+1, j)) ||
			(j-i == 3 && r.k[i] == 'f' && r.k[i+1] == '=' && (r.k[i+2] == 'v' || r.k[i+2] == 'p'))
	case c09NTAnd, c09NTOr: // X-expr ::= simple-expr { op simple-expr }
		op := byte('&')
		if nt == c09NTOr {
			op = '|'
		}
		res = r.d(c09NTSimple, i, j)
		for m := i + 1; !res && m < j-1; m++ {
			res = r.k[m] == op && r.d(nt, i, m) && r.d(c09NTSimple, m+1, j)
		}
	case c09NTFieldList: // field { ',' field }
		res = j-i == 1 && r.k[i] == 'f'
		for m := i + 1; !res && m < j-1; m++ {
			res = r.k[m] == ',' && r.d(c09NTFieldList, i, m) && j-(m+1) == 1 && r.k[m+1] == 'f'
		}
	}
	r.memo[key] = res
	return res
}

// c09Derives: is the token-kind string a sentence? (placeholders are assumed to be in range)
func c09Derives(kinds []byte) bool {
	r := &c09Rec{k: kinds, memo: map[[3]int]bool{}}
	return r.d(c09NTQuery, 0, len(kinds))
}

// ---------------------------------------------------------------------------------------------------------------
// comparison with the real result

func c09SameTree(e *c09Node, g *proto.Query_Expression) bool {
	// iterative on the 'not' spine to keep the stack shallow for long '^' chains
	for e != nil && e.op == 'n' {
		if g == nil {
			return false
		}
		v, ok := g.Value.(*proto.Query_Expression_Not_)
		if !ok || v.Not == nil {
			return false
		}
		e, g = e.kids[0], v.Not.Expr
	}
	if e == nil || g == nil {
		return false
	}
	switch e.op {
	case 'e':
		v, ok := g.Value.(*proto.Query_Expression_Eq)
		return ok && v.Eq != nil && v.Eq.Column == e.col && v.Eq.Value == e.val && v.Eq.Placeholder == e.ph
	case 'a', 'o':
		var kids []*proto.Query_Expression
		if e.op == 'a' {
			v, ok := g.Value.(*proto.Query_Expression_And_)
			if !ok || v.And == nil {
				return false
			}
			kids = v.And.Exprs
		} else {
			v, ok := g.Value.(*proto.Query_Expression_Or_)
			if !ok || v.Or == nil {
				return false
			}
			kids = v.Or.Exprs
		}
		if len(kids) != len(e.kids) {
			return false
		}
		for i := range kids {
			if !c09SameTree(e.kids[i], kids[i]) {
				return false
			}
		}
		return true
	}
	return false
}

func c09SameQuery(e *c09Query, g *proto.Query) bool {
	if g == nil || g.Id != 0 || len(g.GroupBy) != len(e.groupBy) {
		return false
	}
	for i := range e.groupBy {
		if e.groupBy[i] != g.GroupBy[i] {
			return false
		}
	}
	return c09SameTree(e.expr, g.Expr)
}

func c09Clip(s string, n int) string {
	if len(s) <= n {
		return s
	}
	return s[:n/2] + fmt.Sprintf("...[%d bytes]...", len(s)-n) + s[len(s)-n/2:]
}

func c09ShowNode(b *strings.Builder, n *c09Node) {
	if b.Len() > 4000 {
		return
	}
	switch n.op {
	case 'e':
		if n.ph != 0 {
			fmt.Fprintf(b, "(eq %s $%d)", n.col, n.ph)
		} else {
			fmt.Fprintf(b, "(eq %s %q)", n.col, n.val)
		}
	case 'n':
		b.WriteString("(not ")
		c09ShowNode(b, n.kids[0])
		b.WriteString(")")
	default:
		if n.op == 'a' {
			b.WriteString("(and")
		} else {
			b.WriteString("(or")
		}
		for _, k := range n.kids {
			b.WriteString(" ")
			c09ShowNode(b, k)
		}
		b.WriteString(")")
	}
}

func c09ShowQuery(q *c09Query) string {
	var b strings.Builder
	c09ShowNode(&b, q.expr)
	fmt.Fprintf(&b, " group-by=%q", q.groupBy)
	return c09Clip(b.String(), 3000)
}

func c09ShowProtoExpr(b *strings.Builder, g *proto.Query_Expression) {
	if b.Len() > 4000 {
		return
	}
	if g == nil {
		b.WriteString("<nil>")
		return
	}
	switch v := g.Value.(type) {
	case *proto.Query_Expression_Eq:
		if v.Eq == nil {
			b.WriteString("(eq <nil>)")
		} else if v.Eq.Placeholder != 0 {
			fmt.Fprintf(b, "(eq %s $%d", v.Eq.Column, v.Eq.Placeholder)
			if v.Eq.Value != "" {
				fmt.Fprintf(b, " value=%q", v.Eq.Value)
			}
			b.WriteString(")")
		} else {
			fmt.Fprintf(b, "(eq %s %q)", v.Eq.Column, v.Eq.Value)
		}
	case *proto.Query_Expression_Not_:
		b.WriteString("(not ")
		if v.Not == nil {
			b.WriteString("<nil>")
		} else {
			c09ShowProtoExpr(b, v.Not.Expr)
		}
		b.WriteString(")")
	case *proto.Query_Expression_And_:
		b.WriteString("(and")
		if v.And != nil {
			for _, k := range v.And.Exprs {
				b.WriteString(" ")
				c09ShowProtoExpr(b, k)
			}
		}
		b.WriteString(")")
	case *proto.Query_Expression_Or_:
		b.WriteString("(or")
		if v.Or != nil {
			for _, k := range v.Or.Exprs {
				b.WriteString(" ")
				c09ShowProtoExpr(b, k)
			}
		}
		b.WriteString(")")
	default:
		b.WriteString("<unset>")
	}
}

func c09ShowProto(q *proto.Query) string {
	if q == nil {
		return "<nil query>"
	}
	var b strings.Builder
	c09ShowProtoExpr(&b, q.Expr)
	fmt.Fprintf(&b, " group-by=%q", q.GroupBy)
	if q.Id != 0 {
		fmt.Fprintf(&b, " id=%d", q.Id)
	}
	return c09Clip(b.String(), 3000)
}

type c09Violation struct {
	what     string
	input    string
	expected string
	got      string
}

// c09Call runs the real parser; a panic is caught and returned.
func c09Call(s string) (pq *proto.Query, err error, panicked interface{}) {
	defer func() {
		if r := recover(); r != nil {
			panicked = r
			if panicked == nil {
				panicked = "nil panic"
			}
		}
	}()
	pq, err = ParseQuery(s)
	return pq, err, nil
}

// c09CheckSemantics compares one real ParseQuery call with the oracle (everything except the goroutine clause).
func c09CheckSemantics(s string) *c09Violation {
	exp, why := c09Oracle(s)
	pq, err, pan := c09Call(s)
	if pan != nil {
		e := "error and no query (" + why + ")"
		if exp != nil {
			e = "query " + c09ShowQuery(exp)
		}
		return &c09Violation{"ParseQuery panicked", s, e + ", no panic", fmt.Sprintf("panic: %v", pan)}
	}
	if exp == nil {
		if err == nil || pq != nil {
			got := fmt.Sprintf("err=%v, query=%s", err, c09ShowProto(pq))
			return &c09Violation{"ParseQuery returned a query for an input that is not a sentence of the grammar (" + why + ")",
				s, "an error and a nil query: " + why, got}
		}
		return nil
	}
	if err != nil || pq == nil {
		return &c09Violation{"ParseQuery rejected a sentence of the documented grammar", s,
			"query " + c09ShowQuery(exp), fmt.Sprintf("err=%v, query=%s", err, c09ShowProto(pq))}
	}
	if !c09SameQuery(exp, pq) {
		return &c09Violation{"ParseQuery returned a tree different from the one the grammar prescribes", s,
			"query " + c09ShowQuery(exp), "query " + c09ShowProto(pq)}
	}
	return nil
}

// ---------------------------------------------------------------------------------------------------------------
// goroutine accounting: goroutines that have a frame of this package but none of the harness itself

func c09LeftBehind() (int, string) {
	buf := make([]byte, 1<<20)
	for {
		n := runtime.Stack(buf, true)
		if n < len(buf) {
			buf = buf[:n]
			break
		}
		buf = make([]byte, 2*len(buf))
	}
	count := 0
	sample := ""
	for _, g := range strings.Split(string(buf), "\n\n") {
		if !strings.Contains(g, "updog/internal/queryparser.") {
			continue
		}
		if strings.Contains(g, "c09") || strings.Contains(g, "TestVerifHarnessC09") {
			continue // a goroutine of the harness
		}
		count++
		if sample == "" {
			sample = g
		}
	}
	return count, sample
}

// c09SettledLeftBehind waits (bounded) for finished parsers' goroutines to exit and returns how many remain.
func c09SettledLeftBehind(atMost int) (int, string) {
	var n int
	var sample string
	for i := 0; i < 40; i++ {
		n, sample = c09LeftBehind()
		if n <= atMost {
			return n, sample
		}
		if i < 10 {
			runtime.Gosched()
		} else {
			time.Sleep(5 * time.Millisecond)
		}
	}
	return n, sample
}

// ---------------------------------------------------------------------------------------------------------------
// search driver

type c09Runner struct {
	t          *testing.T
	checkSem   bool
	checkLeak  bool
	workers    int
	cases      int64
	nontrivial int64
	current    atomic.Value // string: input being parsed (watchdog)
	progress   int64
	baseG      int
	leaked     int // goroutines already known to be left behind (only grows when checkLeak is off)
	buf        []string
	seen       map[string]struct{}
	viol       *c09Violation
	deadline   time.Time
	timedOut   bool
}

const c09Chunk = 2048

func (r *c09Runner) add(s string) bool {
	if r.viol != nil {
		return false
	}
	r.buf = append(r.buf, s)
	if len(r.buf) >= c09Chunk {
		r.flush()
	}
	return r.viol == nil
}

// addDedup is used by the phases that can produce the same input twice.
func (r *c09Runner) addDedup(s string) bool {
	if _, ok := r.seen[s]; ok {
		return r.viol == nil
	}
	if len(r.seen) < 3000000 {
		r.seen[s] = struct{}{}
	}
	return r.add(s)
}

func (r *c09Runner) flush() {
	batch := r.buf
	r.buf = nil
	if len(batch) == 0 || r.viol != nil {
		return
	}
	if time.Now().After(r.deadline) {
		r.timedOut = true
		return
	}
	atomic.AddInt64(&r.cases, int64(len(batch)))
	for _, s := range batch {
		if len(s) >= 5 {
			r.nontrivial++
		}
	}
	// semantic part: in parallel, the violation with the smallest index wins (deterministic)
	firstBad := int64(len(batch))
	var vmu sync.Mutex
	var best *c09Violation
	w := r.workers
	if len(batch) < 64 {
		w = 1
	}
	var wg sync.WaitGroup
	for k := 0; k < w; k++ {
		wg.Add(1)
		go func(k int) {
			defer wg.Done()
			c09Worker(r, batch, k, w, &firstBad, &vmu, &best)
		}(k)
	}
	wg.Wait()
	if best != nil {
		r.viol = best
		return
	}
	if !r.checkLeak {
		return
	}
	// goroutine part: cheap test first, authoritative stack inspection only when the count is elevated
	ok := false
	for i := 0; i < 60; i++ {
		if runtime.NumGoroutine() <= r.baseG {
			ok = true
			break
		}
		if i < 20 {
			runtime.Gosched()
		} else {
			time.Sleep(2 * time.Millisecond)
		}
	}
	if ok {
		return
	}
	n, _ := c09SettledLeftBehind(0)
	if n == 0 {
		r.baseG = runtime.NumGoroutine() // some unrelated runtime goroutine appeared
		return
	}
	// locate the first input of the batch that leaves a goroutine behind (sequential re-run)
	for _, s := range batch {
		if v := c09CheckLeakOne(s); v != nil {
			r.viol = v
			return
		}
	}
	_, sample := c09LeftBehind()
	r.viol = &c09Violation{"goroutines of the parser were left behind after a batch of ParseQuery calls (not attributable to a single input on re-run)",
		batch[0], "0 goroutines of package queryparser after ParseQuery returned", fmt.Sprintf("%d left behind, e.g.\n%s", n, c09Clip(sample, 1500))}
}

func c09Worker(r *c09Runner, batch []string, k, w int, firstBad *int64, vmu *sync.Mutex, best **c09Violation) {
	for i := k; i < len(batch); i += w {
		if int64(i) > atomic.LoadInt64(firstBad) {
			return
		}
		s := batch[i]
		r.current.Store(s)
		var v *c09Violation
		if r.checkSem {
			v = c09CheckSemantics(s)
		} else {
			_, _, pan := c09Call(s)
			if pan != nil {
				v = &c09Violation{"ParseQuery panicked", s, "no panic", fmt.Sprintf("panic: %v", pan)}
			}
		}
		atomic.AddInt64(&r.progress, 1)
		if v != nil {
			vmu.Lock()
			if int64(i) < atomic.LoadInt64(firstBad) {
				atomic.StoreInt64(firstBad, int64(i))
				*best = v
			}
			vmu.Unlock()
			return
		}
	}
}

// c09CheckLeakOne: does a single ParseQuery(s) leave a goroutine of the package behind?
func c09CheckLeakOne(s string) *c09Violation {
	before, _ := c09LeftBehind() // callers have let earlier parsers settle
	pq, err, pan := c09Call(s)
	after, sample := c09SettledLeftBehind(before)
	if after > before {
		outcome := fmt.Sprintf("ParseQuery returned err=%v", err)
		if pan != nil {
			outcome = fmt.Sprintf("ParseQuery panicked: %v", pan)
		} else if err == nil {
			outcome = "ParseQuery returned query " + c09ShowProto(pq)
		}
		return &c09Violation{"ParseQuery left a goroutine behind after it returned", s,
			"no goroutine of package queryparser alive after ParseQuery returned",
			fmt.Sprintf("%s; %d goroutine(s) still alive 100 ms later:\n%s", outcome, after-before, c09Clip(sample, 1500))}
	}
	return nil
}

// ---------------------------------------------------------------------------------------------------------------
// input generators

var c09Kinds = []byte{'f', '=', 'v', 'p', '(', ')', '&', '|', '^', ';', ','}

// spellings per token kind; index chosen by a counter so that several spellings are exercised
var c09Spell = map[byte][]string{
	'f': {"a", "b1", "C_c", "zZ9_"},
	'v': {`"x"`, `""`, `"q""r"`, "\"\n\"", `"é ü"`, `""""`, `"a=b&(c)|^;,$1"`},
	'p': {"$1", "$2", "$10", "$007", "$2147483647"},
}

func c09SpellKinds(kinds []byte, variant int, sep string) string {
	var b strings.Builder
	for i, k := range kinds {
		if i > 0 {
			b.WriteString(sep)
		}
		if sp, ok := c09Spell[k]; ok {
			if variant < 0 {
				b.WriteString(sp[0]) // plain spelling: a, "x", $1
				continue
			}
			b.WriteString(sp[(variant+i)%len(sp)])
		} else {
			b.WriteByte(k)
		}
	}
	return b.String()
}

// all token-kind strings of length n, spelled with single blanks; also cross-checks the two oracles
func (r *c09Runner) phaseAllTokenStrings(n int) {
	kinds := make([]byte, n)
	idx := make([]int, n)
	for {
		for i := range idx {
			kinds[i] = c09Kinds[idx[i]]
		}
		s := c09SpellKinds(kinds, -1, " ")
		q, _ := c09Oracle(s)
		if d := c09Derives(kinds); d != (q != nil) {
			fmt.Fprintf(os.Stderr, "C09 HARNESS ERROR: the two reference oracles disagree on %q (descent=%v, derivation=%v)\n", s, q != nil, d)
			os.Exit(2)
		}
		if !r.add(s) {
			return
		}
		i := n - 1
		for i >= 0 {
			idx[i]++
			if idx[i] < len(c09Kinds) {
				break
			}
			idx[i] = 0
			i--
		}
		if i < 0 {
			return
		}
	}
}

// sentences (as token-kind strings) with exactly n tokens, n = 0..max
type c09Sentences struct {
	simple, andTail, orTail, expr, query [][]string
}

func c09Enumerate(max int) *c09Sentences {
	s := &c09Sentences{}
	mk := func() [][]string { return make([][]string, max+1) }
	s.simple, s.andTail, s.orTail, s.expr, s.query = mk(), mk(), mk(), mk(), mk()
	for n := 1; n <= max; n++ {
		if n == 3 {
			s.simple[n] = append(s.simple[n], "f=v", "f=p")
		}
		for _, x := range s.simple[n-1] {
			s.simple[n] = append(s.simple[n], "^"+x)
		}
		if n >= 3 {
			for _, x := range s.expr[n-2] {
				s.simple[n] = append(s.simple[n], "("+x+")")
			}
		}
		// chains with at least two operands
		var andChain, orChain []string
		for m := 1; m <= n-2; m++ {
			for _, x := range s.simple[m] {
				for _, y := range s.andTail[n-m-1] {
					andChain = append(andChain, x+"&"+y)
				}
				for _, y := range s.orTail[n-m-1] {
					orChain = append(orChain, x+"|"+y)
				}
			}
		}
		s.andTail[n] = append(append([]string{}, s.simple[n]...), andChain...)
		s.orTail[n] = append(append([]string{}, s.simple[n]...), orChain...)
		s.expr[n] = append(append(append([]string{}, s.simple[n]...), andChain...), orChain...)
		s.query[n] = append([]string{}, s.expr[n]...)
		for fl := 1; fl <= n-2; fl += 2 { // field list with (fl+1)/2 fields
			list := "f" + strings.Repeat(",f", (fl-1)/2)
			for _, x := range s.expr[n-1-fl] {
				s.query[n] = append(s.query[n], x+";"+list)
			}
		}
	}
	return s
}

var c09Tails = []string{"|f=v", "&f=v", "f=v", ";f", ",f", "(f=v)", "^f=v", "))", "((", "=v", "&", ";"}

// all sentences with at most max tokens and their token-level mutations
func (r *c09Runner) phaseSentencesAndMutations(max int, mutate bool) {
	sent := c09Enumerate(max)
	variant := 0
	for n := 1; n <= max; n++ {
		for _, ks := range sent.query[n] {
			kinds := []byte(ks)
			variant++
			base := c09SpellKinds(kinds, variant, " ")
			if q, why := c09Oracle(base); q == nil {
				fmt.Fprintf(os.Stderr, "C09 HARNESS ERROR: the oracle rejects the generated sentence %q: %s\n", base, why)
				os.Exit(2)
			}
			if !r.addDedup(base) || !r.addDedup(c09SpellKinds(kinds, variant, "")) || !r.addDedup(c09SpellKinds(kinds, variant, "\t\r\n ")) {
				return
			}
			if !mutate {
				continue
			}
			emit := func(k []byte) bool { return r.addDedup(c09SpellKinds(k, variant, " ")) }
			cat := func(parts ...[]byte) []byte {
				var o []byte
				for _, p := range parts {
					o = append(o, p...)
				}
				return o
			}
			for i := 0; i < len(kinds); i++ {
				if !emit(cat(kinds[:i], kinds[i+1:])) || // dropped token
					!emit(cat(kinds[:i+1], kinds[i:])) || // duplicated token
					!emit(kinds[:i]) { // truncated
					return
				}
				if i+1 < len(kinds) {
					sw := append([]byte{}, kinds...)
					sw[i], sw[i+1] = sw[i+1], sw[i]
					if !emit(sw) {
						return
					}
				}
				for _, k := range c09Kinds {
					if !emit(cat(kinds[:i], []byte{k}, kinds[i+1:])) || // replaced token
						!emit(cat(kinds[:i], []byte{k}, kinds[i:])) || // inserted token
						!emit(cat(kinds[:i], []byte{k})) { // viable prefix + one arbitrary token
						return
					}
				}
			}
			for _, k := range c09Kinds {
				if !emit(cat(kinds, []byte{k})) {
					return
				}
				for _, k2 := range c09Kinds {
					if !emit(cat(kinds, []byte{k, k2})) {
						return
					}
				}
			}
			for _, tail := range c09Tails {
				if !emit(cat(kinds, []byte(tail))) {
					return
				}
			}
			// unterminated strings: cut inside the text
			for cut := 1; cut < len(base); cut++ {
				if base[cut-1] == '"' || base[cut] == '"' {
					if !r.addDedup(base[:cut]) {
						return
					}
				}
			}
		}
	}
}

// hand-picked lexical corner cases (placeholders, quotes, identifiers, control characters, invalid UTF-8)
func (r *c09Runner) phaseCorners() {
	phs := []string{"$", "$0", "$00", "$1", "$01", "$9", "$10", "$2147483646", "$2147483647", "$2147483648", "$02147483647",
		"$00000000000000000000001", "$4294967295", "$4294967296", "$4294967297", "$4294967298", "$9223372036854775807",
		"$9223372036854775808", "$18446744073709551615", "$18446744073709551616", "$18446744073709551617",
		"$99999999999999999999", "$-1", "$+1", "$1.0", "$ 1", "$1 2", "$1a", "$a", "$$1", "$１", "$1$2", "$0x10", "$1e3", "$1_000"}
	for _, p := range phs {
		for _, f := range []string{"a = %s", "a=%s", "^a = %s", "( a = %s )", "a = \"x\" & b = %s", "a = %s | b = $1", "a = %s ; a", "a = $1 & b = %s ; a, b"} {
			if !r.addDedup(fmt.Sprintf(f, p)) {
				return
			}
		}
	}
	vals := []string{`""`, `"`, `"""`, `""""`, `"""""`, `""""""`, `"x`, `x"`, `"x"`, `"x""`, `"x"""`, `"x""y`, `"x""y"`, `"x" "y"`, `"x"y"`,
		`"""x"`, `"x"""""`, "\"\n\"", "\"\r\n\t \"", "\"\x00\"", "\"\xff\"", "\"\xc3\"", "\"\xc3\x28\"", "\"é\"", "\"\u2028\"", "\"\\\"", "\"\\\"\"",
		"\"a\x80\"\"b\"", `'x'`, "`x`", `"x"x`, `x`, `1`, `"1"2`, `""""""""""`, `"""""""""`, `"&"`, `"("`, `")"`, `";"`, `"$1"`, `"^"`, `"="`, `"|"`, `","`}
	for _, v := range vals {
		for _, f := range []string{"a = %s", "a=%s", "a = %s ; a", "a = %s & b = \"y\"", "b = \"y\" | a = %s", "^ ( a = %s )", "a = %s b", "a = %s = \"x\""} {
			if !r.addDedup(fmt.Sprintf(f, v)) {
				return
			}
		}
	}
	fields := []string{"a", "A", "z9", "a_", "a__b", "_a", "9a", "a-b", "a.b", "a b", "é", "aé", "a\x00", "a\xff", "ａ", "a$", "a$1", "a\"", "A1_b2", "count", "a\u00a0"}
	for _, f := range fields {
		for _, pat := range []string{"%s = \"x\"", "%s=\"x\"", "a = \"x\" ; %s", "a = \"x\" ; b, %s", "a = \"x\" ; %s, b", "^%s = $1"} {
			if !r.addDedup(fmt.Sprintf(pat, f)) {
				return
			}
		}
	}
	misc := []string{"", " ", "\n", "\t\r\n ", "\x00", "\xff", "\v", "\f", "\u00a0", "\ufeff", "\ufeffa = \"x\"", ";", "; a", "a", "a =", "a = ", "=", "= \"x\"",
		"a = \"x\" ;", "a = \"x\" ; ", "a = \"x\" ;;", "a = \"x\" ; a,", "a = \"x\" ; ,a", "a = \"x\" ; a,,b", "a = \"x\" ; a b", "a = \"x\" ; a ; b", "a = \"x\" ; a = \"x\"",
		"a = \"x\" ; \"a\"", "a = \"x\" ; $1", "a = \"x\" , b", "a == \"x\"", "a = = \"x\"", "a = \"x\" #", "a = \"x\" \x00", "a = \"x\"\x00", "a = \"x\" \xff", "a = \"x\"\v", "a = \"x\"\f",
		"a\v= \"x\"", "a = \"x\" -- c", "a = \"x\" /* c */", "a = \"x\" \\", "a != \"x\"", "a < \"x\"", "a = x", "a = 1", "a = 'x'", "a = \"x\" and b = \"y\"", "a = \"x\" && b = \"y\"", "a = \"x\" || b = \"y\"",
		"!a = \"x\"", "~a = \"x\"", "not a = \"x\"", "a = \"1\" & b = \"2\" | c = \"3\"", "a = \"1\" | b = \"2\" & c = \"3\"", "a = \"1\" & b = \"2\" & c = \"3\" | d = \"4\"",
		"( a = \"1\" & b = \"2\" ) | c = \"3\"", "a = \"1\" & ( b = \"2\" | c = \"3\" )", "( a = \"1\" & b = \"2\" | c = \"3\" )", "^ a = \"1\" & b = \"2\"", "^ ^ a = \"1\"", "^ ( ^ a = \"1\" )",
		"^ a = \"1\" | ^ b = \"2\"", "()", "( )", "(())", "( a = \"x\"", "a = \"x\" )", "( a = \"x\" ) )", "( ( a = \"x\" )", ")(", "( a = \"x\" ) ( b = \"y\" )", "( a = \"x\" ) b = \"y\"",
		"a = \"x\" ( b = \"y\" )", "a = \"x\" b = \"y\"", "a = \"x\" \"y\"", "a = \"x\" $1", "a = $1 $2", "a = $1 \"x\"", "a = \"x\" ^", "a = \"x\" ^ b = \"y\"", "a = \"x\" & ^", "a = \"x\" &", "a = \"x\" |",
		"& a = \"x\"", "| a = \"x\"", "a = \"x\" & & b = \"y\"", "a = \"x\" & | b = \"y\"", "^", "^ ^", "^ ;", "a = \"x\" ; a, b ; c", "a = \"x\" ; a, b c", "a = \"x\" ; a, b )", "a = \"x\" ; a, b & c = \"1\"",
		"a = \"x\"; a", "a=\"x\";a,b", "(a=\"x\")", "^(a=\"x\"|b=$1)&c=\"\"", "a = \"x\"\n&\nb = \"y\"\n;\na\n,\nb\n", "\r\na = \"x\"\r\n"}
	for _, s := range misc {
		if !r.addDedup(s) {
			return
		}
	}
}

// every byte string of length <= n over the given alphabet
func (r *c09Runner) phaseAllByteStrings(alpha []byte, n int) {
	buf := make([]byte, n)
	idx := make([]int, n)
	for {
		for i := range idx {
			buf[i] = alpha[idx[i]]
		}
		if !r.addDedup(string(buf)) {
			return
		}
		i := n - 1
		for i >= 0 {
			idx[i]++
			if idx[i] < len(alpha) {
				break
			}
			idx[i] = 0
			i--
		}
		if i < 0 {
			return
		}
	}
}

// deep nesting and long inputs
func (r *c09Runner) phaseDeep(depths []int) {
	for _, n := range depths {
		open, cl, not := strings.Repeat("(", n), strings.Repeat(")", n), strings.Repeat("^", n)
		cases := []string{
			open + `a="x"` + cl,
			open + `a="x"` + cl[1:],
			open + `a="x"` + cl + ")",
			open[1:] + `a="x"` + cl,
			not + `a="x"`,
			not,
			not + `(a="x"`,
			strings.Repeat("^(", n) + `a=$1` + cl,
			strings.Repeat("^(", n) + `a=$1` + cl + `;a`,
			strings.Repeat("(a=\"x\"&", n) + `b=$2` + cl,
			strings.Repeat("(a=\"x\"|", n) + `b=$2` + cl + " ; a, b",
			strings.Repeat("(a=\"x\"|", n) + `b=$2` + cl + " | c = \"3\" & d = \"4\"",
			`a="1"` + strings.Repeat(` & a="1"`, n),
			`a="1"` + strings.Repeat(` | a="1"`, n),
			`a="1"` + strings.Repeat(` | a="1"`, n) + ` & b="2"`,
			`a="1"` + strings.Repeat(` & a="1"`, n) + ` | b="2"`,
			`a="1" ; a` + strings.Repeat(`, a`, n),
			`a="1" ; a` + strings.Repeat(`, a`, n) + ",",
			`a="` + strings.Repeat(`""`, n) + `"`,
			`a="` + strings.Repeat(`""`, n),
			`a="` + strings.Repeat("x\n", n) + `"`,
			`a="` + strings.Repeat("x\n", n),
			strings.Repeat("\n", n) + `a="x"` + strings.Repeat(" ", n),
			strings.Repeat("\n", n) + `a="x" "`,
			strings.Repeat("a", n) + ` = $` + strings.Repeat("0", n) + "1",
			strings.Repeat("a", n) + ` = $` + strings.Repeat("9", n),
		}
		for _, s := range cases {
			if !r.addDedup(s) {
				return
			}
		}
	}
}

// seeded random sentences with random spelling and white space, plus token- and byte-level mutations
type c09Gen struct{ rng *rand.Rand }

var c09NastyRunes = []string{`""`, `""`, "x", "y", " ", "\n", "\t", "é", "ü", "日本", "\x00", "\x7f", "\xff", "\xc3", "&", "|", "^", "(", ")", ";", ",", "=", "$1", "\\", "'", "\r"}

func (g *c09Gen) field() string {
	const first = "abcxyzABCXYZ"
	const rest = "abcxyz_0123456789ABC"
	n := 1 + g.rng.Intn(4)
	if g.rng.Intn(20) == 0 {
		n = 30
	}
	b := []byte{first[g.rng.Intn(len(first))]}
	for i := 1; i < n; i++ {
		b = append(b, rest[g.rng.Intn(len(rest))])
	}
	return string(b)
}

func (g *c09Gen) value() string {
	n := g.rng.Intn(5)
	if g.rng.Intn(15) == 0 {
		n = 20 + g.rng.Intn(40)
	}
	var b strings.Builder
	b.WriteByte('"')
	for i := 0; i < n; i++ {
		b.WriteString(c09NastyRunes[g.rng.Intn(len(c09NastyRunes))])
	}
	b.WriteByte('"')
	return b.String()
}

var c09PlaceholderPool = []string{"$1", "$2", "$3", "$9", "$10", "$007", "$0", "$", "$2147483647", "$2147483648", "$4294967297", "$99999999999999999999"}

func (g *c09Gen) placeholder() string {
	switch g.rng.Intn(10) {
	case 0:
		return c09PlaceholderPool[g.rng.Intn(len(c09PlaceholderPool))]
	case 1:
		return "$" + strconv.FormatUint(g.rng.Uint64()>>uint(g.rng.Intn(64)), 10)
	}
	return "$" + strconv.Itoa(1+g.rng.Intn(12))
}

func (g *c09Gen) simple(depth int, out *[]string) {
	switch x := g.rng.Intn(10); {
	case depth > 0 && x < 3:
		*out = append(*out, "(")
		g.expr(depth-1, out)
		*out = append(*out, ")")
	case depth > 0 && x < 5:
		*out = append(*out, "^")
		g.simple(depth-1, out)
	default:
		*out = append(*out, g.field(), "=")
		if g.rng.Intn(3) == 0 {
			*out = append(*out, g.placeholder())
		} else {
			*out = append(*out, g.value())
		}
	}
}

func (g *c09Gen) expr(depth int, out *[]string) {
	n := 1
	if g.rng.Intn(3) > 0 {
		n = 2 + g.rng.Intn(4)
	}
	op := "&"
	if g.rng.Intn(2) == 0 {
		op = "|"
	}
	for i := 0; i < n; i++ {
		if i > 0 {
			*out = append(*out, op)
		}
		g.simple(depth, out)
	}
}

func (g *c09Gen) sentence(depth int) []string {
	var out []string
	g.expr(depth, &out)
	if g.rng.Intn(3) == 0 {
		out = append(out, ";")
		n := 1 + g.rng.Intn(4)
		for i := 0; i < n; i++ {
			if i > 0 {
				out = append(out, ",")
			}
			out = append(out, g.field())
		}
	}
	return out
}

var c09Seps = []string{" ", " ", " ", "", "", "\n", "\t", "\r\n", "  ", " \t\n\r "}

func (g *c09Gen) join(toks []string) string {
	var b strings.Builder
	mode := g.rng.Intn(3) // 0: single blanks, 1: as tight as possible, 2: random white space
	for i, t := range toks {
		if i > 0 {
			switch mode {
			case 0:
				b.WriteByte(' ')
			case 2:
				b.WriteString(c09Seps[g.rng.Intn(len(c09Seps))])
			}
		}
		b.WriteString(t)
	}
	return b.String()
}

var c09MutTokens = []string{"a", "=", `"x"`, "$1", "(", ")", "&", "|", "^", ";", ",", `"`, "$", "$0", "#", "\x00", "\xff", "é", "1", `""`}

func (g *c09Gen) mutateTokens(toks []string) []string {
	out := append([]string{}, toks...)
	n := 1 + g.rng.Intn(2)
	for ; n > 0 && len(out) > 0; n-- {
		i := g.rng.Intn(len(out))
		switch g.rng.Intn(8) {
		case 0: // drop
			out = append(out[:i], out[i+1:]...)
		case 1: // duplicate
			out = append(out[:i+1], out[i:]...)
		case 2: // swap
			if i+1 < len(out) {
				out[i], out[i+1] = out[i+1], out[i]
			}
		case 3: // replace
			out[i] = c09MutTokens[g.rng.Intn(len(c09MutTokens))]
		case 4: // insert
			out = append(out[:i], append([]string{c09MutTokens[g.rng.Intn(len(c09MutTokens))]}, out[i:]...)...)
		case 5: // trailing tokens
			k := 1 + g.rng.Intn(4)
			for ; k > 0; k-- {
				out = append(out, c09MutTokens[g.rng.Intn(11)])
			}
		case 6: // trailing complete expression with the other operator
			out = append(out, []string{"|", "&"}[g.rng.Intn(2)], "c", "=", `"3"`)
		case 7: // truncate
			out = out[:i]
		}
	}
	return out
}

func (g *c09Gen) mutateBytes(s string) string {
	b := []byte(s)
	n := 1 + g.rng.Intn(3)
	for ; n > 0; n-- {
		if len(b) == 0 {
			return c09NastyRunes[g.rng.Intn(len(c09NastyRunes))]
		}
		i := g.rng.Intn(len(b))
		switch g.rng.Intn(5) {
		case 0:
			b = append(b[:i], b[i+1:]...)
		case 1:
			ins := c09NastyRunes[g.rng.Intn(len(c09NastyRunes))]
			b = append(b[:i], append([]byte(ins), b[i:]...)...)
		case 2:
			b[i] = byte(g.rng.Intn(256))
		case 3:
			b = b[:i]
		case 4:
			b[i] = `"$()&|^;,= a1_`[g.rng.Intn(14)]
		}
	}
	return string(b)
}

func (r *c09Runner) phaseRandom(seed int64, n int, maxDepth int) {
	g := &c09Gen{rng: rand.New(rand.NewSource(seed))}
	for i := 0; i < n && r.viol == nil && !r.timedOut; i++ {
		depth := g.rng.Intn(maxDepth + 1)
		if i%4 != 0 {
			depth = g.rng.Intn(3) // mostly small, so that a failing case is small
		}
		toks := g.sentence(depth)
		var s string
		switch g.rng.Intn(6) {
		case 0, 1:
			s = g.join(toks)
		case 2, 3:
			s = g.join(g.mutateTokens(toks))
		case 4:
			s = g.mutateBytes(g.join(toks))
		case 5:
			s = g.mutateBytes(g.join(g.mutateTokens(toks)))
		}
		r.addDedup(s)
	}
}

func (r *c09Runner) phaseRandomBytes(seed int64, n int) {
	rng := rand.New(rand.NewSource(seed))
	alpha := []string{"a", "b", "_", "1", "0", "=", `"`, `"`, "$", "(", ")", "&", "|", "^", ";", ",", " ", " ", "\n", "\t", "\r", "\x00", "\x1b", "\x7f", "\x80", "\xff", "\xc3", "é", "\u2028", "\\", "'", "#"}
	for i := 0; i < n && r.viol == nil && !r.timedOut; i++ {
		l := rng.Intn(14)
		var b strings.Builder
		full := rng.Intn(4) == 0
		for j := 0; j < l; j++ {
			if full {
				b.WriteByte(byte(rng.Intn(256)))
			} else {
				b.WriteString(alpha[rng.Intn(len(alpha))])
			}
		}
		r.addDedup(b.String())
	}
}

// ---------------------------------------------------------------------------------------------------------------
// shrinking, reporting

func c09Shrink(s string, still func(string) bool) string {
	budget := 1500
	for size := len(s) / 2; size >= 1; size /= 2 {
		for i := 0; i+size <= len(s) && budget > 0; {
			cand := s[:i] + s[i+size:]
			budget--
			if still(cand) {
				s = cand
			} else {
				i += size
			}
		}
	}
	return s
}

func c09WriteJSON(path string, v interface{}) {
	if path == "" {
		return
	}
	b, err := json.Marshal(v)
	if err == nil {
		_ = os.WriteFile(path, b, 0644)
	}
}

func c09Report(t *testing.T, v *c09Violation) {
	in := map[string]interface{}{
		"query_b64":    base64.StdEncoding.EncodeToString([]byte(v.input)),
		"query_quoted": c09Clip(strconv.Quote(v.input), 2000),
		"length":       len(v.input),
	}
	if utf8.ValidString(v.input) && len(v.input) <= 2000 {
		in["query"] = v.input
	}
	c09WriteJSON(os.Getenv("VERIF_OUT"), map[string]interface{}{
		"property": "C09", "what": v.what, "input": in, "expected": v.expected, "got": v.got,
	})
	t.Fatalf("C09 violated: %s\n input   : %s\n expected: %s\n got     : %s", v.what, c09Clip(strconv.Quote(v.input), 600), v.expected, v.got)
}

func c09ReadCase(path string) (string, error) {
	raw, err := os.ReadFile(path)
	if err != nil {
		return "", err
	}
	var c struct {
		Input struct {
			Query    *string `json:"query"`
			QueryB64 *string `json:"query_b64"`
		} `json:"input"`
	}
	if err := json.Unmarshal(raw, &c); err != nil {
		return "", err
	}
	if c.Input.QueryB64 != nil {
		b, err := base64.StdEncoding.DecodeString(*c.Input.QueryB64)
		return string(b), err
	}
	if c.Input.Query != nil {
		return *c.Input.Query, nil
	}
	return "", fmt.Errorf("case has neither input.query_b64 nor input.query")
}

func TestVerifHarnessC09(t *testing.T) {
	start := time.Now()
	bound := os.Getenv("VERIF_BOUND")
	if bound == "" {
		bound = "quick"
	}
	seed := int64(1)
	if s := os.Getenv("VERIF_SEED"); s != "" {
		if n, err := strconv.ParseInt(s, 10, 64); err == nil {
			seed = n
		}
	}
	hint := os.Getenv("VERIF_HINT")
	r := &c09Runner{t: t, checkSem: true, checkLeak: true, workers: runtime.GOMAXPROCS(0), seen: map[string]struct{}{}}
	lh := strings.ToLower(hint)
	switch {
	case strings.Contains(lh, "leakonly") || strings.Contains(hint, "T7"):
		r.checkSem = false
	case strings.Contains(lh, "noleak"):
		r.checkLeak = false
	default:
		for _, o := range []string{"T1", "T3", "T4", "T5", "T6", "T8"} {
			if strings.Contains(hint, o) {
				r.checkLeak = false
			}
		}
	}
	if r.workers > 16 {
		r.workers = 16
	}
	r.current.Store("")
	boundText := ""
	exhaustive := false
	statsPath := os.Getenv("VERIF_STATS")
	writeStats := func() {
		c09WriteJSON(statsPath, map[string]interface{}{
			"cases": atomic.LoadInt64(&r.cases), "distinct_nontrivial": r.nontrivial, "bound": boundText, "exhaustive": exhaustive,
		})
	}

	// ---- replay
	if os.Getenv("VERIF_MODE") == "replay" {
		s, err := c09ReadCase(os.Getenv("VERIF_CASE"))
		if err != nil {
			fmt.Fprintf(os.Stderr, "C09 HARNESS ERROR: cannot read VERIF_CASE: %v\n", err)
			os.Exit(2)
		}
		boundText = "replay of one case"
		r.cases, r.nontrivial = 1, 1
		done := make(chan *c09Violation, 1)
		go func() { done <- c09ReplayOne(r, s) }()
		select {
		case v := <-done:
			writeStats()
			if v != nil {
				c09Report(t, v)
			}
		case <-time.After(60 * time.Second):
			writeStats()
			c09Report(t, &c09Violation{"ParseQuery did not return within 60 s", s, "termination", "still running"})
		}
		return
	}

	// ---- search
	limit := 18 * time.Second
	if bound == "thorough" {
		limit = 240 * time.Second
	}
	r.deadline = start.Add(limit)
	done := make(chan struct{})
	go func() {
		defer close(done)
		c09Search(r, bound, seed, &boundText)
	}()
	// watchdog: the search must keep making progress
	last, lastChange := int64(-1), time.Now()
	tick := time.NewTicker(500 * time.Millisecond)
	defer tick.Stop()
wait:
	for {
		select {
		case <-done:
			break wait
		case <-tick.C:
			p := atomic.LoadInt64(&r.progress) + atomic.LoadInt64(&r.cases)
			if p != last {
				last, lastChange = p, time.Now()
			} else if time.Since(lastChange) > 45*time.Second {
				cur, _ := r.current.Load().(string)
				writeStats()
				c09Report(t, &c09Violation{"ParseQuery did not return within 45 s (hang)", cur, "termination on every input", "no progress for 45 s while parsing this input"})
			}
		}
	}
	if r.timedOut {
		boundText += fmt.Sprintf(" [stopped early at the %v time limit]", limit)
	}
	exhaustive = false // the input space (all strings) is infinite; the enumerated parts are exhaustive up to their stated sizes
	writeStats()
	if r.viol != nil {
		c09Report(t, r.viol)
	}
	t.Logf("C09: %d cases, no violation (%s) in %v", r.cases, boundText, time.Since(start).Round(time.Millisecond))
}

func c09ReplayOne(r *c09Runner, s string) *c09Violation {
	if r.checkSem {
		if v := c09CheckSemantics(s); v != nil {
			return v
		}
	}
	if r.checkLeak {
		// settle whatever the semantic call may have left, then measure one call in isolation
		c09SettledLeftBehind(0)
		if v := c09CheckLeakOne(s); v != nil {
			return v
		}
	}
	return nil
}

func c09Search(r *c09Runner, bound string, seed int64, boundText *string) {
	r.baseG = runtime.NumGoroutine()
	thorough := bound == "thorough"
	maxAll, maxSent, maxMut := 5, 9, 7
	deep := []int{1, 2, 3, 10, 100, 1000, 10000}
	nRandom, nBytes := 150000, 100000
	byteLens := [][2]int{{256, 2}, {24, 3}, {12, 4}}
	if thorough {
		maxAll, maxSent, maxMut = 6, 12, 10
		deep = append(deep, 100000, 200000)
		nRandom, nBytes = 4000000, 2500000
		byteLens = [][2]int{{256, 2}, {40, 3}, {24, 4}, {14, 5}}
	}
	*boundText = fmt.Sprintf("bound=%s seed=%d: (1) every token string of <=%d tokens over the 11 token kinds; (2) ~400 hand-picked lexical corner cases "+
		"(placeholder numbers 0..2^64+1, quotes, identifiers, control bytes, invalid UTF-8); (3) every sentence of <=%d tokens in 3 spacings, and for sentences of <=%d tokens every "+
		"single-token drop/duplicate/swap/replace/insert/truncate, 1-2 trailing tokens, trailing expressions, cuts next to quotes; (4) every byte string: %v (alphabet size, length); "+
		"(5) nesting/chain/list/string lengths %v; (6) %d seeded random sentences (depth<=10) with token/byte mutations; (7) %d random byte strings (len<14). "+
		"semantic check=%v goroutine check=%v",
		bound, seed, maxAll, maxSent, maxMut, byteLens, deep, nRandom, nBytes, r.checkSem, r.checkLeak)

	finish := func() bool { r.flush(); return r.viol != nil || r.timedOut }

	// cheap and likely-to-fail first
	for n := 0; n <= 4 && n <= maxAll; n++ {
		r.phaseAllTokenStrings(n)
	}
	if finish() {
		goto shrink
	}
	r.phaseCorners()
	if finish() {
		goto shrink
	}
	r.phaseSentencesAndMutations(5, true)
	if finish() {
		goto shrink
	}
	r.phaseDeep(deep[:5])
	if finish() {
		goto shrink
	}
	r.phaseAllByteStrings(c09ByteAlphabet(byteLens[0][0]), 1)
	for _, bl := range byteLens {
		r.phaseAllByteStrings(c09ByteAlphabet(bl[0]), bl[1])
		if finish() {
			goto shrink
		}
	}
	r.phaseRandom(seed, nRandom/10, 4)
	if finish() {
		goto shrink
	}
	// widen
	for n := 5; n <= maxAll; n++ {
		r.phaseAllTokenStrings(n)
		if finish() {
			goto shrink
		}
	}
	r.phaseSentencesAndMutations(maxMut, true)
	if finish() {
		goto shrink
	}
	r.phaseSentencesAndMutations(maxSent, false)
	if finish() {
		goto shrink
	}
	r.phaseDeep(deep[5:])
	if finish() {
		goto shrink
	}
	r.phaseRandom(seed+1, nRandom, 10)
	if finish() {
		goto shrink
	}
	r.phaseRandomBytes(seed+2, nBytes)
	finish()

shrink:
	if r.viol != nil && len(r.viol.input) > 40 && !strings.Contains(r.viol.what, "goroutine") {
		what := r.viol.what
		small := c09Shrink(r.viol.input, func(c string) bool {
			v := c09CheckSemantics(c)
			return v != nil && c09Category(v.what) == c09Category(what)
		})
		if v := c09CheckSemantics(small); v != nil {
			r.viol = v
		}
	}
}

func c09Category(what string) string {
	if i := strings.Index(what, "("); i > 0 {
		return what[:i]
	}
	return what
}

// c09ByteAlphabet returns the n most interesting bytes (n=256: all bytes).
func c09ByteAlphabet(n int) []byte {
	pref := []byte("\"a=$1 (&|^);,0\n_\xff\x00Z9\t\r\xc3\xa9'\\#-.~\x7f\x80{}[]!%*+/:<>?@`")
	if n >= 256 {
		all := make([]byte, 256)
		for i := range all {
			all[i] = byte(i)
		}
		return all
	}
	if n > len(pref) {
		n = len(pref)
	}
	return pref[:n]
}
