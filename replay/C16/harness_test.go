package main

// Real-code harness for property C16:
//
//   If the output path of a writer already exists, whatever it contains, Flush fails with an error and leaves that
//   file byte-for-byte unchanged.  Opening an index with any options, querying it, reading its schema and closing
//   it never modifies the index file.
//
// Part "exists": a file is placed at the output path (empty, a valid index of other data, a valid index of the same
// data, an initialised bbolt file without buckets, text, random bytes of several lengths; mode 0644 or 0444; or the
// path is a symlink to such a file).  Then the real writer is pointed at that path:
//     flush       updog.NewIndexWriter(path) + AddRow* + Flush()
//     flush-twice the writer first flushes successfully to a fresh path; a second Flush of the same writer then finds
//                 its own output at the path
//     cli         `updog create -o path in.csv`      (real main() in a re-executed child process)
//     cli-big     `updog create -b -o path in.csv`
// Oracle: Flush returns a non-nil error (the command exits with a non-zero status), does not panic or hang, and the
// SHA-256 and length of the file are the same before and after (for a symlink: it still points to the same target).
//
// Part "read": valid indexes written by the real writers (in-memory writer and big writer, 0644 and 0444) are
// opened with every combination of options (on-demand, preloaded, LRU cache, preloaded+cache, metrics), a seeded
// random sequence of queries (Equal/Not/And/Or to depth 3, unknown values and columns, group-by on 0-2 columns,
// repeated queries) and GetSchema calls is executed, the index is closed (once or twice) and possibly reopened with
// other options.  Also `updog schema -f path [--full]` is run on it.  Oracle: SHA-256 and length of the file are
// unchanged after every open, after the queries (while still open) and after every Close.

import (
	"bytes"
	"crypto/sha256"
	"encoding/csv"
	"encoding/hex"
	"encoding/json"
	"fmt"
	"math/rand"
	"os"
	"os/exec"
	"path/filepath"
	"runtime/debug"
	"sort"
	"strconv"
	"testing"
	"time"

	"github.com/akrennmair/updog"
	"go.etcd.io/bbolt"
)

// ---------------------------------------------------------------------------------------------------------------

type c16Spec struct {
	Rows  int   `json:"rows"`
	Cards []int `json:"cards"` // one column (a, b, c, ...) per entry with that many distinct values
}

type c16Existing struct {
	Kind     string `json:"kind"`           // empty | index-other | index-same | bbolt-empty | text | bytes
	Size     int    `json:"size,omitempty"` // for bytes
	Seed     int64  `json:"seed,omitempty"` // for bytes
	ReadOnly bool   `json:"read_only"`      // chmod 0444
	Symlink  bool   `json:"symlink"`        // output path is a symlink to the existing file
}

type c16OpenStep struct {
	Opt     string `json:"opt"`     // ondemand | preload | cache | preload+cache | metrics
	Queries int    `json:"queries"` // number of random queries
	Seed    int64  `json:"seed"`
	Closes  int    `json:"closes"` // how many times Close is called (1 or 2)
}

type c16Input struct {
	Part     string        `json:"part"` // exists | read | read-cli
	Existing *c16Existing  `json:"existing,omitempty"`
	Via      string        `json:"via,omitempty"`    // flush | flush-twice | cli | cli-big
	Writer   *c16Spec      `json:"writer,omitempty"` // rows given to the writer
	Index    string        `json:"index,omitempty"`  // read: tiny | medium | big
	ReadOnly bool          `json:"index_read_only,omitempty"`
	Steps    []c16OpenStep `json:"steps,omitempty"`
	CLIArgs  []string      `json:"cli_args,omitempty"` // read-cli: arguments after the index path
}

type c16Case struct {
	Property string      `json:"property"`
	What     string      `json:"what"`
	Input    c16Input    `json:"input"`
	Expected interface{} `json:"expected"`
	Got      interface{} `json:"got"`
	Also     []string    `json:"also,omitempty"`
}

type c16Stats struct {
	Cases      int    `json:"cases"`
	Nontrivial int    `json:"distinct_nontrivial"`
	Bound      string `json:"bound"`
	Exhaustive bool   `json:"exhaustive"`
}

type c16Run struct {
	t       *testing.T
	dir     string
	out     string
	n       int
	stats   c16Stats
	first   *c16Case
	kinds   map[string]bool
	also    []string
	indexes map[string]*c16Index
}

type c16Index struct {
	content []byte
	cols    []string
	vals    map[string][]string
}

var c16Base string

func c16Abort(format string, args ...interface{}) {
	fmt.Fprintf(os.Stderr, "C16 HARNESS ABORT (not a property violation): "+format+"\n", args...)
	if c16Base != "" {
		_ = os.RemoveAll(c16Base)
	}
	os.Exit(3)
}

func (r *c16Run) report(kind string, c c16Case) {
	if r.kinds[kind] {
		return
	}
	r.kinds[kind] = true
	c.Property = "C16"
	if r.first == nil {
		r.first = &c
	} else {
		in, _ := json.Marshal(c.Input)
		r.also = append(r.also, fmt.Sprintf("%s: %s input=%s", kind, c.What, in))
		r.first.Also = r.also
	}
	if r.out != "" {
		b, _ := json.Marshal(r.first)
		_ = os.WriteFile(r.out, b, 0644)
	}
	r.t.Logf("C16 VIOLATION [%s]: %s", kind, c.What)
}

func (r *c16Run) writeStats() {
	if p := os.Getenv("VERIF_STATS"); p != "" {
		b, _ := json.Marshal(r.stats)
		_ = os.WriteFile(p, b, 0644)
	}
}

func (r *c16Run) freshDir() string {
	r.n++
	d := filepath.Join(r.dir, fmt.Sprintf("case%06d", r.n))
	if err := os.MkdirAll(d, 0755); err != nil {
		c16Abort("mkdir: %v", err)
	}
	return d
}

type c16Guard struct {
	Panic    string
	TimedOut bool
}

func c16Guarded(d time.Duration, f func()) c16Guard {
	done := make(chan c16Guard, 1)
	go func() {
		defer func() {
			if rec := recover(); rec != nil {
				st := string(debug.Stack())
				if len(st) > 1400 {
					st = st[:1400]
				}
				done <- c16Guard{Panic: fmt.Sprintf("%v\n%s", rec, st)}
				return
			}
			done <- c16Guard{}
		}()
		f()
	}()
	select {
	case g := <-done:
		return g
	case <-time.After(d):
		return c16Guard{TimedOut: true}
	}
}

type c16Finger struct {
	SHA256 string `json:"sha256"`
	Size   int    `json:"size"`
	Err    string `json:"error,omitempty"`
}

func c16Fingerprint(path string) c16Finger {
	b, err := os.ReadFile(path)
	if err != nil {
		return c16Finger{Err: err.Error()}
	}
	s := sha256.Sum256(b)
	return c16Finger{SHA256: hex.EncodeToString(s[:]), Size: len(b)}
}

// ---------------------------------------------------------------------------------------------------------------
// data

var c16ColNames = []string{"a", "b", "c", "d"}

func c16Rows(spec c16Spec) []map[string]string {
	rows := make([]map[string]string, 0, spec.Rows)
	for i := 0; i < spec.Rows; i++ {
		row := map[string]string{}
		for j, card := range spec.Cards {
			v := i
			if card < spec.Rows {
				v = (i*(j+1) + i/(j+2)) % card
			}
			row[c16ColNames[j]] = "v" + strconv.Itoa(v)
		}
		rows = append(rows, row)
	}
	return rows
}

func c16WriteIndex(path string, spec c16Spec) {
	w := updog.NewIndexWriter(path)
	for _, row := range c16Rows(spec) {
		if _, err := w.AddRow(row); err != nil {
			c16Abort("AddRow: %v", err)
		}
	}
	if err := w.Flush(); err != nil {
		c16Abort("Flush to a fresh path failed: %v", err)
	}
}

func c16WriteCSV(path string, spec c16Spec) {
	var buf bytes.Buffer
	w := csv.NewWriter(&buf)
	cols := c16ColNames[:len(spec.Cards)]
	if len(cols) == 0 {
		cols = []string{"a"} // a header line is needed even without rows
	}
	_ = w.Write(cols)
	for _, row := range c16Rows(spec) {
		rec := make([]string, len(cols))
		for i, c := range cols {
			rec[i] = row[c]
		}
		_ = w.Write(rec)
	}
	w.Flush()
	if err := os.WriteFile(path, buf.Bytes(), 0644); err != nil {
		c16Abort("write csv: %v", err)
	}
}

const c16ChildEnv = "VERIF_C16_CHILD_ARGS"

func c16ChildMain() {
	var args []string
	if err := json.Unmarshal([]byte(os.Getenv(c16ChildEnv)), &args); err != nil {
		fmt.Fprintln(os.Stderr, "bad child args:", err)
		os.Exit(97)
	}
	os.Args = append([]string{"updog"}, args...)
	main() // the real command line entry point; calls os.Exit(1) on error
	os.Exit(0)
}

// c16RunCLI runs the real command line in a child process.  Returns exit code (-1: killed after timeout).
func c16RunCLI(tmpDir string, args ...string) (code int, output string) {
	ab, _ := json.Marshal(args)
	cmd := exec.Command(os.Args[0], "-test.run=^TestVerifHarnessC16$", "-test.timeout=120s")
	var out bytes.Buffer
	cmd.Stdout = &out
	cmd.Stderr = &out
	cmd.Env = append(os.Environ(), c16ChildEnv+"="+string(ab), "TMPDIR="+tmpDir)
	if err := cmd.Start(); err != nil {
		c16Abort("cannot start child: %v", err)
	}
	done := make(chan error, 1)
	go func() { done <- cmd.Wait() }()
	select {
	case err := <-done:
		if err == nil {
			return 0, out.String()
		}
		if ee, ok := err.(*exec.ExitError); ok {
			return ee.ExitCode(), out.String()
		}
		c16Abort("child wait: %v", err)
	case <-time.After(60 * time.Second):
		_ = cmd.Process.Kill()
		<-done
		return -1, out.String()
	}
	return -1, ""
}

// ---------------------------------------------------------------------------------------------------------------
// part "exists"

func (r *c16Run) makeExisting(path string, ex c16Existing, writer c16Spec) {
	switch ex.Kind {
	case "empty":
		if err := os.WriteFile(path, nil, 0644); err != nil {
			c16Abort("%v", err)
		}
	case "index-other":
		c16WriteIndex(path, c16Spec{Rows: 7, Cards: []int{3, 2}})
	case "index-same":
		c16WriteIndex(path, writer)
	case "bbolt-empty":
		db, err := bbolt.Open(path, 0644, &bbolt.Options{Timeout: 2 * time.Second})
		if err != nil {
			c16Abort("%v", err)
		}
		_ = db.Close()
	case "text":
		if err := os.WriteFile(path, []byte("a,b\n1,2\nthis is somebody's precious file\n"), 0644); err != nil {
			c16Abort("%v", err)
		}
	case "bytes":
		b := make([]byte, ex.Size)
		rand.New(rand.NewSource(ex.Seed)).Read(b)
		if err := os.WriteFile(path, b, 0644); err != nil {
			c16Abort("%v", err)
		}
	default:
		c16Abort("unknown existing kind %q", ex.Kind)
	}
	if ex.ReadOnly {
		if err := os.Chmod(path, 0444); err != nil {
			c16Abort("%v", err)
		}
	}
}

func (r *c16Run) runExists(in c16Input) {
	r.stats.Cases++
	r.stats.Nontrivial++
	dir := r.freshDir()
	ex, spec := *in.Existing, *in.Writer
	outPath := filepath.Join(dir, "out.updog")
	filePath := outPath // the regular file whose bytes must survive
	var w *updog.IndexWriter

	if in.Via == "flush-twice" {
		// the existing file is the writer's own earlier output
		w = updog.NewIndexWriter(outPath)
		for _, row := range c16Rows(spec) {
			if _, err := w.AddRow(row); err != nil {
				c16Abort("AddRow: %v", err)
			}
		}
		var err error
		g := c16Guarded(60*time.Second, func() { err = w.Flush() })
		if g.Panic != "" || g.TimedOut || err != nil {
			c16Abort("first Flush to a fresh path failed: %v %+v", err, g)
		}
		if ex.ReadOnly {
			_ = os.Chmod(outPath, 0444)
		}
	} else {
		if ex.Symlink {
			filePath = filepath.Join(dir, "precious.dat")
			r.makeExisting(filePath, ex, spec)
			if err := os.Symlink(filePath, outPath); err != nil {
				c16Abort("symlink: %v", err)
			}
		} else {
			r.makeExisting(outPath, ex, spec)
		}
	}
	before := c16Fingerprint(filePath)
	if before.Err != "" {
		c16Abort("cannot read the existing file: %s", before.Err)
	}
	desc := fmt.Sprintf("existing %s file (%d bytes, read_only=%v, symlink=%v), writer with %d rows, via %s", ex.Kind, before.Size, ex.ReadOnly, ex.Symlink, spec.Rows, in.Via)

	failed := false // did the writer report failure?
	var got string
	switch in.Via {
	case "flush", "flush-twice":
		if w == nil {
			w = updog.NewIndexWriter(outPath)
			for _, row := range c16Rows(spec) {
				if _, err := w.AddRow(row); err != nil {
					c16Abort("AddRow: %v", err)
				}
			}
		}
		var err error
		g := c16Guarded(60*time.Second, func() { err = w.Flush() })
		if g.Panic != "" || g.TimedOut {
			r.report("flush-panic", c16Case{What: "Flush on an existing output path panics or hangs: " + desc, Input: in,
				Expected: "Flush returns an error and leaves the file unchanged", Got: fmt.Sprintf("%+v", g)})
			// still compare the bytes below
			failed = true
			got = "panic/hang"
		} else if err != nil {
			failed = true
			got = "error: " + err.Error()
		} else {
			got = "Flush returned nil"
		}
	case "cli", "cli-big":
		csvPath := filepath.Join(dir, "in.csv")
		tmp := filepath.Join(dir, "tmp")
		_ = os.MkdirAll(tmp, 0755)
		c16WriteCSV(csvPath, spec)
		args := []string{"create", "-o", outPath}
		if in.Via == "cli-big" {
			args = append(args, "-b")
		}
		args = append(args, csvPath)
		code, output := c16RunCLI(tmp, args...)
		if len(output) > 300 {
			output = output[:300]
		}
		got = fmt.Sprintf("exit status %d, output %q", code, output)
		if code == -1 {
			r.report("cli-hang", c16Case{What: "`updog create` on an existing output path does not terminate within 60s: " + desc, Input: in,
				Expected: "non-zero exit, file unchanged", Got: got})
		}
		failed = code != 0
	default:
		c16Abort("unknown via %q", in.Via)
	}

	after := c16Fingerprint(filePath)
	if after != before {
		r.report("clobbered", c16Case{What: "a writer pointed at an existing path modified the file: " + desc, Input: in,
			Expected: map[string]interface{}{"file": before, "writer": "fails with an error"},
			Got:      map[string]interface{}{"file": after, "writer": got}})
		return
	}
	if ex.Symlink {
		if tgt, err := os.Readlink(outPath); err != nil || tgt != filePath {
			r.report("clobbered", c16Case{What: "a writer pointed at an existing symlink replaced it: " + desc, Input: in,
				Expected: "symlink still pointing to " + filePath, Got: fmt.Sprintf("readlink: %q, %v", tgt, err)})
			return
		}
	}
	if !failed {
		r.report("no-error", c16Case{What: "a writer pointed at an existing path reports success: " + desc, Input: in,
			Expected: "Flush returns an error / the command exits with non-zero status", Got: got})
	}
}

// ---------------------------------------------------------------------------------------------------------------
// part "read"

type c16Histogram struct{ n int }

func (h *c16Histogram) Observe(float64) { h.n++ }

func c16Opts(name string) []updog.IndexOption {
	switch name {
	case "ondemand":
		return nil
	case "preload":
		return []updog.IndexOption{updog.WithPreloadedData()}
	case "cache":
		return []updog.IndexOption{updog.WithCache(updog.NewLRUCache(1 << 20))}
	case "preload+cache":
		return []updog.IndexOption{updog.WithPreloadedData(), updog.WithCache(updog.NewLRUCache(4096))}
	case "metrics":
		return []updog.IndexOption{updog.WithIndexMetrics(&updog.IndexMetrics{ExecuteDuration: &c16Histogram{}}), updog.WithCache(updog.NewLRUCache(1 << 16))}
	}
	c16Abort("unknown option %q", name)
	return nil
}

var c16OptNames = []string{"ondemand", "preload", "cache", "preload+cache", "metrics"}

func (r *c16Run) buildIndexes() {
	r.indexes = map[string]*c16Index{}
	describe := func(rows []map[string]string) ([]string, map[string][]string) {
		vs := map[string]map[string]bool{}
		for _, row := range rows {
			for c, v := range row {
				if vs[c] == nil {
					vs[c] = map[string]bool{}
				}
				vs[c][v] = true
			}
		}
		var cols []string
		vals := map[string][]string{}
		for c, m := range vs {
			cols = append(cols, c)
			for v := range m {
				vals[c] = append(vals[c], v)
			}
			sort.Strings(vals[c])
		}
		sort.Strings(cols)
		return cols, vals
	}
	mem := func(name string, spec c16Spec) {
		p := filepath.Join(r.freshDir(), "idx.updog")
		c16WriteIndex(p, spec)
		b, err := os.ReadFile(p)
		if err != nil {
			c16Abort("%v", err)
		}
		cols, vals := describe(c16Rows(spec))
		r.indexes[name] = &c16Index{content: b, cols: cols, vals: vals}
	}
	mem("tiny", c16Spec{Rows: 4, Cards: []int{2, 3}})
	mem("medium", c16Spec{Rows: 1500, Cards: []int{1500, 7, 40}})

	// big writer
	spec := c16Spec{Rows: 1200, Cards: []int{5, 300}}
	d := r.freshDir()
	p := filepath.Join(d, "idx.updog")
	db, err := bbolt.Open(p, 0644, &bbolt.Options{Timeout: 2 * time.Second})
	if err != nil {
		c16Abort("%v", err)
	}
	tdb, err := bbolt.Open(filepath.Join(d, "tmp.bolt"), 0600, &bbolt.Options{Timeout: 2 * time.Second, NoSync: true})
	if err != nil {
		c16Abort("%v", err)
	}
	g := c16Guarded(60*time.Second, func() {
		w, err := updog.NewBigIndexWriter(db, tdb)
		if err != nil {
			c16Abort("%v", err)
		}
		for _, row := range c16Rows(spec) {
			if _, err := w.AddRow(row); err != nil {
				c16Abort("%v", err)
			}
		}
		if err := w.Flush(); err != nil {
			c16Abort("big Flush: %v", err)
		}
	})
	if g.Panic != "" || g.TimedOut {
		c16Abort("big writer failed: %+v", g)
	}
	_ = tdb.Close()
	_ = db.Close()
	b, err := os.ReadFile(p)
	if err != nil {
		c16Abort("%v", err)
	}
	cols, vals := describe(c16Rows(spec))
	r.indexes["big"] = &c16Index{content: b, cols: cols, vals: vals}
}

func c16GenExpr(rng *rand.Rand, ix *c16Index, depth int) updog.Expression {
	if depth <= 0 || rng.Intn(3) == 0 {
		col := ix.cols[rng.Intn(len(ix.cols))]
		val := ix.vals[col][rng.Intn(len(ix.vals[col]))]
		switch rng.Intn(20) {
		case 0:
			col = "nosuchcolumn"
		case 1, 2:
			val = "no such value"
		}
		return &updog.ExprEqual{Column: col, Value: val}
	}
	n := 1 + rng.Intn(3)
	var subs []updog.Expression
	for i := 0; i < n; i++ {
		subs = append(subs, c16GenExpr(rng, ix, depth-1))
	}
	switch rng.Intn(3) {
	case 0:
		return &updog.ExprNot{Expr: subs[0]}
	case 1:
		return &updog.ExprAnd{Exprs: subs}
	default:
		return &updog.ExprOr{Exprs: subs}
	}
}

func (r *c16Run) runRead(in c16Input) {
	r.stats.Cases++
	r.stats.Nontrivial++
	ix, ok := r.indexes[in.Index]
	if !ok {
		c16Abort("unknown index %q", in.Index)
	}
	path := filepath.Join(r.freshDir(), "idx.updog")
	if err := os.WriteFile(path, ix.content, 0644); err != nil {
		c16Abort("%v", err)
	}
	if in.ReadOnly {
		_ = os.Chmod(path, 0444)
	}
	before := c16Fingerprint(path)
	check := func(when string) bool {
		after := c16Fingerprint(path)
		if after != before {
			r.report("read-modified", c16Case{What: "the index file changed " + when, Input: in, Expected: before, Got: after})
			return false
		}
		return true
	}

	if in.Part == "read-cli" {
		args := append([]string{"schema", "-f", path}, in.CLIArgs...)
		code, output := c16RunCLI(filepath.Dir(path), args...)
		if code != 0 && !in.ReadOnly {
			if len(output) > 300 {
				output = output[:300]
			}
			c16Abort("`updog schema` failed on a valid index: exit %d: %s", code, output)
		}
		check(fmt.Sprintf("after `updog %v`", args))
		return
	}

	for si, st := range in.Steps {
		where := fmt.Sprintf("(step %d: option %s, %d queries, %d closes)", si+1, st.Opt, st.Queries, st.Closes)
		var idx *updog.Index
		var err error
		g := c16Guarded(30*time.Second, func() { idx, err = updog.OpenIndex(path, c16Opts(st.Opt)...) })
		if g.Panic != "" || g.TimedOut {
			check("by an OpenIndex that panicked or hung " + where)
			return // C15's business
		}
		if err != nil {
			check("by a failing OpenIndex " + where)
			if !in.ReadOnly || os.Getuid() == 0 {
				c16Abort("a valid index could not be opened %s: %v", where, err)
			}
			return
		}
		if !check("by OpenIndex " + where) {
			c16Guarded(5*time.Second, func() { _ = idx.Close() })
			return
		}
		rng := rand.New(rand.NewSource(st.Seed))
		var prev []*updog.Query
		g = c16Guarded(120*time.Second, func() {
			for q := 0; q < st.Queries; q++ {
				var qu *updog.Query
				if len(prev) > 0 && rng.Intn(4) == 0 {
					p := prev[rng.Intn(len(prev))]
					qu = &updog.Query{Expr: p.Expr, GroupBy: p.GroupBy} // same query again (cache hits)
				} else {
					qu = &updog.Query{Expr: c16GenExpr(rng, ix, 3)}
					// group by 0-2 columns; a column with many values at most once (the cost is the product)
					bigUsed := false
					for k := rng.Intn(3); k > 0; k-- {
						c := ix.cols[rng.Intn(len(ix.cols))]
						if len(ix.vals[c]) > 50 {
							if bigUsed || rng.Intn(4) != 0 {
								continue
							}
							bigUsed = true
						}
						qu.GroupBy = append(qu.GroupBy, c)
					}
					prev = append(prev, qu)
				}
				func() {
					defer func() { _ = recover() }() // a panic in Execute is not C16's business
					_, _ = idx.Execute(qu)
				}()
				if rng.Intn(5) == 0 {
					func() {
						defer func() { _ = recover() }()
						_ = idx.GetSchema()
					}()
				}
			}
			func() {
				defer func() { _ = recover() }()
				_ = idx.GetSchema()
			}()
		})
		if g.TimedOut {
			check("by queries that hung " + where)
			return
		}
		ok := check("while it was open and being queried " + where)
		for c := 0; c < st.Closes; c++ {
			g = c16Guarded(10*time.Second, func() { _ = idx.Close() })
			if g.Panic != "" || g.TimedOut {
				check("by a Close that panicked or hung " + where)
				return
			}
		}
		if !ok || !check("by open + queries + GetSchema + Close "+where) {
			return
		}
	}
}

// ---------------------------------------------------------------------------------------------------------------

func TestVerifHarnessC16(t *testing.T) {
	if os.Getenv(c16ChildEnv) != "" {
		c16ChildMain()
		return
	}
	bound := os.Getenv("VERIF_BOUND")
	if bound == "" {
		bound = "quick"
	}
	seed := int64(1)
	if s := os.Getenv("VERIF_SEED"); s != "" {
		if v, err := strconv.ParseInt(s, 10, 64); err == nil {
			seed = v
		}
	}
	r := &c16Run{t: t, dir: t.TempDir(), out: os.Getenv("VERIF_OUT"), kinds: map[string]bool{}}
	c16Base = r.dir
	defer r.writeStats()
	r.buildIndexes()

	if os.Getenv("VERIF_MODE") == "replay" {
		r.stats.Bound = "replay of one case"
		b, err := os.ReadFile(os.Getenv("VERIF_CASE"))
		if err != nil {
			c16Abort("cannot read VERIF_CASE: %v", err)
		}
		var c c16Case
		if err := json.Unmarshal(b, &c); err != nil {
			c16Abort("cannot parse VERIF_CASE: %v", err)
		}
		switch c.Input.Part {
		case "exists":
			if c.Input.Existing == nil || c.Input.Writer == nil {
				c16Abort("replay case lacks existing/writer")
			}
			r.runExists(c.Input)
		case "read", "read-cli":
			r.runRead(c.Input)
		default:
			c16Abort("unknown part %q", c.Input.Part)
		}
		r.writeStats()
		if r.first != nil {
			t.Fatalf("C16 violated (replay): %s", r.first.What)
		}
		return
	}

	rng := rand.New(rand.NewSource(seed))

	// ---- part "exists"
	existing := []c16Existing{
		{Kind: "index-other"}, {Kind: "empty"}, {Kind: "bbolt-empty"}, {Kind: "index-same"}, {Kind: "text"},
		{Kind: "bytes", Size: 1, Seed: 1}, {Kind: "bytes", Size: 4096, Seed: 2}, {Kind: "bytes", Size: 32768 + 5, Seed: 3},
	}
	writers := []c16Spec{{Rows: 1, Cards: []int{1}}, {Rows: 0, Cards: nil}, {Rows: 50, Cards: []int{5, 50}}, {Rows: 1001, Cards: []int{1001}}}
	if bound == "thorough" {
		existing = append(existing, c16Existing{Kind: "bytes", Size: 100, Seed: 4}, c16Existing{Kind: "bytes", Size: 16384, Seed: 5}, c16Existing{Kind: "bytes", Size: 300000, Seed: 6})
		for i := 0; i < 6; i++ {
			existing = append(existing, c16Existing{Kind: "bytes", Size: 1 + rng.Intn(70000), Seed: rng.Int63n(1 << 30)})
		}
		writers = append(writers, c16Spec{Rows: 2500, Cards: []int{2500, 3}}, c16Spec{Rows: 999, Cards: []int{999}})
	}
	// the library writer: every existing content x read-only x symlink x every writer content
	for _, wspec := range writers {
		for _, ex := range existing {
			for _, ro := range []bool{false, true} {
				for _, sl := range []bool{false, true} {
					e, w := ex, wspec
					e.ReadOnly, e.Symlink = ro, sl
					r.runExists(c16Input{Part: "exists", Existing: &e, Via: "flush", Writer: &w})
				}
			}
		}
		for _, ro := range []bool{false, true} {
			w := wspec
			r.runExists(c16Input{Part: "exists", Existing: &c16Existing{Kind: "index-same", ReadOnly: ro}, Via: "flush-twice", Writer: &w})
		}
	}
	// the command line tool (child processes are slower: fewer combinations in the quick bound)
	cliWriters := writers[:1]
	cliExisting := existing[:5]
	if bound == "thorough" {
		cliWriters = writers
		cliExisting = existing
	}
	for _, via := range []string{"cli", "cli-big"} {
		for _, wspec := range cliWriters {
			for i, ex := range cliExisting {
				e, w := ex, wspec
				e.ReadOnly = i%2 == 1
				r.runExists(c16Input{Part: "exists", Existing: &e, Via: via, Writer: &w})
				if bound == "thorough" {
					e2 := ex
					e2.Symlink = true
					r.runExists(c16Input{Part: "exists", Existing: &e2, Via: via, Writer: &w})
				}
			}
		}
	}

	// ---- part "read"
	names := []string{"tiny", "medium", "big"}
	// every option alone, close once and twice
	for _, name := range names {
		for _, ro := range []bool{false, true} {
			for _, opt := range c16OptNames {
				for closes := 1; closes <= 2; closes++ {
					r.runRead(c16Input{Part: "read", Index: name, ReadOnly: ro, Steps: []c16OpenStep{{Opt: opt, Queries: 25, Seed: rng.Int63n(1 << 30), Closes: closes}}})
				}
			}
			r.runRead(c16Input{Part: "read", Index: name, ReadOnly: ro, Steps: []c16OpenStep{{Opt: "ondemand", Queries: 0, Closes: 1}}})
		}
	}
	// reopen sequences with random options
	nSeq := 200
	if bound == "thorough" {
		nSeq = 1200
	}
	for i := 0; i < nSeq; i++ {
		var steps []c16OpenStep
		for k := 1 + rng.Intn(3); k > 0; k-- {
			steps = append(steps, c16OpenStep{Opt: c16OptNames[rng.Intn(len(c16OptNames))], Queries: rng.Intn(60), Seed: rng.Int63n(1 << 30), Closes: 1 + rng.Intn(2)})
		}
		r.runRead(c16Input{Part: "read", Index: names[rng.Intn(3)], ReadOnly: rng.Intn(3) == 0, Steps: steps})
	}
	for _, name := range names {
		r.runRead(c16Input{Part: "read-cli", Index: name})
		r.runRead(c16Input{Part: "read-cli", Index: name, CLIArgs: []string{"--full"}})
	}

	r.stats.Exhaustive = false
	r.stats.Bound = fmt.Sprintf("bound=%s seed=%d: existing output path: %d contents (valid index of other/same data, empty, bbolt without buckets, text, random bytes 1..%d bytes) x {0644,0444} x {file, symlink} x %d writer contents (0..%d rows) via IndexWriter.Flush, "+
		"second Flush onto the writer's own output, and `updog create` / `updog create -b` for %d x %d combinations; "+
		"reading: 3 valid indexes (4 rows; 1500 rows/1547 values; big writer 1200 rows) x {0644,0444} x 5 option sets x close once/twice with 25 random queries, %d random reopen sequences (1-3 opens, 0-59 queries each), `updog schema [--full]`; SHA-256 compared after open, after queries, after close",
		bound, seed, len(existing), maxSize(existing), len(writers), writers[len(writers)-1].Rows, len(cliExisting), len(cliWriters), nSeq)
	r.writeStats()
	if r.first != nil {
		var ks []string
		for k := range r.kinds {
			ks = append(ks, k)
		}
		sort.Strings(ks)
		t.Fatalf("C16 violated: %s (kinds found: %v)", r.first.What, ks)
	}
}

func maxSize(ex []c16Existing) int {
	m := 0
	for _, e := range ex {
		if e.Size > m {
			m = e.Size
		}
	}
	return m
}
