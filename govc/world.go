package main

import (
	"fmt"
	"go/token"
	"go/types"
	"os"
	"path/filepath"
	"regexp"
	"sort"
	"strings"
	"sync"

	"golang.org/x/tools/go/packages"
	"golang.org/x/tools/go/ssa"
	"golang.org/x/tools/go/ssa/ssautil"
)

// World is the loaded program plus all specifications.
type World struct {
	repo      string
	fset      *token.FileSet
	prog      *ssa.Program
	pkgs      []*packages.Package
	ssaPkgs   map[string]*ssa.Package // by path (all, incl. deps)
	typPkgs   map[string]*types.Package
	specs     *SpecSet
	funcs     map[string]*ssa.Function // by full name, incl. closures and methods
	specFiles []string

	mu            sync.Mutex
	typeTags      map[string]int
	tagTypes      []types.Type
	axiomsChecked map[bool]bool // the global axiom set has been submitted for a consistency check (per arithmetic mode)
}

const modPath = "github.com/akrennmair/updog"

func LoadWorld(repo string, trustedDir string) (*World, error) {
	w := &World{repo: repo, ssaPkgs: map[string]*ssa.Package{}, typPkgs: map[string]*types.Package{}, funcs: map[string]*ssa.Function{}, typeTags: map[string]int{}, axiomsChecked: map[bool]bool{}}
	cfg := &packages.Config{
		Mode:       packages.NeedName | packages.NeedFiles | packages.NeedCompiledGoFiles | packages.NeedImports | packages.NeedDeps | packages.NeedTypes | packages.NeedSyntax | packages.NeedTypesInfo | packages.NeedTypesSizes | packages.NeedModule,
		Dir:        repo,
		BuildFlags: []string{"-tags=verif"},
		Env:        append(os.Environ(), "GOFLAGS=-mod=mod", "GOPROXY=off", "GOSUMDB=off", "GOTOOLCHAIN=local"),
	}
	pkgs, err := packages.Load(cfg, "./...")
	if err != nil {
		return nil, err
	}
	var errs []string
	packages.Visit(pkgs, nil, func(p *packages.Package) {
		if strings.HasPrefix(p.PkgPath, modPath) {
			for _, e := range p.Errors {
				errs = append(errs, e.Error())
			}
		}
	})
	if len(errs) > 0 {
		return nil, fmt.Errorf("type errors in /repo: %s", strings.Join(errs, "; "))
	}
	w.pkgs = pkgs
	if len(pkgs) > 0 {
		w.fset = pkgs[0].Fset
	}
	prog, _ := ssautil.AllPackages(pkgs, ssa.InstantiateGenerics|ssa.GlobalDebug)
	w.prog = prog
	// Build only the packages of the module under verification: the bodies of dependencies are never used.
	for _, p := range prog.AllPackages() {
		w.ssaPkgs[p.Pkg.Path()] = p
		w.typPkgs[p.Pkg.Path()] = p.Pkg
	}
	for _, p := range pkgs {
		sp := prog.Package(p.Types)
		if sp != nil {
			sp.Build()
		}
	}
	for _, p := range pkgs {
		sp := prog.Package(p.Types)
		if sp == nil {
			continue
		}
		for _, m := range sp.Members {
			switch m := m.(type) {
			case *ssa.Function:
				w.addFunc(m)
			case *ssa.Type:
				for _, t := range []types.Type{m.Type(), types.NewPointer(m.Type())} {
					ms := prog.MethodSets.MethodSet(t)
					for i := 0; i < ms.Len(); i++ {
						f := prog.MethodValue(ms.At(i))
						if f != nil && f.Pkg == sp && f.Synthetic == "" {
							w.addFunc(f)
						}
					}
				}
			}
		}
	}
	// specs
	w.specs = NewSpecSet()
	tfiles, _ := filepath.Glob(filepath.Join(trustedDir, "*.spec"))
	sort.Strings(tfiles)
	for _, f := range tfiles {
		if err := w.specs.LoadSpecFile(f, ""); err != nil {
			return nil, err
		}
		w.specFiles = append(w.specFiles, f)
	}
	for _, p := range pkgs {
		for _, f := range p.CompiledGoFiles {
			if strings.HasSuffix(f, "_verif.go") {
				if err := w.specs.LoadSpecFile(f, p.PkgPath); err != nil {
					return nil, err
				}
				w.specFiles = append(w.specFiles, f)
			}
		}
	}
	return w, nil
}

func (w *World) addFunc(f *ssa.Function) {
	w.funcs[f.String()] = f
	for _, a := range f.AnonFuncs {
		w.addFunc(a)
	}
}

// TagOf returns the run-time type tag of a dynamic type (>= 1).
func (w *World) TagOf(t types.Type) int {
	w.mu.Lock()
	defer w.mu.Unlock()
	k := types.TypeString(t, nil)
	if n, ok := w.typeTags[k]; ok {
		return n
	}
	n := len(w.typeTags) + 1
	w.typeTags[k] = n
	w.tagTypes = append(w.tagTypes, t)
	return n
}

// typeKey is the canonical name of a type used in heap names.
func typeKey(t types.Type) string {
	s := types.TypeString(t, func(p *types.Package) string { return p.Path() })
	// byte/uint8, rune/int32 and any/interface{} are the same types: one heap name for each
	if strings.Contains(s, "byte") || strings.Contains(s, "rune") || strings.Contains(s, "any") {
		s = reAliasByte.ReplaceAllString(s, "${1}uint8${2}")
		s = reAliasRune.ReplaceAllString(s, "${1}int32${2}")
		s = reAliasAny.ReplaceAllString(s, "${1}interface{}${2}")
	}
	return s
}

var (
	reAliasByte = regexp.MustCompile(`(^|[^A-Za-z0-9_./])byte($|[^A-Za-z0-9_])`)
	reAliasRune = regexp.MustCompile(`(^|[^A-Za-z0-9_./])rune($|[^A-Za-z0-9_])`)
	reAliasAny  = regexp.MustCompile(`(^|[^A-Za-z0-9_./])any($|[^A-Za-z0-9_])`)
)

// shortTypeKey strips the module path for readability in obligation names.
func shortName(s string) string {
	s = strings.ReplaceAll(s, modPath+"/internal/", "")
	s = strings.ReplaceAll(s, modPath+"/cmd/", "")
	s = strings.ReplaceAll(s, modPath+"/proto/updog/v1", "proto")
	s = strings.ReplaceAll(s, modPath+"/", "")
	s = strings.ReplaceAll(s, modPath, "updog")
	return s
}

// LookupType resolves a type name written in a spec ("uint64", "*LRUCache", "list.Element", "[]string", "map[K]V").
func (w *World) LookupType(name string, pkg *types.Package) types.Type {
	name = strings.TrimSpace(name)
	if strings.HasPrefix(name, "*") {
		t := w.LookupType(name[1:], pkg)
		if t == nil {
			return nil
		}
		return types.NewPointer(t)
	}
	if strings.HasPrefix(name, "[]") {
		t := w.LookupType(name[2:], pkg)
		if t == nil {
			return nil
		}
		return types.NewSlice(t)
	}
	if strings.HasPrefix(name, "map[") {
		depth := 0
		for i := 3; i < len(name); i++ {
			if name[i] == '[' {
				depth++
			} else if name[i] == ']' {
				depth--
				if depth == 0 {
					k := w.LookupType(name[4:i], pkg)
					v := w.LookupType(name[i+1:], pkg)
					if k == nil || v == nil {
						return nil
					}
					return types.NewMap(k, v)
				}
			}
		}
		return nil
	}
	if obj := types.Universe.Lookup(name); obj != nil {
		if tn, ok := obj.(*types.TypeName); ok {
			return tn.Type()
		}
	}
	if k := strings.LastIndex(name, "."); k >= 0 {
		pk, tn := name[:k], name[k+1:]
		// full path
		if p, ok := w.typPkgs[pk]; ok {
			if o := p.Scope().Lookup(tn); o != nil {
				if t, ok := o.(*types.TypeName); ok {
					return t.Type()
				}
			}
		}
		// by imported name from pkg
		if pkg != nil {
			for _, imp := range pkg.Imports() {
				if imp.Name() == pk || strings.HasSuffix(imp.Path(), "/"+pk) {
					if o := imp.Scope().Lookup(tn); o != nil {
						if t, ok := o.(*types.TypeName); ok {
							return t.Type()
						}
					}
				}
			}
		}
		// by package name anywhere
		var cands []string
		for path, p := range w.typPkgs {
			if p.Name() == pk || strings.HasSuffix(path, "/"+pk) {
				if o := p.Scope().Lookup(tn); o != nil {
					if _, ok := o.(*types.TypeName); ok {
						cands = append(cands, path)
					}
				}
			}
		}
		sort.Strings(cands)
		if len(cands) > 0 {
			// prefer non-vendor, shortest
			best := cands[0]
			for _, c := range cands {
				if len(c) < len(best) {
					best = c
				}
			}
			return w.typPkgs[best].Scope().Lookup(tn).(*types.TypeName).Type()
		}
		return nil
	}
	if pkg != nil {
		if o := pkg.Scope().Lookup(name); o != nil {
			if t, ok := o.(*types.TypeName); ok {
				return t.Type()
			}
		}
	}
	return nil
}

// ghostField finds a ghost field declaration for a named type.
func (w *World) ghostField(t types.Type, field string) *GhostField {
	n, ok := t.(*types.Named)
	if !ok {
		return nil
	}
	for _, g := range w.specs.Ghosts {
		if g.Field != field {
			continue
		}
		var pkg *types.Package
		if g.Pkg != "" {
			pkg = w.typPkgs[g.Pkg]
		}
		gt := w.LookupType(g.Type, pkg)
		if gt != nil && types.Identical(gt, n) {
			return g
		}
	}
	return nil
}

// specFor finds the contract of an ssa function (nil if none).
func (w *World) specFor(fn *ssa.Function) *FuncSpec {
	if fn == nil {
		return nil
	}
	return w.specs.Funcs[fn.String()]
}

// ifaceMethodSpec finds the contract of an interface method.
func (w *World) ifaceMethodSpec(recv types.Type, method string) *FuncSpec {
	key := "(" + typeKey(recv) + ")." + method
	return w.specs.Funcs[key]
}
