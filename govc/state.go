package main

import (
	"fmt"
	"go/types"
	"strings"

	"golang.org/x/tools/go/ssa"
)

// Value is a symbolic value of an SSA register.
//
//	Term        scalars: bool, ints, strings, refs (pointers to whole objects, maps, chans, funcs), Slice, Iface
//	PtrVal      interior pointer (address of a field, element or cell)
//	*StructVal  struct value
//	TupleVal    multiple results
//	*ClosureVal closure or function value known statically
//	*IterVal    range iterator over a map or a string
type Value interface{}

type PtrVal struct {
	Base Term       // Ref
	Path string     // heap name prefix ("" = whole object of type T at Base)
	Idx  *Term      // index inside an indexed heap (slice/array element)
	T    types.Type // type of the pointee
}

type StructVal struct {
	T types.Type
	F []Value
}

type TupleVal []Value

// ZeroArray is the zero value of an array type (the only array value that is ever stored as a whole).
type ZeroArray struct{ T types.Type }

type ClosureVal struct {
	Fn   *ssa.Function
	Bind []Value
}

type IterVal struct {
	Key   string // pseudo-heap holding the visited set (maps) or position (strings)
	Map   Term
	MapT  *types.Map
	Str   Term
	IsStr bool
}

type deferred struct {
	call  *ssa.CallCommon
	fn    Value
	args  []Value
	instr *ssa.Defer
}

type State struct {
	heaps  map[string]Term
	alloc  Term
	pc     []Term
	fr     *frame
	ndecls int
	panicV *Term // non-nil while unwinding with a user-level panic value
	trace  []string
	// mutexes this execution of the function has released (lock.atomic: they must not be acquired again, see execCall)
	released []PtrVal
}

type openLoop struct {
	variant *Term
	entry   *State
}

func (s *State) clone() *State {
	n := &State{alloc: s.alloc, ndecls: s.ndecls, panicV: s.panicV}
	n.heaps = make(map[string]Term, len(s.heaps))
	for k, v := range s.heaps {
		n.heaps[k] = v
	}
	n.pc = append([]Term(nil), s.pc...)
	n.fr = s.fr.clone()
	n.trace = append([]string(nil), s.trace...)
	n.released = append([]PtrVal(nil), s.released...)
	return n
}

// snapshot copies only what old() needs.
func (s *State) snapshot() *State {
	n := &State{alloc: s.alloc}
	n.heaps = make(map[string]Term, len(s.heaps))
	for k, v := range s.heaps {
		n.heaps[k] = v
	}
	n.fr = s.fr
	return n
}

func (s *State) assume(t Term) {
	if t.S == "true" {
		return
	}
	s.pc = append(s.pc, t)
}

// heap returns the current version of a heap, declaring its initial version on first use.
func (s *State) heap(vc *FuncVC, name string, sort Sort) Term {
	if t, ok := s.heaps[name]; ok {
		if t.Sort != sort {
			panic(trError{fmt.Sprintf("heap %s used with sorts %s and %s", name, t.Sort, sort)})
		}
		return t
	}
	if old, ok := vc.heapSorts[name]; ok && old != sort {
		panic(trError{fmt.Sprintf("heap %s used with sorts %s and %s", name, old, sort)})
	}
	vc.heapSorts[name] = sort
	t := vc.sc.Const("H."+name+".0", sort)
	// every state that does not mention the heap sees its initial version
	s.heaps[name] = t
	return t
}

func (s *State) setHeap(name string, t Term) { s.heaps[name] = t }

// ---------------------------------------------------------------- heap addressing

func (vc *FuncVC) isLocalStruct(t types.Type) bool {
	n, ok := t.(*types.Named)
	if !ok {
		return true // anonymous struct: flatten
	}
	if n.Obj().Pkg() == nil {
		return false
	}
	return strings.HasPrefix(n.Obj().Pkg().Path(), modPath)
}

// fieldPtr computes the address of field i of the struct the pointer p points to.
func (vc *FuncVC) fieldPtr(p PtrVal, i int) PtrVal {
	st, ok := p.T.Underlying().(*types.Struct)
	if !ok {
		panic(trError{fmt.Sprintf("field address in non-struct %s", p.T)})
	}
	f := st.Field(i)
	var path string
	if p.Path == "" {
		path = typeKey(p.T) + "." + f.Name()
	} else {
		path = p.Path + "." + f.Name()
	}
	return PtrVal{Base: p.Base, Path: path, Idx: p.Idx, T: f.Type()}
}

// subRef is the identity of an embedded object (a struct-typed field of an external type such as sync.Mutex).
func (vc *FuncVC) subRef(p PtrVal) Term {
	if p.Idx != nil {
		panic(trError{"address of an embedded object inside an array element is not supported"})
	}
	if p.Path == "" {
		return p.Base
	}
	f := vc.sc.Func("sub."+p.Path, []Sort{SRef}, SRef)
	return mk(SRef, f, p.Base)
}

// ptrTerm converts a pointer value to a Ref term (only whole objects / cells / embedded external objects).
func (vc *FuncVC) ptrTerm(p PtrVal) Term {
	if p.Path == "" {
		return p.Base
	}
	if _, ok := p.T.Underlying().(*types.Struct); ok && p.Idx == nil {
		return vc.subRef(p)
	}
	panic(trError{fmt.Sprintf("interior pointer to %s (%s) escapes: not supported", p.T, p.Path)})
}

// leafName returns the heap name for a scalar location.
func leafName(p PtrVal) string {
	if p.Path == "" {
		return "cell." + typeKey(p.T)
	}
	return p.Path
}

func (vc *FuncVC) leafSort(p PtrVal, s Sort) Sort {
	if p.Idx != nil {
		return ArraySort(SRef, ArraySort(SInt, s))
	}
	return ArraySort(SRef, s)
}

func (vc *FuncVC) loadLeaf(st *State, p PtrVal, s Sort) Term {
	name := leafName(p)
	if strings.HasPrefix(name, "global.") {
		return st.heap(vc, name, s)
	}
	h := st.heap(vc, name, vc.leafSort(p, s))
	if p.Idx != nil {
		return Select(Select(h, p.Base), *p.Idx)
	}
	return Select(h, p.Base)
}

func (vc *FuncVC) storeLeaf(st *State, p PtrVal, v Term) {
	name := leafName(p)
	if strings.HasPrefix(name, "global.") {
		st.heap(vc, name, v.Sort)
		st.setHeap(name, v)
		return
	}
	h := st.heap(vc, name, vc.leafSort(p, v.Sort))
	var nh Term
	if p.Idx != nil {
		nh = Store(h, p.Base, Store(Select(h, p.Base), *p.Idx, v))
	} else {
		nh = Store(h, p.Base, v)
	}
	// name the new version to keep terms small
	c := vc.fresh(st, "H."+name, h.Sort)
	st.assume(Eq(c, nh))
	st.setHeap(name, c)
}

func (vc *FuncVC) fresh(st *State, hint string, s Sort) Term {
	t := vc.sc.Fresh(hint, s)
	st.ndecls = len(vc.sc.decls)
	return t
}

// load reads a value of type t through pointer value p.
func (vc *FuncVC) load(st *State, ptr Value, t types.Type) Value {
	var p PtrVal
	switch x := ptr.(type) {
	case PtrVal:
		p = x
	case Term:
		p = PtrVal{Base: x, Path: "", T: t}
	default:
		panic(trError{fmt.Sprintf("load through %T", ptr)})
	}
	return vc.loadAt(st, p)
}

func (vc *FuncVC) loadAt(st *State, p PtrVal) Value {
	s := vc.sortOf(p.T)
	if s != "" {
		v := vc.loadLeaf(st, p, s)
		vc.assumeTyped(st, v, p.T)
		for _, fi := range vc.fieldInvsFor(leafName(p)) {
			st.assume(vc.fieldInvTerm(st, fi, v, p.T))
		}
		return v
	}
	switch u := p.T.Underlying().(type) {
	case *types.Struct:
		sv := &StructVal{T: p.T}
		if !vc.isLocalStruct(p.T) {
			// external struct: its scalar fields are modelled (and copied with the value), the rest is not
			any := false
			fs := make([]Value, u.NumFields())
			for i := 0; i < u.NumFields(); i++ {
				if vc.sortOf(u.Field(i).Type()) != "" {
					fs[i] = vc.loadAt(st, vc.fieldPtr(p, i))
					any = true
				}
			}
			if any {
				sv.F = fs
			}
			return sv
		}
		for i := 0; i < u.NumFields(); i++ {
			sv.F = append(sv.F, vc.loadAt(st, vc.fieldPtr(p, i)))
		}
		return sv
	case *types.Array:
		return &ZeroArray{T: p.T} // whole-array loads only occur when copying structs that embed (unmodelled) arrays
	}
	panic(trError{fmt.Sprintf("load of type %s not supported", p.T)})
}

// assumeTyped adds the type invariant of a loaded / received value.
func (vc *FuncVC) assumeTyped(st *State, v Term, t types.Type) {
	switch v.Sort {
	case SInt:
		st.assume(vc.rangeAssumption(v, t))
	case SSlice:
		st.assume(sliceWF(v))
		st.assume(Or(Eq(SArr(v), tNull), Select(st.alloc, SArr(v))))
	case SRef:
		st.assume(Or(Eq(v, tNull), Select(st.alloc, v)))
	case SIface:
		st.assume(Or(Eq(IRef(v), tNull), Select(st.alloc, IRef(v))))
		st.assume(Le(IntLit(0), ITag(v)))
		st.assume(Implies(Eq(ITag(v), IntLit(0)), Eq(IRef(v), tNull)))
		if it, ok := t.Underlying().(*types.Interface); ok && it.NumMethods() > 0 {
			// static typing: a non-nil value of interface type T has a dynamic type implementing T
			st.assume(Implies(Not(Eq(ITag(v), IntLit(0))), vc.implementsIface(st, v, it)))
		}
	}
}

func (vc *FuncVC) store(st *State, ptr Value, v Value, t types.Type) {
	var p PtrVal
	switch x := ptr.(type) {
	case PtrVal:
		p = x
	case Term:
		p = PtrVal{Base: x, Path: "", T: t}
	default:
		panic(trError{fmt.Sprintf("store through %T", ptr)})
	}
	vc.storeAt(st, p, v)
}

func (vc *FuncVC) storeAt(st *State, p PtrVal, v Value) {
	switch x := v.(type) {
	case Term:
		for _, fi := range vc.fieldInvsFor(leafName(p)) {
			g := vc.fieldInvTerm(st, fi, x, p.T)
			vc.emit(st, vc.uniqueName("fieldinv."+shortName(leafName(p))), "safe", fi.C.Tags, g, "field invariant holds for the stored value: "+fi.C.Src, vc.fn.Pos())
		}
		vc.storeLeaf(st, p, x)
	case PtrVal:
		vc.storeLeaf(st, p, vc.ptrTerm(x))
	case *StructVal:
		u := p.T.Underlying().(*types.Struct)
		if len(x.F) == 0 {
			// opaque value of an external struct type: whatever scalar fields the destination models become unknown
			if !vc.isLocalStruct(p.T) {
				for i := 0; i < u.NumFields(); i++ {
					if s := vc.sortOf(u.Field(i).Type()); s != "" {
						fp := vc.fieldPtr(p, i)
						v := vc.fresh(st, "copied."+u.Field(i).Name(), s)
						vc.storeLeaf(st, fp, v)
						vc.assumeTyped(st, v, u.Field(i).Type())
					}
				}
			}
			return
		}
		for i := 0; i < u.NumFields(); i++ {
			if x.F[i] == nil {
				continue // unmodelled part of an external struct
			}
			vc.storeAt(st, vc.fieldPtr(p, i), x.F[i])
		}
	case *ZeroArray:
		arr := x.T.Underlying().(*types.Array)
		if p.Idx != nil {
			panic(trError{"array inside an indexed location is not supported"})
		}
		if arr.Len() == 0 {
			return
		}
		leaves := map[string]bool{}
		vc.leafHeaps(p.Path+"[]", arr.Elem(), leaves)
		for _, name := range sortedKeys(leaves) {
			lt := vc.leafType(arr.Elem(), strings.TrimPrefix(name, p.Path+"[]"))
			ls := vc.sortOf(lt)
			hs := ArraySort(SRef, ArraySort(SInt, ls))
			h := st.heap(vc, name, hs)
			nh := vc.fresh(st, "H."+name, hs)
			z := vc.zero(lt).(Term)
			st.assume(Eq(nh, Store(h, p.Base, Term{fmt.Sprintf("((as const (Array Int %s)) %s)", ls, z.S), ArraySort(SInt, ls)})))
			st.setHeap(name, nh)
		}
	case *ClosureVal:
		vc.storeLeaf(st, p, vc.closureRef(st, x))
	default:
		panic(trError{fmt.Sprintf("store of %T not supported", v)})
	}
}

// closureRef turns a function value into an opaque reference (its identity only).
func (vc *FuncVC) closureRef(st *State, c *ClosureVal) Term {
	if len(c.Bind) == 0 {
		t := vc.sc.Const("fn."+c.Fn.String(), SRef)
		key := "fnnonnil:" + t.S
		if !vc.namedOnce[key] {
			vc.namedOnce[key] = true
			vc.implFacts = append(vc.implFacts, Not(Eq(t, tNull)))
		}
		return t
	}
	r := vc.fresh(st, "closure."+c.Fn.Name(), SRef)
	st.assume(Not(Eq(r, tNull)))
	vc.closures[r.S] = c
	return r
}

// zero returns the zero value of a type.
func (vc *FuncVC) zero(t types.Type) Value {
	switch u := t.Underlying().(type) {
	case *types.Basic:
		switch {
		case u.Info()&types.IsBoolean != 0:
			return tFalse
		case u.Info()&types.IsInteger != 0:
			if vc.bv {
				return BVLit(0)
			}
			return IntLit(0)
		case u.Info()&types.IsString != 0:
			return vc.strLit("")
		case u.Info()&types.IsFloat != 0:
			return Term{"0.0", "Real"}
		default:
			return tNull
		}
	case *types.Pointer, *types.Map, *types.Chan, *types.Signature:
		return tNull
	case *types.Slice:
		return nilSlice
	case *types.Interface:
		return nilIface
	case *types.Struct:
		sv := &StructVal{T: t}
		if !vc.isLocalStruct(t) {
			// external struct (sync.Mutex, bbolt.Options, protoimpl.MessageState, ...): only its scalar fields are
			// modelled (a nil entry = unmodelled nested value)
			for i := 0; i < u.NumFields(); i++ {
				if vc.sortOf(u.Field(i).Type()) != "" {
					sv.F = append(sv.F, vc.zero(u.Field(i).Type()))
				} else {
					sv.F = append(sv.F, nil)
				}
			}
			return sv
		}
		for i := 0; i < u.NumFields(); i++ {
			sv.F = append(sv.F, vc.zero(u.Field(i).Type()))
		}
		return sv
	case *types.Array:
		return &ZeroArray{T: t}
	}
	panic(trError{fmt.Sprintf("zero value of %s not supported", t)})
}

// strLit interns a string literal as a distinct constant with known length (and bytes for short literals).
func (vc *FuncVC) strLit(s string) Term {
	if t, ok := vc.strLits[s]; ok {
		return t
	}
	name := fmt.Sprintf("str.%d", len(vc.strLits))
	t := vc.sc.Const(name, SStr)
	vc.strLits[s] = t
	vc.strOrder = append(vc.strOrder, s)
	return t
}

// strAxioms returns the facts about interned literals: lengths, bytes, pairwise distinctness.
func (vc *FuncVC) strAxioms() []Term {
	var out []Term
	for i, s := range vc.strOrder {
		t := vc.strLits[s]
		out = append(out, Eq(mk(SInt, "slen", t), IntLit(int64(len(s)))))
		if len(s) <= 80 {
			for j := 0; j < len(s); j++ {
				out = append(out, Eq(mk(SInt, "sat", t, IntLit(int64(j))), IntLit(int64(s[j]))))
			}
		}
		for _, s2 := range vc.strOrder[:i] {
			out = append(out, Not(Eq(t, vc.strLits[s2])))
		}
	}
	return out
}

// freshValue creates an unconstrained value of a Go type (with its type invariant assumed).
func (vc *FuncVC) freshValue(st *State, hint string, t types.Type) Value {
	s := vc.sortOf(t)
	if s != "" {
		v := vc.fresh(st, hint, s)
		vc.assumeTyped(st, v, t)
		return v
	}
	switch u := t.Underlying().(type) {
	case *types.Struct:
		sv := &StructVal{T: t}
		if !vc.isLocalStruct(t) {
			return sv
		}
		for i := 0; i < u.NumFields(); i++ {
			sv.F = append(sv.F, vc.freshValue(st, hint+"."+u.Field(i).Name(), u.Field(i).Type()))
		}
		return sv
	case *types.Array:
		return &ZeroArray{T: t}
	case *types.Tuple:
		var tv TupleVal
		for i := 0; i < u.Len(); i++ {
			tv = append(tv, vc.freshValue(st, fmt.Sprintf("%s.%d", hint, i), u.At(i).Type()))
		}
		return tv
	}
	panic(trError{fmt.Sprintf("fresh value of %s not supported", t)})
}

// allocate returns a fresh, non-null, previously unallocated reference.
func (vc *FuncVC) allocate(st *State, hint string) Term {
	r := vc.fresh(st, hint, SRef)
	st.assume(Not(Eq(r, tNull)))
	st.assume(Not(Select(st.alloc, r)))
	na := vc.fresh(st, "alloc", ArraySort(SRef, SBool))
	st.assume(Eq(na, Store(st.alloc, r, tTrue)))
	st.alloc = na
	vc.freshRefs[r.S] = true
	return r
}

// fieldInvsFor returns the field invariants declared for a heap (resolved lazily, once).
func (vc *FuncVC) fieldInvsFor(heap string) []*FieldInv {
	if vc.fieldInvs == nil {
		vc.fieldInvs = map[string][]*FieldInv{}
		for _, fi := range vc.w.specs.FieldInvs {
			func() {
				defer func() { recover() }()
				name, _ := vc.resolveHeap(fi.Heap, vc.w.typPkgs[fi.Pkg])
				vc.fieldInvs[name] = append(vc.fieldInvs[name], fi)
			}()
		}
	}
	return vc.fieldInvs[heap]
}

func (vc *FuncVC) fieldInvTerm(st *State, fi *FieldInv, v Term, t types.Type) Term {
	env := &Env{vc: vc, st: st, vars: map[string]TV{"$v": {T: v, Go: t}}, pkg: vc.w.typPkgs[fi.Pkg]}
	if env.pkg == nil {
		env.pkg = vc.fn.Pkg.Pkg
	}
	return env.asBool(env.tr(fi.C.E))
}
