package main

import (
	"fmt"
	"go/token"
	"go/types"
	"strings"

	"golang.org/x/tools/go/ssa"
)

// modTarget is one resolved entry of a modifies clause.
type modTarget struct {
	name string
	sort Sort
	base *Term // nil: the whole heap may change
}

// modTargets resolves a modifies entry in an environment (parameters bound).
func (e *Env) modTargets(m ModSpec) []modTarget {
	if m.LV == nil {
		name, hs := e.vc.resolveHeap(m.Heap, e.pkg)
		if m.At == nil {
			return []modTarget{{name, hs, nil}}
		}
		var out []modTarget
		for _, a := range m.At {
			t := e.tr(a).T
			out = append(out, modTarget{name, hs, &t})
		}
		return out
	}
	switch x := m.LV.(type) {
	case *ESel:
		v := e.tr(x.X)
		loc := e.toLoc(v)
		if loc == nil {
			trFail("modifies %s: not an object", m.Src)
		}
		name, s, _, fp, ok := e.fieldHeap(*loc, x.Field)
		if !ok {
			trFail("modifies %s: no such field", m.Src)
		}
		base := loc.Base
		if fp != nil && s == "" {
			// struct-typed field: all its leaves
			leaves := map[string]bool{}
			e.vc.leafHeaps(fp.Path, fp.T, leaves)
			var out []modTarget
			for _, ln := range sortedKeys(leaves) {
				lt := e.vc.leafType(fp.T, strings.TrimPrefix(ln, fp.Path))
				out = append(out, modTarget{ln, ArraySort(SRef, e.vc.sortOf(lt)), &base})
			}
			return out
		}
		if loc.Idx != nil {
			return []modTarget{{name, ArraySort(SRef, ArraySort(SInt, s)), &base}}
		}
		return []modTarget{{name, ArraySort(SRef, s), &base}}
	case *EIdx:
		v := e.tr(x.X)
		if v.Go == nil {
			trFail("modifies %s: unsupported", m.Src)
		}
		if v.Loc != nil {
			if at, ok := v.Loc.T.Underlying().(*types.Array); ok && v.Loc.Idx == nil {
				// all elements of an array-typed field
				leaves := map[string]bool{}
				e.vc.leafHeaps(v.Loc.Path+"[]", at.Elem(), leaves)
				base := v.Loc.Base
				var out []modTarget
				for _, ln := range sortedKeys(leaves) {
					lt := e.vc.leafType(at.Elem(), strings.TrimPrefix(ln, v.Loc.Path+"[]"))
					out = append(out, modTarget{ln, ArraySort(SRef, ArraySort(SInt, e.vc.sortOf(lt))), &base})
				}
				return out
			}
		}
		switch u := v.Go.Underlying().(type) {
		case *types.Slice:
			leaves := map[string]bool{}
			e.vc.leafHeaps("[]"+typeKey(u.Elem()), u.Elem(), leaves)
			base := SArr(v.T)
			var out []modTarget
			for _, ln := range sortedKeys(leaves) {
				lt := e.vc.leafType(u.Elem(), strings.TrimPrefix(ln, "[]"+typeKey(u.Elem())))
				out = append(out, modTarget{ln, ArraySort(SRef, ArraySort(SInt, e.vc.sortOf(lt))), &base})
			}
			return out
		case *types.Map:
			ks := e.vc.mapKeySort(u)
			base := v.T
			return []modTarget{
				{"map." + typeKey(u), ArraySort(SRef, ArraySort(ks, e.vc.sortOf(u.Elem()))), &base},
				{"dom." + typeKey(u), ArraySort(SRef, ArraySort(ks, SBool)), &base},
			}
		}
	}
	trFail("modifies %s: unsupported lvalue", m.Src)
	return nil
}

// staticModNames computes the heap names a modifies entry may touch without evaluating it (for loop havoc).
// argPrefix(i) returns the static heap prefix of the i-th actual argument ("" for whole objects) and ok=false if unknown.
func (vc *FuncVC) staticModNames(sp *FuncSpec, sig *types.Signature, hasRecv bool, paramNames []string, m ModSpec, argPrefix func(i int) (string, bool), out map[string]bool) {
	pkg := vc.w.typPkgs[sp.Pkg]
	if m.LV == nil {
		name, _ := vc.resolveHeap(m.Heap, pkg)
		out[name] = true
		return
	}
	// walk down to the root identifier
	var fields []string
	cur := m.LV
	elems := false
	if ix, ok := cur.(*EIdx); ok {
		elems = true
		cur = ix.X
	}
	for {
		if s, ok := cur.(*ESel); ok {
			fields = append([]string{s.Field}, fields...)
			cur = s.X
			continue
		}
		break
	}
	id, ok := cur.(*EIdent)
	if !ok {
		out["*"] = true
		return
	}
	idx := -1
	for i, n := range paramNames {
		if n == id.Name {
			idx = i
		}
	}
	if idx < 0 {
		out["*"] = true
		return
	}
	var t types.Type
	if hasRecv {
		if idx == 0 {
			t = sig.Recv().Type()
		} else {
			t = sig.Params().At(idx - 1).Type()
		}
	} else {
		t = sig.Params().At(idx).Type()
	}
	prefix := ""
	if argPrefix != nil {
		if p, ok := argPrefix(idx); ok {
			prefix = p
		}
	}
	if p, ok := t.Underlying().(*types.Pointer); ok {
		t = p.Elem()
	}
	for i, f := range fields {
		base := prefix
		if base == "" {
			base = typeKey(t)
		}
		if g := vc.w.ghostField(t, f); g != nil {
			if i == len(fields)-1 {
				out[base+"."+f] = true
				return
			}
			// a ghost field holding a pointer (e.g. Bucket.gtx *Tx): continue at the pointee type
			var gpkg *types.Package
			if g.Pkg != "" {
				gpkg = vc.w.typPkgs[g.Pkg]
			}
			gt := vc.w.LookupType(g.Sort, gpkg)
			if gt == nil {
				out["*"] = true
				return
			}
			if p, ok := gt.Underlying().(*types.Pointer); ok {
				t = p.Elem()
				prefix = ""
				continue
			}
			out["*"] = true
			return
		}
		st, isS := t.Underlying().(*types.Struct)
		if !isS {
			out["*"] = true
			return
		}
		found := false
		for j := 0; j < st.NumFields(); j++ {
			if st.Field(j).Name() == f {
				ft := st.Field(j).Type()
				if i == len(fields)-1 {
					if elems {
						switch u := ft.Underlying().(type) {
						case *types.Array:
							vc.leafHeaps(base+"."+f+"[]", u.Elem(), out)
						case *types.Slice:
							vc.leafHeaps("[]"+typeKey(u.Elem()), u.Elem(), out)
						case *types.Map:
							out["map."+typeKey(u)] = true
							out["dom."+typeKey(u)] = true
						default:
							out["*"] = true
						}
					} else {
						vc.leafHeaps(base+"."+f, ft, out)
					}
					return
				}
				// descend: through a pointer we restart at the pointee type
				if p, ok := ft.Underlying().(*types.Pointer); ok {
					t = p.Elem()
					prefix = ""
				} else if _, ok := ft.Underlying().(*types.Interface); ok {
					t = ft
					prefix = ""
				} else {
					t = ft
					prefix = base + "." + f
				}
				found = true
				break
			}
		}
		if !found {
			out["*"] = true
			return
		}
	}
	if len(fields) == 0 && elems {
		switch u := t.Underlying().(type) {
		case *types.Slice:
			vc.leafHeaps("[]"+typeKey(u.Elem()), u.Elem(), out)
		case *types.Map:
			out["map."+typeKey(u)] = true
			out["dom."+typeKey(u)] = true
		default:
			out["*"] = true
		}
	}
}

// ---------------------------------------------------------------- lock discipline

// lockCheck emits a guarded-by obligation for a load or store of a guarded field.
func (vc *FuncVC) lockCheck(st *State, p Value, write bool, pos token.Pos) {
	pv, ok := p.(PtrVal)
	if !ok || pv.Path == "" {
		return
	}
	for _, g := range vc.w.specs.Guards {
		pkg := vc.w.typPkgs[g.Pkg]
		t := vc.w.LookupType(g.Type, pkg)
		if t == nil {
			continue
		}
		tk := typeKey(t)
		for _, f := range g.Fields {
			if pv.Path != tk+"."+f {
				continue
			}
			if vc.freshRefs[pv.Base.S] {
				return // object created by this function: not shared yet
			}
			st0, _ := t.Underlying().(*types.Struct)
			var mt types.Type
			for i := 0; st0 != nil && i < st0.NumFields(); i++ {
				if st0.Field(i).Name() == g.Mutex {
					mt = st0.Field(i).Type()
				}
			}
			if mt == nil {
				panic(trError{fmt.Sprintf("guarded: %s has no field %s", g.Type, g.Mutex)})
			}
			name := tk + "." + g.Mutex + ".held"
			h := st.heap(vc, name, ArraySort(SRef, SInt))
			held := Select(h, pv.Base)
			var goal Term
			what := "read"
			if write {
				goal = Eq(held, IntLit(2))
				what = "write"
			} else if g.Mode == "exclusive" {
				goal = Eq(held, IntLit(2))
			} else {
				goal = Ge(held, IntLit(1))
			}
			nm := vc.uniqueName(fmt.Sprintf("lock.%s.%s", shortName(g.Type), f))
			vc.emit(st, nm, "lock", g.Tags, goal, fmt.Sprintf("%s of %s.%s happens with %s.%s held (%s)", what, g.Type, f, g.Type, g.Mutex, g.Mode), pos)
			return
		}
	}
}

// ---------------------------------------------------------------- prelude and axioms

const theoryPrelude = `(declare-fun slen (Str) Int)
(declare-fun sat (Str Int) Int)
(declare-fun scat (Str Str) Str)
(declare-fun ssub (Str Int Int) Str)
(declare-fun sless (Str Str) Bool)
(declare-fun sbytes (Str) (Array Int Int))
(define-fun godiv ((a Int) (b Int)) Int (ite (>= a 0) (ite (> b 0) (div a b) (- (div a (- b)))) (ite (> b 0) (- (div (- a) b)) (div (- a) (- b)))))
(define-fun gomod ((a Int) (b Int)) Int (- a (* b (godiv a b))))
`

var theoryAxioms = []struct{ name, text string }{
	{"slen_nonneg", "(forall ((s Str)) (! (and (>= (slen s) 0) (< (slen s) 72057594037927936)) :pattern ((slen s))))"},
	{"sat_byte", "(forall ((s Str) (i Int)) (! (and (<= 0 (sat s i)) (< (sat s i) 256)) :pattern ((sat s i))))"},
	{"ssub_len", "(forall ((s Str) (a Int) (b Int)) (! (=> (and (<= 0 a) (<= a b) (<= b (slen s))) (= (slen (ssub s a b)) (- b a))) :pattern ((ssub s a b))))"},
	{"ssub_at", "(forall ((s Str) (a Int) (b Int) (i Int)) (! (=> (and (<= 0 a) (<= a b) (<= b (slen s)) (<= 0 i) (< i (- b a))) (= (sat (ssub s a b) i) (sat s (+ a i)))) :pattern ((sat (ssub s a b) i))))"},
	{"scat_len", "(forall ((a Str) (b Str)) (! (= (slen (scat a b)) (+ (slen a) (slen b))) :pattern ((scat a b))))"},
	{"sless_irrefl", "(forall ((a Str)) (! (not (sless a a)) :pattern ((sless a a))))"},
	{"sless_trans", "(forall ((a Str) (b Str) (c Str)) (! (=> (and (sless a b) (sless b c)) (sless a c)) :pattern ((sless a b) (sless b c))))"},
	{"sless_total", "(forall ((a Str) (b Str)) (! (or (sless a b) (sless b a) (= a b)) :pattern ((sless a b))))"},
	{"sbytes_at", "(forall ((s Str) (i Int)) (! (=> (and (<= 0 i) (< i (slen s))) (= (select (sbytes s) i) (sat s i))) :pattern ((select (sbytes s) i))))"},
}

func (vc *FuncVC) initPrelude() {
	vc.sc.prelude = append(vc.sc.prelude, theoryPrelude)
	for _, raw := range vc.w.specs.RawSMT {
		vc.sc.prelude = append(vc.sc.prelude, raw)
	}
	for _, n := range []string{"slen", "sat", "scat", "ssub", "sless", "sbytes", "godiv", "gomod"} {
		vc.sc.declared[n] = true
	}
}

var smtBuiltins = map[string]bool{"and": true, "or": true, "not": true, "=": true, "=>": true, "select": true, "store": true, "+": true, "-": true,
	"*": true, "<": true, "<=": true, ">": true, ">=": true, "forall": true, "exists": true, "ite": true, "!": true, "let": true, "mod": true, "div": true,
	"s-arr": true, "s-off": true, "s-len": true, "s-cap": true, "mk-slice": true, "i-tag": true, "i-ref": true, "mk-iface": true, "distinct": true, "as": true, "_": true}

// headSymbols collects function symbols in head position of an S-expression text.
func headSymbols(s string) map[string]bool {
	m := map[string]bool{}
	for i := 0; i < len(s); i++ {
		if s[i] == '(' {
			j := i + 1
			for j < len(s) && s[j] != ' ' && s[j] != ')' && s[j] != '(' {
				j++
			}
			h := s[i+1 : j]
			if h != "" && !smtBuiltins[h] && !strings.HasPrefix(h, ":") {
				m[h] = true
			}
		}
	}
	return m
}

// translateAxioms turns the theory axioms and the axioms of the spec files into SMT assertions (once per function).
func (vc *FuncVC) translateAxioms() {
	for _, a := range theoryAxioms {
		vc.axioms = append(vc.axioms, axiomT{name: a.name, term: a.text, syms: headSymbols(a.text)})
	}
	dummy := &State{heaps: map[string]Term{}, alloc: vc.sc.Const("alloc.0", ArraySort(SRef, SBool)), fr: &frame{regs: map[ssa.Value]Value{}}}
	type declT struct {
		ad    *AxiomDecl
		lemma bool
	}
	var decls []declT
	for _, ad := range vc.w.specs.Axioms {
		decls = append(decls, declT{ad, false})
	}
	if !vc.bv {
		// lemmas are integer-mode statements; bit-vector mode functions neither use nor prove them
		for _, ad := range vc.w.specs.Lemmas {
			decls = append(decls, declT{ad, true})
		}
	}
	for _, dd := range decls {
		ad := dd.ad
		var pkg *types.Package
		for _, p := range vc.w.pkgs {
			for _, f := range p.CompiledGoFiles {
				if f == ad.File {
					pkg = p.Types
				}
			}
		}
		if vc.bv && pkg != nil && pkg != vc.fn.Pkg.Pkg {
			// bit-vector mode: integers of contracts are 64-bit vectors there, so axioms written for another package's
			// (integer mode) contracts have no reading; only the function's own package and the trusted theories apply
			continue
		}
		if pkg == nil {
			pkg = vc.fn.Pkg.Pkg
		}
		ds := &State{heaps: map[string]Term{}, alloc: dummy.alloc, fr: dummy.fr}
		env := &Env{vc: vc, st: ds, vars: map[string]TV{}, pkg: pkg}
		var t Term
		skipped := false
		func() {
			defer func() {
				if r := recover(); r != nil {
					if te, ok := r.(trError); ok && vc.bv {
						// an integer axiom that has no bit-vector reading: not available to this (bv mode) function
						_ = te
						skipped = true
						return
					}
					panic(r)
				}
			}()
			t = env.asBool(env.tr(ad.E))
		}()
		if skipped {
			continue
		}
		text := t.S
		// an axiom that reads heaps holds in every state: close it universally over the heaps it mentions
		// (and over the set of allocated objects, renamed so that it cannot be confused with a state's)
		usesAlloc := strings.Contains(text, dummy.alloc.S+" ") || strings.Contains(text, dummy.alloc.S+")")
		if usesAlloc {
			text = substTokens(text, map[string]string{dummy.alloc.S: "alloc!ax"})
		}
		if len(ds.heaps) > 0 || usesAlloc {
			var bs []string
			for _, hn := range sortedKeys(ds.heaps) {
				h := ds.heaps[hn]
				bs = append(bs, fmt.Sprintf("(%s %s)", h.S, h.Sort))
			}
			if usesAlloc {
				bs = append(bs, "(alloc!ax (Array Ref Bool))")
			}
			if strings.HasPrefix(text, "(forall (") {
				// one flat quantifier, so that the axiom's patterns also bind the heaps
				text = "(forall (" + strings.Join(bs, " ") + " " + text[len("(forall ("):]
			} else {
				text = fmt.Sprintf("(forall (%s) %s)", strings.Join(bs, " "), text)
			}
		}
		vc.axioms = append(vc.axioms, axiomT{name: ad.Name, term: text, syms: headSymbols(text), lemma: dd.lemma})
	}
	// frame rules of recursive predicates (see FrameDecl)
	for _, fd := range vc.w.specs.Frames {
		fields := strings.Fields(fd.Name)
		if len(fields) != 3 || vc.bv {
			continue
		}
		pd := vc.w.specs.Pures[fields[0]]
		if pd == nil {
			continue
		}
		pkg := vc.w.typPkgs[fd.Pkg]
		var binders, a1, a2, agree []string
		ok := true
		func() {
			defer func() {
				if recover() != nil {
					ok = false
				}
			}()
			var sorts []Sort
			lo1, hi1, lo2, hi2 := "", "", "", ""
			for i, p := range pd.Params {
				ps, _ := vc.specSort(p.Type, pkg)
				sorts = append(sorts, ps)
				switch p.Name {
				case fields[1]:
					binders = append(binders, "(lo1!fr (Array Ref Bool))", "(lo2!fr (Array Ref Bool))")
					a1, a2 = append(a1, "lo1!fr"), append(a2, "lo2!fr")
					lo1, lo2 = "lo1!fr", "lo2!fr"
				case fields[2]:
					binders = append(binders, "(hi1!fr (Array Ref Bool))", "(hi2!fr (Array Ref Bool))")
					a1, a2 = append(a1, "hi1!fr"), append(a2, "hi2!fr")
					hi1, hi2 = "hi1!fr", "hi2!fr"
				default:
					binders = append(binders, fmt.Sprintf("(a%d!fr %s)", i, ps))
					a1, a2 = append(a1, fmt.Sprintf("a%d!fr", i)), append(a2, fmt.Sprintf("a%d!fr", i))
				}
			}
			if lo1 == "" || hi1 == "" {
				ok = false
				return
			}
			for i, h := range pd.Reads {
				_, hs := vc.resolveHeap(h, pkg)
				binders = append(binders, fmt.Sprintf("(H%d!fr %s)", i, hs), fmt.Sprintf("(G%d!fr %s)", i, hs))
				a1 = append(a1, fmt.Sprintf("H%d!fr", i))
				a2 = append(a2, fmt.Sprintf("G%d!fr", i))
				agree = append(agree, fmt.Sprintf("(= (select H%d!fr r!fr) (select G%d!fr r!fr))", i, i))
				sorts = append(sorts, hs)
			}
			rs, _ := vc.specSort(pd.Ret, pkg)
			fname := vc.sc.Func("f."+pd.Name, sorts, rs)
			t1 := fmt.Sprintf("(%s %s)", fname, strings.Join(a1, " "))
			t2 := fmt.Sprintf("(%s %s)", fname, strings.Join(a2, " "))
			in1 := fmt.Sprintf("(and (select %s r!fr) (not (select %s r!fr)))", hi1, lo1)
			in2 := fmt.Sprintf("(and (select %s r!fr) (not (select %s r!fr)))", hi2, lo2)
			text := fmt.Sprintf("(forall (%s) (! (=> (and %s (forall ((r!fr Ref)) (=> %s (and %s %s)))) %s) :pattern (%s %s)))",
				strings.Join(binders, " "), t1, in1, in2, strings.Join(agree, " "), t2, t1, t2)
			vc.axioms = append(vc.axioms, axiomT{name: "frame." + pd.Name, term: text, syms: headSymbols(text)})
		}()
		if !ok {
			vc.warn("frame rule for %s could not be generated", fd.Name)
		}
	}
}

// ---------------------------------------------------------------- higher-order library functions

type hoHandler func(st *State, fn *ssa.Function, c *ssa.CallCommon, args []Value, pos token.Pos, k func(*State, Value))

func (vc *FuncVC) higherOrder(fn *ssa.Function) hoHandler {
	switch fn.String() {
	case "(*go.etcd.io/bbolt.DB).View", "(*go.etcd.io/bbolt.DB).Update":
		return vc.hoBoltView
	case "sort.Slice", "sort.SliceStable":
		return vc.hoSortSlice
	}
	return nil
}

// hoBoltView: db.View(fn) / db.Update(fn) — the contract's requires are checked, a transaction object satisfying the
// contract's `unfold` clauses (which talk about the parameter tx) is created, the closure body is executed in place,
// and the contract's ensures (which may mention `result`, the closure's result) are assumed.
func (vc *FuncVC) hoBoltView(st *State, fn *ssa.Function, c *ssa.CallCommon, args []Value, pos token.Pos, k func(*State, Value)) {
	sp := vc.w.specFor(fn)
	if sp == nil {
		vc.unknownCall(st, shortName(fn.String()), fn.Signature, pos, k)
		return
	}
	vc.trusted["trusted:"+shortName(sp.Key)] = true
	cl, ok := args[1].(*ClosureVal)
	if !ok {
		if t, isT := args[1].(Term); isT {
			cl = vc.closures[t.S]
		}
	}
	if cl == nil {
		vc.unknownCall(st, shortName(fn.String())+" with an unknown callback", fn.Signature, pos, k)
		return
	}
	ptypes := []types.Type{fn.Signature.Recv().Type(), fn.Signature.Params().At(0).Type()}
	env := vc.bindCallee(st, nil, sp, fn, fn.Signature, args, ptypes, nil)
	for i, c := range sp.Requires {
		name := c.Name
		if name == "" {
			name = fmt.Sprintf("%d", i+1)
		}
		goal := env.asBool(env.tr(c.E))
		vc.emit(st, vc.uniqueName(fmt.Sprintf("pre@%s#%s", shortName(sp.Key), name)), "pre", c.Tags, goal, c.Src, pos)
		st.assume(goal)
	}
	old := st.snapshot()
	tx := vc.allocate(st, "tx")
	txT := cl.Fn.Signature.Params().At(0).Type()
	env2 := vc.bindCallee(st, old, sp, fn, fn.Signature, args, ptypes, nil)
	env2.vars["tx"] = TV{T: tx, Go: txT}
	for _, c := range sp.Unfolds {
		st.assume(env2.asBool(env2.tr(c.E)))
	}
	finish := func(st *State, res Value) {
		env3 := vc.bindCallee(st, old, sp, fn, fn.Signature, args, ptypes, []Value{res})
		env3.vars["tx"] = TV{T: tx, Go: txT}
		for _, c := range sp.Ensures {
			st.assume(env3.asBool(env3.tr(c.E)))
		}
		k(st, res)
	}
	if !strings.HasSuffix(fn.String(), ".Update") {
		vc.callFunction(st, cl.Fn, cl.Bind, []Value{tx}, pos, finish)
		return
	}
	// Update: the callback's result decides between Commit (whose error becomes the result) and Rollback; both are
	// the contract calls of bbolt.spec, applied to the transaction the callback worked on
	method := func(name string) (*ssa.Function, *FuncSpec) {
		m := vc.w.prog.LookupMethod(txT, nil, name)
		if m == nil {
			return nil, nil
		}
		return m, vc.w.specFor(m)
	}
	commitFn, commitSp := method("Commit")
	rollFn, rollSp := method("Rollback")
	if commitSp == nil || rollSp == nil {
		vc.unknownCall(st, shortName(fn.String())+" (no Commit/Rollback contract)", fn.Signature, pos, k)
		return
	}
	vc.callFunction(st, cl.Fn, cl.Bind, []Value{tx}, pos, func(st *State, res Value) {
		rt, isT := res.(Term)
		if !isT || rt.Sort != SIface {
			panic(trError{"Update callback result is not an error value"})
		}
		isNil := Eq(ITag(rt), IntLit(0))
		st2 := st.clone()
		st.assume(isNil)
		st2.assume(Not(isNil))
		st.trace = append(st.trace, fmt.Sprintf("%s: Update callback succeeded: commit", vc.pos(pos)))
		st2.trace = append(st2.trace, fmt.Sprintf("%s: Update callback failed: rollback", vc.pos(pos)))
		vc.run(func() {
			vc.contractCall(st, commitSp, commitFn, commitFn.Signature, []Value{tx}, []types.Type{txT}, pos, finish)
		})
		vc.run(func() {
			vc.contractCall(st2, rollSp, rollFn, rollFn.Signature, []Value{tx}, []types.Type{txT}, pos, func(st *State, _ Value) { finish(st, res) })
		})
		panic(pathEnd{})
	})
}

// substTokens replaces whole tokens of an S-expression text.
func substTokens(s string, m map[string]string) string {
	if len(m) == 0 {
		return s
	}
	var b strings.Builder
	i := 0
	for i < len(s) {
		c := s[i]
		if c == '(' || c == ')' || c == ' ' || c == '\n' {
			b.WriteByte(c)
			i++
			continue
		}
		j := i
		for j < len(s) && s[j] != '(' && s[j] != ')' && s[j] != ' ' && s[j] != '\n' {
			j++
		}
		tok := s[i:j]
		if r, ok := m[tok]; ok {
			b.WriteString(r)
		} else {
			b.WriteString(tok)
		}
		i = j
	}
	return b.String()
}

// evalClosurePure evaluates a closure on symbolic arguments in the current state and returns its (single) result as a
// term over those arguments, with every intermediate definition inlined. ok=false if the closure has several paths.
func (vc *FuncVC) evalClosurePure(st *State, cl *ClosureVal, args []Term, pos token.Pos) (Term, bool) {
	st2 := st.clone()
	base := len(st.pc)
	declBase := len(vc.sc.decls)
	type capt struct {
		st  *State
		res Value
	}
	var got []capt
	var vargs []Value
	for _, a := range args {
		vargs = append(vargs, a)
	}
	vc.run(func() {
		vc.callFunction(st2, cl.Fn, cl.Bind, vargs, pos, func(s3 *State, res Value) {
			got = append(got, capt{s3, res})
			panic(pathEnd{})
		})
	})
	if len(got) != 1 {
		return Term{}, false
	}
	rt, ok := got[0].res.(Term)
	if !ok {
		return Term{}, false
	}
	newNames := map[string]bool{}
	for _, d := range vc.sc.decls[declBase:] {
		newNames[d.Name] = true
	}
	defs := map[string]string{}
	for _, a := range got[0].st.pc[base:] {
		t := a.S
		if !strings.HasPrefix(t, "(= ") {
			continue
		}
		rest := t[3 : len(t)-1]
		sp := strings.IndexByte(rest, ' ')
		if sp < 0 {
			continue
		}
		name := rest[:sp]
		if !newNames[name] {
			continue
		}
		if _, dup := defs[name]; dup {
			continue
		}
		defs[name] = substTokens(rest[sp+1:], defs)
	}
	out := substTokens(rt.S, defs)
	// the result must not mention constants created during the evaluation (they would be unconstrained)
	for n := range newNames {
		if _, isDef := defs[n]; !isDef && containsToken(out, n) {
			return Term{}, false
		}
	}
	return Term{out, rt.Sort}, true
}

func containsToken(s, tok string) bool {
	i := 0
	for {
		k := strings.Index(s[i:], tok)
		if k < 0 {
			return false
		}
		k += i
		before := k == 0 || s[k-1] == '(' || s[k-1] == ' '
		after := k+len(tok) == len(s) || s[k+len(tok)] == ')' || s[k+len(tok)] == ' '
		if before && after {
			return true
		}
		i = k + 1
	}
}

// hoSortSlice: sort.Slice(x, less) — the elements of x are permuted and, afterwards, sorted with respect to less.
// Assumed of the library: it only swaps elements of x and terminates with no i<j such that less(j,i) — for a less that is
// a strict weak order (not checked).
func (vc *FuncVC) hoSortSlice(st *State, fn *ssa.Function, c *ssa.CallCommon, args []Value, pos token.Pos, k func(*State, Value)) {
	vc.trusted["trusted:sort.Slice (permutes the slice; result sorted w.r.t. less)"] = true
	mi, ok := c.Args[0].(*ssa.MakeInterface)
	if !ok {
		vc.unknownCall(st, "sort.Slice on a dynamic value", fn.Signature, pos, k)
		return
	}
	slT, ok := mi.X.Type().Underlying().(*types.Slice)
	if !ok {
		vc.unknownCall(st, "sort.Slice on a non-slice", fn.Signature, pos, k)
		return
	}
	s := vc.term(st, mi.X)
	el := slT.Elem()
	var cl *ClosureVal
	switch x := args[1].(type) {
	case *ClosureVal:
		cl = x
	case Term:
		cl = vc.closures[x.S]
	}
	old := st.snapshot()
	n := SLen(s)
	vc.havocRange(st, el, s, IntLit(0), n, nil)
	// permutation: new[i] == old[p(i)] with p a bijection on [0,n)
	vc.counts["perm"]++
	p := vc.sc.Func(fmt.Sprintf("perm!%d", vc.counts["perm"]), []Sort{SInt}, SInt)
	pinv := vc.sc.Func(fmt.Sprintf("perminv!%d", vc.counts["perm"]), []Sort{SInt}, SInt)
	i := Term{"i!s", SInt}
	pi := mk(SInt, p, i)
	qi := mk(SInt, pinv, i)
	inR := func(t Term) Term { return And(Le(IntLit(0), t), Lt(t, n)) }
	st.assume(Term{fmt.Sprintf("(forall ((i!s Int)) (! (=> %s (and %s (= %s i!s))) :pattern (%s)))", inR(i).S, inR(pi).S, mk(SInt, pinv, pi).S, pi.S), SBool})
	st.assume(Term{fmt.Sprintf("(forall ((i!s Int)) (! (=> %s (and %s (= %s i!s))) :pattern (%s)))", inR(i).S, inR(qi).S, mk(SInt, p, qi).S, qi.S), SBool})
	leaves := map[string]bool{}
	vc.leafHeaps("[]"+typeKey(el), el, leaves)
	for _, name := range sortedKeys(leaves) {
		lt := vc.leafType(el, strings.TrimPrefix(name, "[]"+typeKey(el)))
		hs := ArraySort(SRef, ArraySort(SInt, vc.sortOf(lt)))
		nh := st.heap(vc, name, hs)
		oh := old.heap(vc, name, hs)
		// indexed by the absolute position K so that the patterns contain no arithmetic
		kk := Term{"k!s", SInt}
		rel := Sub(kk, SOff(s))
		inW := And(Le(SOff(s), kk), Lt(kk, Add(SOff(s), n)))
		newEl := Select(Select(nh, SArr(s)), kk)
		oldEl := Select(Select(oh, SArr(s)), Add(SOff(s), mk(SInt, p, rel)))
		st.assume(Term{fmt.Sprintf("(forall ((k!s Int)) (! (=> %s (= %s %s)) :pattern (%s)))", inW.S, newEl.S, oldEl.S, newEl.S), SBool})
		// and the other direction, so that facts about old elements reach the new ones
		oldAt := Select(Select(oh, SArr(s)), kk)
		newAt := Select(Select(nh, SArr(s)), Add(SOff(s), mk(SInt, pinv, rel)))
		st.assume(Term{fmt.Sprintf("(forall ((k!s Int)) (! (=> %s (= %s %s)) :pattern (%s)))", inW.S, oldAt.S, newAt.S, oldAt.S), SBool})
	}
	// sortedness
	if cl != nil {
		ci := vc.fresh(st, "less.i", SInt)
		cj := vc.fresh(st, "less.j", SInt)
		st3 := st.clone()
		st3.assume(inR(ci))
		st3.assume(inR(cj))
		if lt, ok := vc.evalClosurePure(st3, cl, []Term{ci, cj}, pos); ok && lt.Sort == SBool {
			// state sortedness over absolute positions Ki < Kj of the backing array: less(j, i) is false
			off := SOff(s).S
			relI := "(- i!s " + off + ")"
			relJ := "(- j!s " + off + ")"
			body := substTokens(lt.S, map[string]string{ci.S: relJ, cj.S: relI}) // less(j, i)
			if off == "0" {
				body = substTokens(lt.S, map[string]string{ci.S: "j!s", cj.S: "i!s"})
			} else {
				body = strings.ReplaceAll(body, "(+ "+off+" "+relI+")", "i!s")
				body = strings.ReplaceAll(body, "(+ "+off+" "+relJ+")", "j!s")
			}
			lo := SOff(s).S
			hi := Add(SOff(s), n).S
			st.assume(Term{fmt.Sprintf("(forall ((i!s Int) (j!s Int)) (=> (and (<= %s i!s) (< i!s j!s) (< j!s %s)) (not %s)))", lo, hi, body), SBool})
			vc.lastLess = body
		}
	}
	k(st, nil)
}
