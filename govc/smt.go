package main

import (
	"fmt"
	"math/big"
	"sort"
	"strings"
)

// Sort is the text of an SMT-LIB sort.
type Sort string

const (
	SInt   Sort = "Int"
	SBool  Sort = "Bool"
	SRef   Sort = "Ref"
	SStr   Sort = "Str"
	SSlice Sort = "Slice"
	SIface Sort = "Iface"
	SBV64  Sort = "(_ BitVec 64)"
	SISet  Sort = "(Array Int Bool)"
	SRSet  Sort = "(Array Ref Bool)"
	SUnit  Sort = "Unit"
)

func ArraySort(k, v Sort) Sort { return Sort("(Array " + string(k) + " " + string(v) + ")") }

// arrayParts splits "(Array K V)" into K and V.
func arrayParts(s Sort) (Sort, Sort, bool) {
	t := string(s)
	if !strings.HasPrefix(t, "(Array ") {
		return "", "", false
	}
	t = t[len("(Array ") : len(t)-1]
	// first sort expression
	depth := 0
	for i := 0; i < len(t); i++ {
		switch t[i] {
		case '(':
			depth++
		case ')':
			depth--
		case ' ':
			if depth == 0 {
				return Sort(t[:i]), Sort(t[i+1:]), true
			}
		}
	}
	return "", "", false
}

// Term is an SMT-LIB term with its sort.
type Term struct {
	S    string
	Sort Sort
}

func (t Term) String() string { return t.S }

func mk(sort Sort, op string, args ...Term) Term {
	var b strings.Builder
	b.WriteByte('(')
	b.WriteString(op)
	for _, a := range args {
		b.WriteByte(' ')
		b.WriteString(a.S)
	}
	b.WriteByte(')')
	return Term{b.String(), sort}
}

var (
	tTrue  = Term{"true", SBool}
	tFalse = Term{"false", SBool}
	tNull  = Term{"null", SRef}
)

func IntLit(n int64) Term {
	if n < 0 {
		return Term{fmt.Sprintf("(- %d)", -n), SInt}
	}
	return Term{fmt.Sprintf("%d", n), SInt}
}

func BigLit(n *big.Int) Term {
	if n.Sign() < 0 {
		return Term{"(- " + new(big.Int).Neg(n).String() + ")", SInt}
	}
	return Term{n.String(), SInt}
}

func BVLit(n uint64) Term { return Term{fmt.Sprintf("#x%016x", n), SBV64} }

func And(ts ...Term) Term {
	var out []Term
	for _, t := range ts {
		if t.S == "true" {
			continue
		}
		if t.S == "false" {
			return tFalse
		}
		if strings.HasPrefix(t.S, "(and ") {
			out = append(out, splitAnd(t)...)
			continue
		}
		out = append(out, t)
	}
	switch len(out) {
	case 0:
		return tTrue
	case 1:
		return out[0]
	}
	return mk(SBool, "and", out...)
}

func Or(ts ...Term) Term {
	var out []Term
	for _, t := range ts {
		if t.S == "false" {
			continue
		}
		if t.S == "true" {
			return tTrue
		}
		out = append(out, t)
	}
	switch len(out) {
	case 0:
		return tFalse
	case 1:
		return out[0]
	}
	return mk(SBool, "or", out...)
}

func Not(t Term) Term {
	if t.S == "true" {
		return tFalse
	}
	if t.S == "false" {
		return tTrue
	}
	return mk(SBool, "not", t)
}

func Implies(a, b Term) Term {
	if a.S == "true" {
		return b
	}
	if a.S == "false" || b.S == "true" {
		return tTrue
	}
	return mk(SBool, "=>", a, b)
}

func isNumeral(s string) bool {
	if s == "" {
		return false
	}
	for i := 0; i < len(s); i++ {
		if s[i] < '0' || s[i] > '9' {
			return false
		}
	}
	return true
}

func Eq(a, b Term) Term {
	if a.S == b.S {
		return tTrue
	}
	if isNumeral(a.S) && isNumeral(b.S) {
		return tFalse // distinct numerals
	}
	if (a.S == "true" && b.S == "false") || (a.S == "false" && b.S == "true") {
		return tFalse
	}
	return mk(SBool, "=", a, b)
}

// ctorArgs splits "(ctor a1 a2 ...)" into its arguments if the term is an application of ctor.
func ctorArgs(t Term, ctor string) []string {
	s := t.S
	if !strings.HasPrefix(s, "("+ctor+" ") {
		return nil
	}
	inner := s[len(ctor)+2 : len(s)-1]
	var out []string
	depth := 0
	start := 0
	for i := 0; i < len(inner); i++ {
		switch inner[i] {
		case '(':
			depth++
		case ')':
			depth--
		case ' ':
			if depth == 0 {
				out = append(out, inner[start:i])
				start = i + 1
			}
		}
	}
	out = append(out, inner[start:])
	return out
}

func Ite(c, a, b Term) Term { return mk(a.Sort, "ite", c, a, b) }

func Select(a, i Term) Term {
	_, v, ok := arrayParts(a.Sort)
	if !ok {
		panic("select on non-array sort " + string(a.Sort) + " term " + a.S)
	}
	return mk(v, "select", a, i)
}

func Store(a, i, v Term) Term { return mk(a.Sort, "store", a, i, v) }

func Add(a, b Term) Term {
	if isNumeral(a.S) && isNumeral(b.S) && len(a.S) < 15 && len(b.S) < 15 {
		var x, y int64
		fmt.Sscan(a.S, &x)
		fmt.Sscan(b.S, &y)
		return IntLit(x + y)
	}
	if a.S == "0" {
		return b
	}
	if b.S == "0" {
		return a
	}
	return mk(SInt, "+", a, b)
}
func Sub(a, b Term) Term {
	if isNumeral(a.S) && isNumeral(b.S) && len(a.S) < 15 && len(b.S) < 15 {
		var x, y int64
		fmt.Sscan(a.S, &x)
		fmt.Sscan(b.S, &y)
		return IntLit(x - y)
	}
	if b.S == "0" {
		return a
	}
	return mk(SInt, "-", a, b)
}
func Mul(a, b Term) Term { return mk(SInt, "*", a, b) }
func Le(a, b Term) Term  { return mk(SBool, "<=", a, b) }
func Lt(a, b Term) Term  { return mk(SBool, "<", a, b) }
func Ge(a, b Term) Term  { return mk(SBool, ">=", a, b) }
func Gt(a, b Term) Term  { return mk(SBool, ">", a, b) }

// Slice datatype accessors
func sliceProj(s Term, i int, acc string, sort Sort) Term {
	if a := ctorArgs(s, "mk-slice"); len(a) == 4 {
		return Term{a[i], sort}
	}
	return mk(sort, acc, s)
}
func SArr(s Term) Term { return sliceProj(s, 0, "s-arr", SRef) }
func SOff(s Term) Term { return sliceProj(s, 1, "s-off", SInt) }
func SLen(s Term) Term { return sliceProj(s, 2, "s-len", SInt) }
func SCap(s Term) Term { return sliceProj(s, 3, "s-cap", SInt) }
func MkSlice(arr, off, ln, cp Term) Term {
	return mk(SSlice, "mk-slice", arr, off, ln, cp)
}

var nilSlice = Term{"(mk-slice null 0 0 0)", SSlice}

// Iface datatype accessors
func ITag(i Term) Term {
	if a := ctorArgs(i, "mk-iface"); len(a) == 2 {
		return Term{a[0], SInt}
	}
	return mk(SInt, "i-tag", i)
}
func IRef(i Term) Term {
	if a := ctorArgs(i, "mk-iface"); len(a) == 2 {
		return Term{a[1], SRef}
	}
	return mk(SRef, "i-ref", i)
}
func MkIface(tag, ref Term) Term {
	return mk(SIface, "mk-iface", tag, ref)
}

var nilIface = Term{"(mk-iface 0 null)", SIface}

// pow2 returns 2^n as a decimal string term.
func pow2(n uint) Term {
	return BigLit(new(big.Int).Lsh(big.NewInt(1), n))
}

// Decl is a declaration of an SMT constant or function.
type Decl struct {
	Name string
	Args []Sort
	Ret  Sort
}

func (d Decl) String() string {
	if len(d.Args) == 0 {
		return fmt.Sprintf("(declare-const %s %s)", d.Name, d.Ret)
	}
	var a []string
	for _, s := range d.Args {
		a = append(a, string(s))
	}
	return fmt.Sprintf("(declare-fun %s (%s) %s)", d.Name, strings.Join(a, " "), d.Ret)
}

// Script is the context in which obligations of one function are generated:
// an ordered list of declarations and named global axioms.
type Script struct {
	decls    []Decl
	declared map[string]bool
	prelude  []string // raw SMT-LIB commands (sort declarations, datatypes, theory functions + axioms)
	counter  int
}

func NewScript() *Script {
	return &Script{declared: map[string]bool{}}
}

func mangle(s string) string {
	var b strings.Builder
	for _, r := range s {
		switch {
		case r >= 'a' && r <= 'z', r >= 'A' && r <= 'Z', r >= '0' && r <= '9', r == '_', r == '.', r == '$', r == '@':
			b.WriteRune(r)
		case r == '*':
			b.WriteString("P.")
		case r == '[':
			b.WriteString("L.")
		case r == ']':
			b.WriteString(".J")
		case r == '/':
			b.WriteString("_")
		default:
			b.WriteString("_")
		}
	}
	return b.String()
}

// Fresh declares a fresh constant.
func (sc *Script) Fresh(hint string, sort Sort) Term {
	sc.counter++
	name := fmt.Sprintf("%s!%d", mangle(hint), sc.counter)
	sc.decls = append(sc.decls, Decl{Name: name, Ret: sort})
	sc.declared[name] = true
	return Term{name, sort}
}

// Const declares (once) a named constant.
func (sc *Script) Const(name string, sort Sort) Term {
	name = mangle(name)
	if !sc.declared[name] {
		sc.declared[name] = true
		sc.decls = append(sc.decls, Decl{Name: name, Ret: sort})
	}
	return Term{name, sort}
}

// Func declares (once) an uninterpreted function.
func (sc *Script) Func(name string, args []Sort, ret Sort) string {
	name = mangle(name)
	if !sc.declared[name] {
		sc.declared[name] = true
		sc.decls = append(sc.decls, Decl{Name: name, Args: args, Ret: ret})
	}
	return name
}

const smtHeader = `(set-option :produce-models true)
(set-logic ALL)
(declare-sort Ref 0)
(declare-sort Str 0)
(declare-sort Unit 0)
(declare-const null Ref)
(declare-datatypes ((Slice 0)) (((mk-slice (s-arr Ref) (s-off Int) (s-len Int) (s-cap Int)))))
(declare-datatypes ((Iface 0)) (((mk-iface (i-tag Int) (i-ref Ref)))))
`

// Render produces a full script: header, prelude, all declarations, the assumptions, and the negated goal.
func (sc *Script) Render(ndecls int, axioms []string, assumptions []Term, goal Term, getModel bool) string {
	var b strings.Builder
	b.WriteString(smtHeader)
	for _, p := range sc.prelude {
		b.WriteString(p)
		b.WriteByte('\n')
	}
	if ndecls > len(sc.decls) {
		ndecls = len(sc.decls)
	}
	for _, d := range sc.decls[:ndecls] {
		b.WriteString(d.String())
		b.WriteByte('\n')
	}
	for _, a := range axioms {
		b.WriteString("(assert ")
		b.WriteString(a)
		b.WriteString(")\n")
	}
	for _, a := range assumptions {
		if a.S == "true" {
			continue
		}
		b.WriteString("(assert ")
		b.WriteString(a.S)
		b.WriteString(")\n")
	}
	b.WriteString("(assert (not ")
	b.WriteString(goal.S)
	b.WriteString("))\n(check-sat)\n")
	if getModel {
		b.WriteString("(get-model)\n")
	}
	return b.String()
}

func sortedKeys[V any](m map[string]V) []string {
	ks := make([]string, 0, len(m))
	for k := range m {
		ks = append(ks, k)
	}
	sort.Strings(ks)
	return ks
}

// splitAnd returns the top-level conjuncts of "(and a b c)".
func splitAnd(t Term) []Term {
	s := t.S
	inner := s[5 : len(s)-1]
	var out []Term
	depth := 0
	start := 0
	for i := 0; i < len(inner); i++ {
		switch inner[i] {
		case '(':
			depth++
		case ')':
			depth--
		case ' ':
			if depth == 0 {
				if i > start {
					out = append(out, Term{inner[start:i], SBool})
				}
				start = i + 1
			}
		}
	}
	if start < len(inner) {
		out = append(out, Term{inner[start:], SBool})
	}
	return out
}
