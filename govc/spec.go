package main

import (
	"fmt"
	"math/big"
	"os"
	"strings"
)

// ---------------------------------------------------------------- lexer

type tokKind int

const (
	tEOF tokKind = iota
	tIdent
	tNum
	tStr
	tChar
	tPunct
)

type stok struct {
	kind tokKind
	s    string
	pos  int
}

func lexSpec(src string) ([]stok, error) {
	var toks []stok
	i := 0
	puncts := []string{"<==>", "==>", "::", ":=", "&&", "||", "==", "!=", "<=", ">=", "<<", ">>", "&^",
		"(", ")", "[", "]", "{", "}", ",", ".", ":", ";", "+", "-", "*", "/", "%", "!", "<", ">", "?", "=", "&", "|", "^", "#"}
	for i < len(src) {
		c := src[i]
		switch {
		case c == ' ' || c == '\t' || c == '\n' || c == '\r':
			i++
		case c == '/' && i+1 < len(src) && src[i+1] == '/':
			// comment to end of line
			for i < len(src) && src[i] != '\n' {
				i++
			}
		case isIdentStart(c):
			j := i
			for j < len(src) && isIdentPart(src[j]) {
				j++
			}
			toks = append(toks, stok{tIdent, src[i:j], i})
			i = j
		case c >= '0' && c <= '9':
			j := i
			if c == '0' && j+1 < len(src) && (src[j+1] == 'x' || src[j+1] == 'X') {
				j += 2
				for j < len(src) && (isHex(src[j]) || src[j] == '_') {
					j++
				}
			} else {
				for j < len(src) && (src[j] >= '0' && src[j] <= '9' || src[j] == '_') {
					j++
				}
			}
			toks = append(toks, stok{tNum, strings.ReplaceAll(src[i:j], "_", ""), i})
			i = j
		case c == '"':
			j := i + 1
			var b strings.Builder
			for j < len(src) && src[j] != '"' {
				if src[j] == '\\' && j+1 < len(src) {
					j++
					switch src[j] {
					case 'n':
						b.WriteByte('\n')
					case 't':
						b.WriteByte('\t')
					case 'r':
						b.WriteByte('\r')
					case '0':
						b.WriteByte(0)
					default:
						b.WriteByte(src[j])
					}
				} else {
					b.WriteByte(src[j])
				}
				j++
			}
			if j >= len(src) {
				return nil, fmt.Errorf("unterminated string at %d", i)
			}
			toks = append(toks, stok{tStr, b.String(), i})
			i = j + 1
		case c == '`':
			j := i + 1
			for j < len(src) && src[j] != '`' {
				j++
			}
			if j >= len(src) {
				return nil, fmt.Errorf("unterminated raw string at %d", i)
			}
			toks = append(toks, stok{tStr, src[i+1 : j], i})
			i = j + 1
		case c == '\'':
			j := i + 1
			var val byte
			if j < len(src) && src[j] == '\\' && j+1 < len(src) {
				switch src[j+1] {
				case 'n':
					val = '\n'
				case 't':
					val = '\t'
				case 'r':
					val = '\r'
				case '0':
					val = 0
				default:
					val = src[j+1]
				}
				j += 2
			} else if j < len(src) {
				val = src[j]
				j++
			}
			if j >= len(src) || src[j] != '\'' {
				return nil, fmt.Errorf("bad char literal at %d", i)
			}
			toks = append(toks, stok{tChar, fmt.Sprint(int(val)), i})
			i = j + 1
		default:
			matched := false
			for _, p := range puncts {
				if strings.HasPrefix(src[i:], p) {
					toks = append(toks, stok{tPunct, p, i})
					i += len(p)
					matched = true
					break
				}
			}
			if !matched {
				return nil, fmt.Errorf("unexpected character %q at %d", c, i)
			}
		}
	}
	toks = append(toks, stok{tEOF, "", len(src)})
	return toks, nil
}

func isIdentStart(c byte) bool {
	return c >= 'a' && c <= 'z' || c >= 'A' && c <= 'Z' || c == '_' || c == '$'
}
func isIdentPart(c byte) bool { return isIdentStart(c) || c >= '0' && c <= '9' }
func isHex(c byte) bool {
	return c >= '0' && c <= '9' || c >= 'a' && c <= 'f' || c >= 'A' && c <= 'F'
}

// ---------------------------------------------------------------- AST

type Expr interface{}

type EIdent struct{ Name string }
type ENum struct{ Val *big.Int }
type EStr struct{ Val string }
type EBool struct{ Val bool }
type ENil struct{}
type EUn struct {
	Op string
	X  Expr
}
type EBin struct {
	Op   string
	L, R Expr
}
type Binder struct {
	Name string
	Type string
	Of   Expr // for "j idx(s)": j ranges over the valid indices of slice s
}
type EQuant struct {
	Forall   bool
	Vars     []Binder
	Body     Expr
	Triggers [][]Expr
}
type ECall struct {
	Fn   string
	Args []Expr
}
type ESel struct {
	X     Expr
	Field string
}
type EIdx struct{ X, I Expr }
type EUpd struct{ X, I, V Expr }
type EOld struct{ X Expr }
type ECond struct{ C, A, B Expr }
type ETypeAssert struct {
	X    Expr
	Type string
}

// ---------------------------------------------------------------- parser

type sparser struct {
	toks []stok
	p    int
	src  string
}

func (p *sparser) peek() stok { return p.toks[p.p] }
func (p *sparser) next() stok { t := p.toks[p.p]; p.p++; return t }
func (p *sparser) isP(s string) bool {
	t := p.peek()
	return t.kind == tPunct && t.s == s
}
func (p *sparser) isIdent(s string) bool {
	t := p.peek()
	return t.kind == tIdent && t.s == s
}
func (p *sparser) accept(s string) bool {
	if p.isP(s) {
		p.p++
		return true
	}
	return false
}
func (p *sparser) expect(s string) {
	if !p.accept(s) {
		p.fail("expected %q, got %q", s, p.peek().s)
	}
}

type specError struct{ msg string }

func (p *sparser) fail(f string, a ...interface{}) {
	pos := p.peek().pos
	ctx := p.src
	if pos < len(ctx) {
		lo := pos - 30
		if lo < 0 {
			lo = 0
		}
		hi := pos + 30
		if hi > len(ctx) {
			hi = len(ctx)
		}
		ctx = ctx[lo:pos] + " <<HERE>> " + ctx[pos:hi]
	}
	panic(specError{fmt.Sprintf(f, a...) + " near: " + ctx})
}

func ParseExpr(src string) (e Expr, err error) {
	toks, err := lexSpec(src)
	if err != nil {
		return nil, err
	}
	p := &sparser{toks: toks, src: src}
	defer func() {
		if r := recover(); r != nil {
			if se, ok := r.(specError); ok {
				err = fmt.Errorf("%s", se.msg)
				return
			}
			panic(r)
		}
	}()
	e = p.parseExpr()
	if p.peek().kind != tEOF {
		p.fail("trailing tokens")
	}
	return e, nil
}

func (p *sparser) parseExpr() Expr {
	if p.isIdent("forall") || p.isIdent("exists") {
		return p.parseQuant()
	}
	return p.parseCond()
}

func (p *sparser) parseQuant() Expr {
	fa := p.next().s == "forall"
	var vars []Binder
	for {
		// names sharing one type: x, y T
		var names []string
		names = append(names, p.expectIdent())
		for p.isP(",") {
			// lookahead: "x, y T" vs "x T, y U" — a comma directly after a name means another name
			p.next()
			names = append(names, p.expectIdent())
		}
		if p.isIdent("idx") && p.toks[p.p+1].kind == tPunct && p.toks[p.p+1].s == "(" {
			p.next()
			p.next()
			of := p.parseExpr()
			p.expect(")")
			for _, n := range names {
				vars = append(vars, Binder{Name: n, Type: "$idx", Of: of})
			}
		} else {
			typ := p.parseType()
			for _, n := range names {
				vars = append(vars, Binder{Name: n, Type: typ})
			}
		}
		if p.accept(";") || p.accept(",") {
			continue
		}
		break
	}
	p.expect("::")
	var trigs [][]Expr
	for p.isP("{") {
		p.next()
		var tr []Expr
		for {
			tr = append(tr, p.parseCond())
			if !p.accept(",") {
				break
			}
		}
		p.expect("}")
		trigs = append(trigs, tr)
	}
	body := p.parseExpr()
	return &EQuant{Forall: fa, Vars: vars, Body: body, Triggers: trigs}
}

func (p *sparser) expectIdent() string {
	t := p.next()
	if t.kind != tIdent {
		p.p--
		p.fail("expected identifier, got %q", t.s)
	}
	return t.s
}

// parseType parses a Go-like type and returns its canonical text.
func (p *sparser) parseType() string {
	var b strings.Builder
	for p.isP("*") {
		p.next()
		b.WriteString("*")
	}
	if p.isP("[") {
		p.next()
		p.expect("]")
		b.WriteString("[]")
		b.WriteString(p.parseType())
		return b.String()
	}
	if p.isIdent("map") {
		p.next()
		p.expect("[")
		k := p.parseType()
		p.expect("]")
		v := p.parseType()
		b.WriteString("map[" + k + "]" + v)
		return b.String()
	}
	b.WriteString(p.expectIdent())
	for p.isP(".") || p.isP("/") {
		b.WriteString(p.next().s)
		b.WriteString(p.expectIdent())
	}
	return b.String()
}

func (p *sparser) parseCond() Expr {
	c := p.parseIff()
	if p.accept("?") {
		a := p.parseExpr()
		p.expect(":")
		b := p.parseExpr()
		return &ECond{c, a, b}
	}
	return c
}

func (p *sparser) parseIff() Expr {
	l := p.parseImp()
	for p.isP("<==>") {
		p.next()
		r := p.parseImp()
		l = &EBin{"<==>", l, r}
	}
	return l
}

func (p *sparser) parseImp() Expr {
	l := p.parseOr()
	if p.isP("==>") {
		p.next()
		var r Expr
		if p.isIdent("forall") || p.isIdent("exists") {
			r = p.parseQuant()
		} else {
			r = p.parseImp()
		}
		return &EBin{"==>", l, r}
	}
	return l
}

func (p *sparser) parseOr() Expr {
	l := p.parseAnd()
	for p.isP("||") {
		p.next()
		var r Expr
		if p.isIdent("forall") || p.isIdent("exists") {
			r = p.parseQuant()
		} else {
			r = p.parseAnd()
		}
		l = &EBin{"||", l, r}
	}
	return l
}

func (p *sparser) parseAnd() Expr {
	l := p.parseCmp()
	for p.isP("&&") {
		p.next()
		var r Expr
		if p.isIdent("forall") || p.isIdent("exists") {
			r = p.parseQuant()
		} else {
			r = p.parseCmp()
		}
		l = &EBin{"&&", l, r}
	}
	return l
}

func (p *sparser) parseCmp() Expr {
	l := p.parseAddit()
	for {
		t := p.peek()
		if t.kind == tPunct && (t.s == "==" || t.s == "!=" || t.s == "<" || t.s == "<=" || t.s == ">" || t.s == ">=") {
			p.next()
			r := p.parseAddit()
			l = &EBin{t.s, l, r}
			continue
		}
		if t.kind == tIdent && t.s == "in" {
			p.next()
			r := p.parseAddit()
			l = &EBin{"in", l, r}
			continue
		}
		return l
	}
}

func (p *sparser) parseAddit() Expr {
	l := p.parseMul()
	for {
		t := p.peek()
		if t.kind == tPunct && (t.s == "+" || t.s == "-" || t.s == "|" || t.s == "^") {
			p.next()
			r := p.parseMul()
			l = &EBin{t.s, l, r}
			continue
		}
		return l
	}
}

func (p *sparser) parseMul() Expr {
	l := p.parseUnary()
	for {
		t := p.peek()
		if t.kind == tPunct && (t.s == "*" || t.s == "/" || t.s == "%" || t.s == "&" || t.s == "&^" || t.s == "<<" || t.s == ">>") {
			p.next()
			r := p.parseUnary()
			l = &EBin{t.s, l, r}
			continue
		}
		return l
	}
}

func (p *sparser) parseUnary() Expr {
	if p.isP("!") {
		p.next()
		return &EUn{"!", p.parseUnary()}
	}
	if p.isP("-") {
		p.next()
		return &EUn{"-", p.parseUnary()}
	}
	return p.parsePostfix()
}

func (p *sparser) parsePostfix() Expr {
	e := p.parsePrimary()
	for {
		switch {
		case p.isP("."):
			p.next()
			if p.isP("(") {
				p.next()
				ty := p.parseType()
				p.expect(")")
				e = &ETypeAssert{e, ty}
			} else {
				e = &ESel{e, p.expectIdent()}
			}
		case p.isP("["):
			p.next()
			if p.isP("*") {
				p.next()
				p.expect("]")
				e = &EIdx{e, &EIdent{"*"}}
				continue
			}
			i := p.parseExpr()
			if p.accept(":=") {
				v := p.parseExpr()
				p.expect("]")
				e = &EUpd{e, i, v}
				continue
			}
			p.expect("]")
			e = &EIdx{e, i}
		default:
			return e
		}
	}
}

func (p *sparser) parsePrimary() Expr {
	t := p.next()
	switch t.kind {
	case tNum:
		n := new(big.Int)
		if _, ok := n.SetString(t.s, 0); !ok {
			p.fail("bad number %q", t.s)
		}
		return &ENum{n}
	case tChar:
		n := new(big.Int)
		n.SetString(t.s, 10)
		return &ENum{n}
	case tStr:
		return &EStr{t.s}
	case tIdent:
		switch t.s {
		case "true":
			return &EBool{true}
		case "false":
			return &EBool{false}
		case "nil":
			return &ENil{}
		case "old":
			p.expect("(")
			e := p.parseExpr()
			p.expect(")")
			return &EOld{e}
		case "forall", "exists":
			p.p--
			return p.parseQuant()
		}
		if p.isP("(") {
			p.next()
			var args []Expr
			if !p.isP(")") {
				for {
					args = append(args, p.parseExpr())
					if !p.accept(",") {
						break
					}
				}
			}
			p.expect(")")
			return &ECall{t.s, args}
		}
		return &EIdent{t.s}
	case tPunct:
		if t.s == "(" {
			e := p.parseExpr()
			p.expect(")")
			return e
		}
	}
	p.p--
	p.fail("unexpected token %q", t.s)
	return nil
}

// ---------------------------------------------------------------- contract files

type Clause struct {
	Tags []string
	Name string
	E    Expr
	Src  string
	File string
	Line int
}

// ModSpec is one entry of a modifies clause: either "heap NAME [at e1, e2]" or an lvalue p.f.g / p.f[*].
type ModSpec struct {
	Heap string
	At   []Expr // nil: whole heap
	LV   Expr   // lvalue form
	Src  string
}

type LoopSpec struct {
	Ordinal   int
	Invs      []Clause
	Decreases *Clause
}

type FuncSpec struct {
	Kind     string // func | trusted | interface | functype
	Key      string // resolved full name
	Pkg      string // package path of the file it was declared in
	Params   []string
	Results  []string
	Requires []Clause
	Assumes  []Clause // assumed at entry of the verified function, never checked at call sites: listed as unchecked assumptions
	Ensures  []Clause
	Unfolds  []Clause // assumed at function entry and in callers after the call (definitions of spec functions)
	Modifies []ModSpec
	ModAll   bool // modifies *
	Loops    map[int]*LoopSpec
	Inherits string
	BV       bool
	Inline   bool
	NoPanic  bool   // trusted: never panics (default); otherwise "maypanic"
	Raises   string // "", "always", "may"
	File     string
	Line     int
	Fresh    bool // trusted: result is a freshly allocated object
	Tags     []string
	Asserts  []AssertSpec
}

// AssertSpec is a proof hint attached to a program point: "assert after Callee#k: expr" / "assert before Callee#k: expr".
// The expression is proved at that point (an obligation like any other) and then available to what follows.
type AssertSpec struct {
	After  bool
	Callee string
	Nth    int
	C      Clause
}

type PureDecl struct {
	Name   string
	Params []Binder
	Ret    string
	Def    Expr   // macro definition (may be nil)
	SMT    string // raw smt body using parameter names (may be empty)
	Reads  []string
	File   string
	Line   int
}

type AxiomDecl struct {
	Name string
	E    Expr
	Src  string
	File string
}

type GhostField struct {
	Type  string // Go type name as written, e.g. list.List
	Field string
	Sort  string
	Pkg   string
}

type SortDecl struct{ Name, SMT string }

// FieldInv is a type invariant of one field: assumed whenever the field is loaded, proved whenever it is stored.
type FieldInv struct {
	Heap string // as written (T.f)
	Pkg  string
	C    Clause
}

type GuardDecl struct {
	Type   string
	Fields []string
	Mutex  string
	Mode   string // exclusive | shared
	Pkg    string
	Tags   []string
}

type SpecSet struct {
	Funcs     map[string]*FuncSpec
	Pures     map[string]*PureDecl
	Axioms    []*AxiomDecl
	Ghosts    []*GhostField
	Sorts     map[string]string
	Guards    []*GuardDecl
	RawSMT    []string
	FieldInvs []*FieldInv
	GhostVars map[string]string // name -> sort
	Order     []string          // function keys in declaration order
	Lemmas    []*AxiomDecl
	Frames    []*FrameDecl
}

// FrameDecl (`//@ frame P lo hi`): P is a recursive predicate with two set parameters lo and hi whose defining axioms
// only inspect objects they assert to be in hi and not in lo (its footprint window). For such a predicate the frame
// rule holds by induction on its derivation: if P holds for a window and a state, it holds for every window that
// contains the first one and every state that agrees with the first one on all objects of the first window.
// The rule is generated as an axiom (trusted meta-theorem; the condition on the defining axioms is the author's duty).
type FrameDecl struct {
	Name string
	Pkg  string
	File string
}

func NewSpecSet() *SpecSet {
	return &SpecSet{Funcs: map[string]*FuncSpec{}, Pures: map[string]*PureDecl{}, Sorts: map[string]string{}, GhostVars: map[string]string{}}
}

var clauseKeywords = map[string]bool{
	"sort": true, "ghost": true, "pure": true, "pred": true, "axiom": true, "func": true, "trusted": true,
	"interface": true, "functype": true, "requires": true, "ensures": true, "modifies": true, "loop": true,
	"invariant": true, "decreases": true, "unfold": true, "inherits": true, "bv": true, "inline": true,
	"smt": true, "guarded": true, "assumes": true, "assert": true, "fieldinv": true, "raises": true, "maypanic": true, "lemma": true, "fresh": true, "frame": true, "end": true,
}

// LoadSpecFile reads //@ lines from a file. pkgPath is the package the file belongs to ("" for trusted specs).
func (ss *SpecSet) LoadSpecFile(path, pkgPath string) error {
	data, err := os.ReadFile(path)
	if err != nil {
		return err
	}
	type rawClause struct {
		kw   string
		text string
		line int
	}
	var clauses []rawClause
	for i, line := range strings.Split(string(data), "\n") {
		t := strings.TrimSpace(line)
		if !strings.HasPrefix(t, "//@") {
			continue
		}
		t = strings.TrimSpace(t[3:])
		if t == "" {
			continue
		}
		if strings.HasPrefix(t, "//") { // commented-out spec line
			continue
		}
		// strip trailing comment
		if k := indexOutsideString(t, "//"); k >= 0 {
			t = strings.TrimSpace(t[:k])
		}
		first := t
		if k := strings.IndexAny(t, " \t"); k >= 0 {
			first = t[:k]
		}
		if clauseKeywords[first] {
			clauses = append(clauses, rawClause{first, strings.TrimSpace(t[len(first):]), i + 1})
		} else {
			if len(clauses) == 0 {
				return fmt.Errorf("%s:%d: continuation line without clause", path, i+1)
			}
			clauses[len(clauses)-1].text += " " + t
		}
	}
	var cur *FuncSpec
	var curLoop *LoopSpec
	fail := func(line int, f string, a ...interface{}) error {
		return fmt.Errorf("%s:%d: %s", path, line, fmt.Sprintf(f, a...))
	}
	parseClause := func(text string, line int) (Clause, error) {
		c := Clause{Src: text, File: path, Line: line}
		t := strings.TrimSpace(text)
		if strings.HasPrefix(t, "[") {
			k := strings.Index(t, "]")
			if k < 0 {
				return c, fail(line, "unterminated tag list")
			}
			for _, tg := range strings.Split(t[1:k], ",") {
				c.Tags = append(c.Tags, strings.TrimSpace(tg))
			}
			t = strings.TrimSpace(t[k+1:])
		}
		// optional name:
		if k := strings.Index(t, ":"); k > 0 && (k+1 >= len(t) || t[k+1] != ':' && t[k+1] != '=') && isSimpleName(t[:k]) {
			c.Name = strings.TrimSpace(t[:k])
			t = strings.TrimSpace(t[k+1:])
		}
		e, err := ParseExpr(t)
		if err != nil {
			return c, fail(line, "%v", err)
		}
		c.E = e
		c.Src = t
		return c, nil
	}
	for _, rc := range clauses {
		switch rc.kw {
		case "sort":
			parts := strings.SplitN(rc.text, " ", 2)
			if len(parts) != 2 {
				return fail(rc.line, "sort NAME SMT")
			}
			ss.Sorts[parts[0]] = strings.TrimSpace(parts[1])
		case "smt":
			ss.RawSMT = append(ss.RawSMT, rc.text)
		case "fieldinv":
			k := strings.Index(rc.text, ":")
			if k < 0 {
				return fail(rc.line, "fieldinv T.f: expr")
			}
			c, err := parseClause(rc.text[k+1:], rc.line)
			if err != nil {
				return err
			}
			ss.FieldInvs = append(ss.FieldInvs, &FieldInv{Heap: strings.TrimSpace(rc.text[:k]), Pkg: pkgPath, C: c})
		case "ghost":
			// ghost field T.f sort
			f := strings.Fields(rc.text)
			if len(f) >= 3 && f[0] == "var" {
				ss.GhostVars[f[1]] = strings.Join(f[2:], " ")
				continue
			}
			if len(f) < 3 || f[0] != "field" {
				return fail(rc.line, "ghost field T.f sort")
			}
			k := strings.LastIndex(f[1], ".")
			if k < 0 {
				return fail(rc.line, "ghost field T.f sort")
			}
			ss.Ghosts = append(ss.Ghosts, &GhostField{Type: f[1][:k], Field: f[1][k+1:], Sort: strings.Join(f[2:], " "), Pkg: pkgPath})
		case "guarded":
			// guarded [tags] T.f1,f2 by mtx exclusive|shared
			t := rc.text
			g := &GuardDecl{Pkg: pkgPath}
			if strings.HasPrefix(t, "[") {
				k := strings.Index(t, "]")
				for _, tg := range strings.Split(t[1:k], ",") {
					g.Tags = append(g.Tags, strings.TrimSpace(tg))
				}
				t = strings.TrimSpace(t[k+1:])
			}
			f := strings.Fields(t)
			if len(f) != 4 || f[1] != "by" {
				return fail(rc.line, "guarded T.f1,f2 by mtx exclusive|shared")
			}
			k := strings.Index(f[0], ".")
			g.Type = f[0][:k]
			g.Fields = strings.Split(f[0][k+1:], ",")
			g.Mutex = f[2]
			g.Mode = f[3]
			ss.Guards = append(ss.Guards, g)
		case "pure", "pred":
			pd, err := parsePureDecl(rc.text, rc.kw == "pred")
			if err != nil {
				return fail(rc.line, "%v", err)
			}
			pd.File = path
			pd.Line = rc.line
			if _, dup := ss.Pures[pd.Name]; dup {
				return fail(rc.line, "duplicate pure %s", pd.Name)
			}
			ss.Pures[pd.Name] = pd
		case "frame":
			ss.Frames = append(ss.Frames, &FrameDecl{Name: strings.TrimSpace(rc.text), Pkg: pkgPath, File: path})
		case "axiom", "lemma":
			k := strings.Index(rc.text, ":")
			if k < 0 {
				return fail(rc.line, "axiom name: expr")
			}
			e, err := ParseExpr(rc.text[k+1:])
			if err != nil {
				return fail(rc.line, "%v", err)
			}
			ad := &AxiomDecl{Name: strings.TrimSpace(rc.text[:k]), E: e, Src: strings.TrimSpace(rc.text[k+1:]), File: path}
			if rc.kw == "axiom" {
				ss.Axioms = append(ss.Axioms, ad)
			} else {
				ss.Lemmas = append(ss.Lemmas, ad)
			}
		case "func", "trusted", "interface", "functype":
			if rc.kw == "trusted" && strings.HasPrefix(rc.text, "func ") {
				rc.text = strings.TrimSpace(rc.text[5:])
			}
			fs, err := parseFuncHeader(rc.kw, rc.text, pkgPath)
			if err != nil {
				return fail(rc.line, "%v", err)
			}
			fs.File = path
			fs.Line = rc.line
			if _, dup := ss.Funcs[fs.Key]; dup {
				return fail(rc.line, "duplicate contract for %s", fs.Key)
			}
			ss.Funcs[fs.Key] = fs
			ss.Order = append(ss.Order, fs.Key)
			cur = fs
			curLoop = nil
		case "end":
			cur = nil
			curLoop = nil
		default:
			if cur == nil {
				return fail(rc.line, "clause %q outside a function contract", rc.kw)
			}
			switch rc.kw {
			case "requires", "ensures", "unfold", "invariant", "assumes":
				c, err := parseClause(rc.text, rc.line)
				if err != nil {
					return err
				}
				switch rc.kw {
				case "requires":
					cur.Requires = append(cur.Requires, c)
				case "assumes":
					cur.Assumes = append(cur.Assumes, c)
				case "ensures":
					cur.Ensures = append(cur.Ensures, c)
				case "unfold":
					cur.Unfolds = append(cur.Unfolds, c)
				case "invariant":
					if curLoop == nil {
						return fail(rc.line, "invariant outside loop")
					}
					curLoop.Invs = append(curLoop.Invs, c)
				}
			case "assert":
				t := strings.TrimSpace(rc.text)
				as := AssertSpec{Nth: 1}
				switch {
				case strings.HasPrefix(t, "after "):
					as.After = true
					t = t[6:]
				case strings.HasPrefix(t, "before "):
					t = t[7:]
				default:
					return fail(rc.line, "assert after|before Callee[#k]: expr")
				}
				k := strings.Index(t, ":")
				if k < 0 {
					return fail(rc.line, "assert after|before Callee[#k]: expr")
				}
				as.Callee = strings.TrimSpace(t[:k])
				if h := strings.Index(as.Callee, "#"); h >= 0 {
					fmt.Sscanf(as.Callee[h+1:], "%d", &as.Nth)
					as.Callee = as.Callee[:h]
				}
				c, err := parseClause(t[k+1:], rc.line)
				if err != nil {
					return err
				}
				as.C = c
				cur.Asserts = append(cur.Asserts, as)
			case "decreases":
				if curLoop == nil {
					return fail(rc.line, "decreases outside loop")
				}
				c, err := parseClause(rc.text, rc.line)
				if err != nil {
					return err
				}
				curLoop.Decreases = &c
			case "loop":
				var n int
				if _, err := fmt.Sscanf(strings.TrimSuffix(strings.TrimSpace(rc.text), ":"), "%d", &n); err != nil {
					return fail(rc.line, "loop N")
				}
				curLoop = &LoopSpec{Ordinal: n}
				cur.Loops[n] = curLoop
			case "modifies":
				for _, part := range splitTop(rc.text, ';') {
					part = strings.TrimSpace(part)
					if part == "" {
						continue
					}
					if part == "*" {
						cur.ModAll = true
						continue
					}
					ms := ModSpec{Src: part}
					if !strings.HasPrefix(part, "heap ") {
						e, err := ParseExpr(part)
						if err != nil {
							return fail(rc.line, "%v", err)
						}
						ms.LV = e
						cur.Modifies = append(cur.Modifies, ms)
						continue
					}
					part = strings.TrimSpace(part[5:])
					if k := strings.Index(part, " at "); k >= 0 {
						ms.Heap = strings.TrimSpace(part[:k])
						for _, a := range splitTop(part[k+4:], ',') {
							e, err := ParseExpr(a)
							if err != nil {
								return fail(rc.line, "%v", err)
							}
							ms.At = append(ms.At, e)
						}
					} else {
						ms.Heap = part
					}
					cur.Modifies = append(cur.Modifies, ms)
				}
			case "inherits":
				cur.Inherits = resolveFuncKey(strings.TrimSpace(rc.text), pkgPath)
			case "bv":
				cur.BV = true
			case "inline":
				cur.Inline = true
			case "maypanic":
				cur.NoPanic = false
			case "fresh":
				cur.Fresh = true
			case "raises":
				cur.Raises = strings.TrimSpace(rc.text)
			}
		}
	}
	return nil
}

func isSimpleName(s string) bool {
	s = strings.TrimSpace(s)
	if s == "" {
		return false
	}
	for i := 0; i < len(s); i++ {
		c := s[i]
		if !(isIdentPart(c) || c == '.' || c == '#' || c == '-') {
			return false
		}
	}
	return true
}

func indexOutsideString(s, sub string) int {
	in := byte(0)
	for i := 0; i < len(s); i++ {
		c := s[i]
		if in != 0 {
			if c == '\\' && in != '`' {
				i++
				continue
			}
			if c == in {
				in = 0
			}
			continue
		}
		if c == '"' || c == '`' || c == '\'' {
			in = c
			continue
		}
		if strings.HasPrefix(s[i:], sub) {
			return i
		}
	}
	return -1
}

func splitTop(s string, sep byte) []string {
	var out []string
	depth := 0
	last := 0
	for i := 0; i < len(s); i++ {
		switch s[i] {
		case '(', '[', '{':
			depth++
		case ')', ']', '}':
			depth--
		default:
			if s[i] == sep && depth == 0 {
				out = append(out, s[last:i])
				last = i + 1
			}
		}
	}
	out = append(out, s[last:])
	return out
}

// parsePureDecl parses: name(x T, y U) R [reads h1, h2] [:= expr | = smt "..."]
func parsePureDecl(text string, isPred bool) (*PureDecl, error) {
	pd := &PureDecl{}
	def := ""
	if k := strings.Index(text, ":="); k >= 0 {
		def = strings.TrimSpace(text[k+2:])
		text = strings.TrimSpace(text[:k])
	}
	k := strings.Index(text, "(")
	if k < 0 {
		return nil, fmt.Errorf("pure name(params) type")
	}
	pd.Name = strings.TrimSpace(text[:k])
	// find matching paren
	depth := 0
	end := -1
	for i := k; i < len(text); i++ {
		if text[i] == '(' {
			depth++
		} else if text[i] == ')' {
			depth--
			if depth == 0 {
				end = i
				break
			}
		}
	}
	if end < 0 {
		return nil, fmt.Errorf("unbalanced parens in pure decl")
	}
	params := text[k+1 : end]
	rest := strings.TrimSpace(text[end+1:])
	if strings.TrimSpace(params) != "" {
		toks, err := lexSpec(params)
		if err != nil {
			return nil, err
		}
		p := &sparser{toks: toks, src: params}
		var perr error
		func() {
			defer func() {
				if r := recover(); r != nil {
					if se, ok := r.(specError); ok {
						perr = fmt.Errorf("%s", se.msg)
						return
					}
					panic(r)
				}
			}()
			for {
				var names []string
				names = append(names, p.expectIdent())
				for p.accept(",") {
					names = append(names, p.expectIdent())
				}
				ty := p.parseType()
				for _, n := range names {
					pd.Params = append(pd.Params, Binder{Name: n, Type: ty})
				}
				if !p.accept(";") && !p.accept(",") {
					break
				}
			}
		}()
		if perr != nil {
			return nil, perr
		}
	}
	if r := strings.Index(rest, " reads "); r >= 0 || strings.HasPrefix(rest, "reads ") {
		var rs string
		if strings.HasPrefix(rest, "reads ") {
			rs = rest[6:]
			rest = ""
		} else {
			rs = rest[r+7:]
			rest = strings.TrimSpace(rest[:r])
		}
		for _, h := range strings.Split(rs, ",") {
			pd.Reads = append(pd.Reads, strings.TrimSpace(h))
		}
	}
	pd.Ret = rest
	if isPred {
		pd.Ret = "bool"
	}
	if pd.Ret == "" {
		return nil, fmt.Errorf("pure %s: missing result type", pd.Name)
	}
	if def != "" {
		if strings.HasPrefix(def, "smt ") {
			s := strings.TrimSpace(def[4:])
			s = strings.Trim(s, "\"`")
			pd.SMT = s
		} else {
			e, err := ParseExpr(def)
			if err != nil {
				return nil, err
			}
			pd.Def = e
		}
	}
	return pd, nil
}

// resolveFuncKey turns "(*T).M", "T.M"?, "F", "pkg/path.(*T).M" into the ssa full name.
func resolveFuncKey(name, pkgPath string) string {
	name = strings.TrimSpace(name)
	if strings.Contains(name, "/") || pkgPath == "" {
		// full name given; normalise "(*pkg.T).M" to "(*pkg.T).M" as is
		return name
	}
	if strings.HasPrefix(name, "(*") {
		// (*T).M -> (*pkg.T).M ; (*other.T).M with a dot inside parens is taken as full
		k := strings.Index(name, ")")
		inner := name[2:k]
		if strings.Contains(inner, ".") {
			return name
		}
		return "(*" + pkgPath + "." + inner + ")" + name[k+1:]
	}
	if strings.HasPrefix(name, "(") {
		k := strings.Index(name, ")")
		inner := name[1:k]
		if strings.Contains(inner, ".") {
			return name
		}
		return "(" + pkgPath + "." + inner + ")" + name[k+1:]
	}
	if k := strings.Index(name, "."); k >= 0 {
		// Type.Method for interfaces / or pkg.Func: treat "Iface.Method" in the same package
		first := name[:k]
		if first != "" && first[0] >= 'A' && first[0] <= 'Z' || isLowerType(first) {
			return "(" + pkgPath + "." + first + ")." + name[k+1:]
		}
		return name
	}
	return pkgPath + "." + name
}

func isLowerType(s string) bool {
	// heuristic: lower-case type names used with '.' in contract headers, e.g. colGetter.GetCol
	return s == "colGetter" || s == "indexWriter" || s == "stateFn"
}

// parseFuncHeader parses: NAME(p1, p2) (r1, r2) [inherits X]
func parseFuncHeader(kind, text, pkgPath string) (*FuncSpec, error) {
	fs := &FuncSpec{Kind: kind, Pkg: pkgPath, Loops: map[int]*LoopSpec{}, NoPanic: true}
	text = strings.TrimSpace(text)
	if strings.HasPrefix(text, "[") {
		k := strings.Index(text, "]")
		for _, tg := range strings.Split(text[1:k], ",") {
			fs.Tags = append(fs.Tags, strings.TrimSpace(tg))
		}
		text = strings.TrimSpace(text[k+1:])
	}
	if k := strings.Index(text, " inherits "); k >= 0 {
		fs.Inherits = resolveFuncKey(strings.TrimSpace(text[k+10:]), pkgPath)
		text = strings.TrimSpace(text[:k])
	}
	// the name may start with a parenthesised receiver
	i := 0
	if strings.HasPrefix(text, "(") {
		i = strings.Index(text, ")") + 1
	}
	k := strings.Index(text[i:], "(")
	name := text
	rest := ""
	if k >= 0 {
		name = text[:i+k]
		rest = text[i+k:]
	}
	fs.Key = resolveFuncKey(name, pkgPath)
	if rest != "" {
		end := strings.Index(rest, ")")
		if end < 0 {
			return nil, fmt.Errorf("bad func header")
		}
		for _, p := range strings.Split(rest[1:end], ",") {
			p = strings.TrimSpace(p)
			if p != "" {
				fs.Params = append(fs.Params, p)
			}
		}
		rest = strings.TrimSpace(rest[end+1:])
		if strings.HasPrefix(rest, "(") {
			end := strings.Index(rest, ")")
			for _, p := range strings.Split(rest[1:end], ",") {
				p = strings.TrimSpace(p)
				if p != "" {
					fs.Results = append(fs.Results, p)
				}
			}
		} else if rest != "" {
			fs.Results = append(fs.Results, rest)
		}
	}
	return fs, nil
}
