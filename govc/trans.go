package main

import (
	"fmt"
	"go/constant"
	"go/types"
	"math/big"
	"os"
	"strings"
)

// TV is a translated spec expression: a term (scalars), a location (struct-typed lvalue) or a struct value.
type TV struct {
	IdxOf string // for index binders: the slice term this variable indexes
	IdxK  Term   // ... and the absolute position variable
	T     Term
	Go    types.Type // may be nil for purely ghost values
	Loc   *PtrVal
	SV    *StructVal
	Nil   bool // the literal nil (sort decided by context)
	Num   *big.Int
}

type Env struct {
	vc   *FuncVC
	st   *State
	old  *State
	vars map[string]TV
	// names bound by reference (captured variables of a closure): their value is read from the state the expression
	// is evaluated in, so that old(name) is the value in the pre-state
	refs map[string]refVar
	pkg  *types.Package
	loop *loopInfo
	// bound variable guards collected while translating a quantifier body
	depth int
}

func (e *Env) with(name string, v TV) *Env {
	n := *e
	n.vars = make(map[string]TV, len(e.vars)+1)
	for k, x := range e.vars {
		n.vars[k] = x
	}
	n.vars[name] = v
	return &n
}

func (e *Env) clone() *Env {
	n := *e
	n.vars = make(map[string]TV, len(e.vars)+4)
	for k, x := range e.vars {
		n.vars[k] = x
	}
	return &n
}

type refVar struct {
	ptr Value
	t   types.Type
}

type trError struct{ msg string }

func trFail(f string, a ...interface{}) { panic(trError{fmt.Sprintf(f, a...)}) }

// specSort resolves a type name in a spec to (sort, go type).
func (vc *FuncVC) specSort(name string, pkg *types.Package) (Sort, types.Type) {
	switch name {
	case "int":
		return SInt, nil
	case "goint":
		// Go's int (mode dependent: Int, or 64-bit vector in bv mode) — spec "int" is the mathematical integer
		return vc.sortOf(types.Typ[types.Int]), types.Typ[types.Int]
	case "bool":
		return SBool, types.Typ[types.Bool]
	case "string":
		return SStr, types.Typ[types.String]
	case "ref":
		return SRef, nil
	case "iset":
		return SISet, nil
	case "rset":
		return SRSet, nil
	case "bv64":
		return SBV64, nil
	case "slice":
		return SSlice, nil
	case "iface":
		return SIface, nil
	}
	if s, ok := vc.w.specs.Sorts[name]; ok {
		return Sort(s), nil
	}
	if strings.HasPrefix(name, "(") {
		return Sort(name), nil // raw SMT sort
	}
	t := vc.w.LookupType(name, pkg)
	if t == nil {
		trFail("unknown type %q in spec", name)
	}
	s := vc.sortOf(t)
	if s == "" {
		trFail("type %q has no scalar sort", name)
	}
	return s, t
}

// sortOf maps a Go type to its SMT sort ("" for struct/array/tuple types which are flattened).
func (vc *FuncVC) sortOf(t types.Type) Sort {
	switch u := t.Underlying().(type) {
	case *types.Basic:
		switch {
		case u.Info()&types.IsBoolean != 0:
			return SBool
		case u.Info()&types.IsInteger != 0:
			if vc.bv {
				return SBV64
			}
			return SInt
		case u.Info()&types.IsString != 0:
			return SStr
		case u.Info()&types.IsFloat != 0:
			return "Real"
		case u.Kind() == types.UnsafePointer:
			return SRef
		case u.Kind() == types.UntypedNil:
			return SRef
		}
	case *types.Pointer, *types.Map, *types.Chan, *types.Signature:
		return SRef
	case *types.Slice:
		return SSlice
	case *types.Interface:
		return SIface
	case *types.Struct, *types.Array, *types.Tuple:
		return ""
	}
	return ""
}

// intRange returns the inclusive bounds of an integer type.
func intRange(t types.Type) (lo, hi *big.Int, ok bool) {
	b, isB := t.Underlying().(*types.Basic)
	if !isB || b.Info()&types.IsInteger == 0 {
		return nil, nil, false
	}
	var bits uint
	signed := b.Info()&types.IsUnsigned == 0
	switch b.Kind() {
	case types.Int8, types.Uint8:
		bits = 8
	case types.Int16, types.Uint16:
		bits = 16
	case types.Int32, types.Uint32:
		bits = 32
	case types.Int, types.Int64, types.Uint, types.Uint64, types.Uintptr, types.UntypedInt, types.UntypedRune:
		bits = 64
	default:
		bits = 64
	}
	one := big.NewInt(1)
	if signed {
		hi = new(big.Int).Sub(new(big.Int).Lsh(one, bits-1), one)
		lo = new(big.Int).Neg(new(big.Int).Lsh(one, bits-1))
	} else {
		lo = big.NewInt(0)
		hi = new(big.Int).Sub(new(big.Int).Lsh(one, bits), one)
	}
	return lo, hi, true
}

func (vc *FuncVC) rangeAssumption(t Term, gt types.Type) Term {
	if vc.bv || t.Sort != SInt || gt == nil {
		return tTrue
	}
	lo, hi, ok := intRange(gt)
	if !ok {
		return tTrue
	}
	return And(Le(BigLit(lo), t), Le(t, BigLit(hi)))
}

const maxLenBits = 56

// sliceWF is the well-formedness assumption for a slice value.
func sliceWF(s Term) Term {
	return And(Le(IntLit(0), SOff(s)), Le(IntLit(0), SLen(s)), Le(SLen(s), SCap(s)), Le(Add(SOff(s), SCap(s)), pow2(maxLenBits)),
		Implies(Eq(SArr(s), tNull), Eq(SCap(s), IntLit(0))))
}

func (e *Env) tr(x Expr) TV {
	switch x := x.(type) {
	case *ENum:
		return TV{T: BigLit(x.Val), Num: x.Val}
	case *EBool:
		if x.Val {
			return TV{T: tTrue, Go: types.Typ[types.Bool]}
		}
		return TV{T: tFalse, Go: types.Typ[types.Bool]}
	case *ENil:
		return TV{Nil: true, T: tNull}
	case *EStr:
		return TV{T: e.vc.strLit(x.Val), Go: types.Typ[types.String]}
	case *EIdent:
		return e.trIdent(x.Name)
	case *EOld:
		if e.old == nil {
			trFail("old() used where no pre-state exists")
		}
		n := *e
		n.st = e.old
		return n.tr(x.X)
	case *EUn:
		v := e.tr(x.X)
		switch x.Op {
		case "!":
			return TV{T: Not(e.asBool(v)), Go: types.Typ[types.Bool]}
		case "-":
			if v.T.Sort == SBV64 {
				return TV{T: mk(SBV64, "bvneg", v.T)}
			}
			return TV{T: mk(SInt, "-", v.T)}
		}
	case *EBin:
		return e.trBin(x)
	case *ECond:
		c := e.asBool(e.tr(x.C))
		a := e.tr(x.A)
		b := e.tr(x.B)
		a, b = e.unify(a, b)
		return TV{T: Ite(c, a.T, b.T), Go: a.Go}
	case *EQuant:
		return e.trQuant(x)
	case *ESel:
		return e.trSel(x)
	case *EIdx:
		return e.trIdx(x)
	case *EUpd:
		a := e.tr(x.X)
		i := e.tr(x.I)
		v := e.tr(x.V)
		if _, _, ok := arrayParts(a.T.Sort); !ok {
			trFail("functional update of a non-array value")
		}
		return TV{T: Store(a.T, i.T, v.T), Go: a.Go}
	case *ECall:
		return e.trCall(x)
	case *ETypeAssert:
		v := e.tr(x.X)
		if v.T.Sort != SIface {
			trFail("type assertion on non-interface")
		}
		t := e.vc.w.LookupType(x.Type, e.pkg)
		if t == nil {
			trFail("unknown type %s", x.Type)
		}
		if s := e.vc.sortOf(t); s == SRef {
			return TV{T: IRef(v.T), Go: t}
		}
		// boxed value
		return TV{T: Select(e.st.heap(e.vc, "box."+typeKey(t), ArraySort(SRef, e.vc.sortOf(t))), IRef(v.T)), Go: t}
	}
	trFail("unsupported spec expression %T", x)
	return TV{}
}

func (e *Env) asBool(v TV) Term {
	if v.T.Sort != SBool {
		trFail("expected bool, got %s (%s)", v.T.Sort, v.T.S)
	}
	return v.T
}

func (e *Env) trIdent(name string) TV {
	if rv, ok := e.refs[name]; ok && e.st != nil {
		save := e.st.pc
		val := e.vc.load(e.st, rv.ptr, rv.t)
		e.st.pc = save
		return e.valueTV(val, rv.t)
	}
	if v, ok := e.vars[name]; ok {
		if os.Getenv("GOVC_TRACE_IDENT") == name {
			lo := 0
			if e.loop != nil {
				lo = e.loop.ordinal
			}
			fmt.Fprintf(os.Stderr, "ident %s -> %s (loop %d, fn %s, depth %d)\n", name, v.T.S, lo, e.st.fr.fn.Name(), e.depth)
		}
		return v
	}
	switch name {
	case "$i":
		if e.loop == nil || e.loop.rangeIdx == nil {
			trFail("$i outside a range-over-slice loop")
		}
		v := e.st.fr.regs[e.loop.rangeIdx]
		t, ok := v.(Term)
		if !ok {
			trFail("$i: no value")
		}
		if t.Sort == SBV64 {
			return TV{T: mk(SBV64, "bvadd", t, BVLit(1))}
		}
		return TV{T: Add(t, IntLit(1))}
	case "$i1", "$i2", "$i3", "$i4", "$i5", "$i6":
		// the index of an enclosing range loop, by loop ordinal
		n := int(name[2] - '0')
		if e.st.fr == nil || e.st.fr.fn == nil {
			trFail("%s outside a function", name)
		}
		for _, li := range e.vc.loopsOf(e.st.fr.fn) {
			if li.ordinal == n && li.rangeIdx != nil {
				if t, ok := e.st.fr.regs[li.rangeIdx].(Term); ok {
					return TV{T: Add(t, IntLit(1))}
				}
			}
		}
		trFail("%s: no such range loop (or not entered)", name)
	case "$visited":
		if e.loop == nil || e.loop.iterKey == "" {
			trFail("$visited outside a range-over-map loop")
		}
		h, ok := e.st.heaps[e.loop.iterKey]
		if !ok {
			trFail("$visited: iterator not initialised")
		}
		return TV{T: h}
	case "$alloc":
		return TV{T: e.st.alloc}
	}
	if gs, ok := e.vc.w.specs.GhostVars[name]; ok {
		s, gt := e.vc.specSort(gs, e.pkg)
		return TV{T: e.st.heap(e.vc, "global.$ghost."+name, s), Go: gt}
	}
	// package-level constant or variable
	pkgs := []*types.Package{e.pkg}
	for _, p := range pkgs {
		if p == nil {
			continue
		}
		if o := p.Scope().Lookup(name); o != nil {
			switch o := o.(type) {
			case *types.Const:
				return e.constTV(o.Val(), o.Type())
			case *types.Var:
				s := e.vc.sortOf(o.Type())
				if s == "" {
					trFail("global %s has no scalar sort", name)
				}
				t := e.st.heap(e.vc, "global."+p.Path()+"."+name, s)
				e.vc.globalFact(t, o.Type())
				return TV{T: t, Go: o.Type()}
			}
		}
	}
	// qualified constants like os.O_CREATE are written os.O_CREATE and handled in trSel
	trFail("unknown identifier %q in spec", name)
	return TV{}
}

func (e *Env) constTV(v constant.Value, t types.Type) TV {
	switch v.Kind() {
	case constant.Bool:
		if constant.BoolVal(v) {
			return TV{T: tTrue, Go: t}
		}
		return TV{T: tFalse, Go: t}
	case constant.Int:
		n, _ := new(big.Int).SetString(v.ExactString(), 10)
		if e.vc.bv {
			return TV{T: BVLit(new(big.Int).And(n, new(big.Int).SetUint64(^uint64(0))).Uint64()), Go: t, Num: n}
		}
		return TV{T: BigLit(n), Go: t, Num: n}
	case constant.String:
		return TV{T: e.vc.strLit(constant.StringVal(v)), Go: t}
	}
	trFail("unsupported constant kind")
	return TV{}
}

// unify coerces nil / numeric literals to the sort of the other operand.
func (e *Env) unify(a, b TV) (TV, TV) {
	if a.Nil && !b.Nil {
		a = e.nilOf(b)
	} else if b.Nil && !a.Nil {
		b = e.nilOf(a)
	}
	if a.Num != nil && b.T.Sort == SBV64 && a.T.Sort != SBV64 {
		a.T = BVLit(new(big.Int).And(a.Num, new(big.Int).SetUint64(^uint64(0))).Uint64())
	}
	if b.Num != nil && a.T.Sort == SBV64 && b.T.Sort != SBV64 {
		b.T = BVLit(new(big.Int).And(b.Num, new(big.Int).SetUint64(^uint64(0))).Uint64())
	}
	return a, b
}

func (e *Env) nilOf(other TV) TV {
	switch other.T.Sort {
	case SRef:
		return TV{T: tNull, Go: other.Go}
	case SSlice:
		return TV{T: nilSlice, Go: other.Go}
	case SIface:
		return TV{T: nilIface, Go: other.Go}
	}
	trFail("nil compared with sort %s", other.T.Sort)
	return TV{}
}

func (e *Env) trBin(x *EBin) TV {
	boolT := types.Typ[types.Bool]
	switch x.Op {
	case "&&":
		return TV{T: And(e.asBool(e.tr(x.L)), e.asBool(e.tr(x.R))), Go: boolT}
	case "||":
		return TV{T: Or(e.asBool(e.tr(x.L)), e.asBool(e.tr(x.R))), Go: boolT}
	case "==>":
		return TV{T: Implies(e.asBool(e.tr(x.L)), e.asBool(e.tr(x.R))), Go: boolT}
	case "<==>":
		return TV{T: Eq(e.asBool(e.tr(x.L)), e.asBool(e.tr(x.R))), Go: boolT}
	case "in":
		k := e.tr(x.L)
		m := e.tr(x.R)
		if _, ok := x.R.(*EOld); ok && e.old != nil {
			// k in old(m): membership in the old contents of the map (see trIdx)
			n := *e
			n.st = e.old
			return TV{T: n.member(k, m), Go: boolT}
		}
		return TV{T: e.member(k, m), Go: boolT}
	}
	l := e.tr(x.L)
	r := e.tr(x.R)
	l, r = e.unify(l, r)
	switch x.Op {
	case "==", "!=":
		var t Term
		switch {
		case l.T.Sort == SSlice && (x.L.(interface{}) != nil) && (isNilExpr(x.L) || isNilExpr(x.R)):
			// slice == nil  <=>  backing array is null
			if isNilExpr(x.L) {
				t = Eq(SArr(r.T), tNull)
			} else {
				t = Eq(SArr(l.T), tNull)
			}
		case l.T.Sort == SIface && (isNilExpr(x.L) || isNilExpr(x.R)):
			if isNilExpr(x.L) {
				t = Eq(ITag(r.T), IntLit(0))
			} else {
				t = Eq(ITag(l.T), IntLit(0))
			}
		default:
			if l.T.Sort != r.T.Sort {
				trFail("comparison of different sorts %s and %s (%s vs %s)", l.T.Sort, r.T.Sort, l.T.S, r.T.S)
			}
			t = Eq(l.T, r.T)
		}
		if x.Op == "!=" {
			t = Not(t)
		}
		return TV{T: t, Go: boolT}
	case "<", "<=", ">", ">=":
		if l.T.Sort == SStr {
			// bytewise string order
			switch x.Op {
			case "<":
				return TV{T: mk(SBool, "sless", l.T, r.T), Go: boolT}
			case ">":
				return TV{T: mk(SBool, "sless", r.T, l.T), Go: boolT}
			case "<=":
				return TV{T: Not(mk(SBool, "sless", r.T, l.T)), Go: boolT}
			default:
				return TV{T: Not(mk(SBool, "sless", l.T, r.T)), Go: boolT}
			}
		}
		if l.T.Sort == SBV64 {
			op := map[string]string{"<": "bvult", "<=": "bvule", ">": "bvugt", ">=": "bvuge"}[x.Op]
			return TV{T: mk(SBool, op, l.T, r.T), Go: boolT}
		}
		return TV{T: mk(SBool, x.Op, l.T, r.T), Go: boolT}
	case "+", "-", "*":
		if l.T.Sort == SBV64 {
			op := map[string]string{"+": "bvadd", "-": "bvsub", "*": "bvmul"}[x.Op]
			return TV{T: mk(SBV64, op, l.T, r.T), Go: l.Go}
		}
		if l.T.Sort == SStr && x.Op == "+" {
			return TV{T: mk(SStr, "scat", l.T, r.T), Go: l.Go}
		}
		// spec arithmetic is mathematical (no wrap)
		return TV{T: mk(SInt, x.Op, l.T, r.T)}
	case "/":
		return TV{T: mk(SInt, "div", l.T, r.T)}
	case "%":
		return TV{T: mk(SInt, "mod", l.T, r.T)}
	case "&", "|", "^", "&^", "<<", ">>":
		if l.T.Sort != SBV64 {
			trFail("bit operator %s needs bv mode", x.Op)
		}
		switch x.Op {
		case "&":
			return TV{T: mk(SBV64, "bvand", l.T, r.T), Go: l.Go}
		case "|":
			return TV{T: mk(SBV64, "bvor", l.T, r.T), Go: l.Go}
		case "^":
			return TV{T: mk(SBV64, "bvxor", l.T, r.T), Go: l.Go}
		case "&^":
			return TV{T: mk(SBV64, "bvand", l.T, mk(SBV64, "bvnot", r.T)), Go: l.Go}
		case "<<":
			return TV{T: mk(SBV64, "bvshl", l.T, r.T), Go: l.Go}
		case ">>":
			return TV{T: mk(SBV64, "bvlshr", l.T, r.T), Go: l.Go}
		}
	}
	trFail("unsupported operator %s", x.Op)
	return TV{}
}

func isNilExpr(x Expr) bool { _, ok := x.(*ENil); return ok }

// member translates "k in m".
func (e *Env) member(k, m TV) Term {
	if m.Go != nil {
		if mt, ok := m.Go.Underlying().(*types.Map); ok {
			dom := e.st.heap(e.vc, "dom."+typeKey(mt), ArraySort(SRef, ArraySort(e.vc.mapKeySort(mt), SBool)))
			// a nil map has no keys
			return And(Not(Eq(m.T, tNull)), Select(Select(dom, m.T), k.T))
		}
	}
	if _, _, ok := arrayParts(m.T.Sort); ok {
		return Select(m.T, k.T)
	}
	trFail("'in' on a value that is neither a map nor a set: %s", m.T.S)
	return tFalse
}

func (vc *FuncVC) mapKeySort(mt *types.Map) Sort {
	s := vc.sortOf(mt.Key())
	if s == "" {
		// struct keys are encoded as an uninterpreted sort built with a constructor function
		return Sort("K." + mangle(typeKey(mt.Key())))
	}
	return s
}

func (e *Env) trQuant(x *EQuant) TV {
	n := e.clone()
	var binders []string
	var guards []Term
	for _, b := range x.Vars {
		if b.Type == "$idx" {
			// j ranges over the valid indices of a slice: bind the absolute position K, j = K - off
			sl := n.tr(b.Of) // may depend on earlier binders
			if sl.T.Sort != SSlice {
				trFail("idx(...) needs a slice")
			}
			name := fmt.Sprintf("%s!q%d", mangle(b.Name), e.depth)
			k := Term{name, SInt}
			n.vars[b.Name] = TV{T: Sub(k, SOff(sl.T)), IdxOf: sl.T.S, IdxK: k, Go: types.Typ[types.Int]}
			binders = append(binders, fmt.Sprintf("(%s Int)", name))
			guards = append(guards, Le(SOff(sl.T), k), Lt(k, Add(SOff(sl.T), SLen(sl.T))))
			continue
		}
		s, gt := e.vc.specSort(b.Type, e.pkg)
		name := fmt.Sprintf("%s!q%d", mangle(b.Name), e.depth)
		t := Term{name, s}
		n.vars[b.Name] = TV{T: t, Go: gt}
		binders = append(binders, fmt.Sprintf("(%s %s)", name, s))
		if gt != nil {
			if g := e.vc.rangeAssumption(t, gt); g.S != "true" {
				guards = append(guards, g)
			}
			if s == SSlice {
				guards = append(guards, sliceWF(t))
			}
		}
	}
	n.depth = e.depth + 1
	body := n.asBool(n.tr(x.Body))
	g := And(guards...)
	var inner Term
	if x.Forall {
		inner = Implies(g, body)
	} else {
		inner = And(g, body)
	}
	pat := ""
	for _, tr := range x.Triggers {
		pat += " :pattern ("
		for i, t := range tr {
			if i > 0 {
				pat += " "
			}
			pat += n.tr(t).T.S
		}
		pat += ")"
	}
	if pat != "" {
		inner = Term{"(! " + inner.S + pat + ")", SBool}
	}
	q := "exists"
	if x.Forall {
		q = "forall"
	}
	return TV{T: Term{fmt.Sprintf("(%s (%s) %s)", q, strings.Join(binders, " "), inner.S), SBool}, Go: types.Typ[types.Bool]}
}

// structOf returns the struct type and its named type (if any) behind a value's Go type.
func structOf(t types.Type) (*types.Struct, types.Type) {
	if t == nil {
		return nil, nil
	}
	if p, ok := t.Underlying().(*types.Pointer); ok {
		t = p.Elem()
	}
	if s, ok := t.Underlying().(*types.Struct); ok {
		return s, t
	}
	return nil, nil
}

func (e *Env) trSel(x *ESel) TV {
	// package-qualified constant: os.O_CREATE
	if id, ok := x.X.(*EIdent); ok {
		if _, isVar := e.vars[id.Name]; !isVar && e.pkg != nil {
			for _, imp := range e.pkg.Imports() {
				if imp.Name() == id.Name {
					if o := imp.Scope().Lookup(x.Field); o != nil {
						if c, ok := o.(*types.Const); ok {
							return e.constTV(c.Val(), c.Type())
						}
					}
				}
			}
			if p, ok := e.vc.w.typPkgs[id.Name]; ok {
				if o := p.Scope().Lookup(x.Field); o != nil {
					if c, ok := o.(*types.Const); ok {
						return e.constTV(c.Val(), c.Type())
					}
				}
			}
		}
	}
	v := e.tr(x.X)
	if v.SV != nil {
		st := v.SV.T.Underlying().(*types.Struct)
		for i := 0; i < st.NumFields(); i++ {
			if st.Field(i).Name() == x.Field {
				return e.valueTV(v.SV.F[i], st.Field(i).Type())
			}
		}
		trFail("no field %s in struct value", x.Field)
	}
	loc := e.toLoc(v)
	if loc == nil {
		trFail("selector .%s on a value that is not an object (%s)", x.Field, v.T.S)
	}
	return e.fieldOf(*loc, x.Field)
}

// toLoc views a value as the location of an object: pointers to structs, struct locations, interface payloads.
func (e *Env) toLoc(v TV) *PtrVal {
	if v.Loc != nil {
		return v.Loc
	}
	if v.Go == nil {
		return nil
	}
	switch u := v.Go.Underlying().(type) {
	case *types.Pointer:
		if v.T.Sort == SRef {
			return &PtrVal{Base: v.T, Path: "", T: u.Elem()}
		}
	case *types.Struct:
		if v.T.Sort == SRef {
			return &PtrVal{Base: v.T, Path: "", T: v.Go}
		}
	case *types.Interface:
		if v.T.Sort == SIface {
			return &PtrVal{Base: IRef(v.T), Path: "", T: v.Go}
		}
	}
	return nil
}

// fieldHeap returns the heap name and value sort of field (real or ghost) of the object at loc; ok=false if no such field.
func (e *Env) fieldHeap(loc PtrVal, field string) (name string, s Sort, gt types.Type, fp *PtrVal, ok bool) {
	prefix := loc.Path
	if prefix == "" {
		prefix = typeKey(loc.T)
	}
	if g := e.vc.w.ghostField(loc.T, field); g != nil {
		var gpkg *types.Package
		if g.Pkg != "" {
			gpkg = e.vc.w.typPkgs[g.Pkg]
		}
		gs, ggt := e.vc.specSort(g.Sort, gpkg)
		return prefix + "." + field, gs, ggt, nil, true
	}
	st, isS := loc.T.Underlying().(*types.Struct)
	if !isS {
		return "", "", nil, nil, false
	}
	for i := 0; i < st.NumFields(); i++ {
		if st.Field(i).Name() == field {
			p := e.vc.fieldPtr(loc, i)
			return p.Path, e.vc.sortOf(p.T), p.T, &p, true
		}
	}
	return "", "", nil, nil, false
}

func (e *Env) fieldOf(loc PtrVal, field string) TV {
	name, s, gt, fp, ok := e.fieldHeap(loc, field)
	if !ok {
		trFail("no field %s in %s", field, loc.T)
	}
	if fp != nil {
		return e.locTV(*fp)
	}
	// ghost field
	if loc.Idx != nil {
		h := e.st.heap(e.vc, name, ArraySort(SRef, ArraySort(SInt, s)))
		return TV{T: Select(Select(h, loc.Base), *loc.Idx), Go: gt}
	}
	h := e.st.heap(e.vc, name, ArraySort(SRef, s))
	return TV{T: Select(h, loc.Base), Go: gt}
}

// locTV reads a location: scalars are loaded, struct-typed locations stay locations.
func (e *Env) locTV(p PtrVal) TV {
	s := e.vc.sortOf(p.T)
	if s != "" {
		return TV{T: e.vc.loadLeaf(e.st, p, s), Go: p.T}
	}
	return TV{Loc: &p, Go: p.T}
}

func (e *Env) valueTV(v Value, t types.Type) TV {
	switch v := v.(type) {
	case Term:
		return TV{T: v, Go: t}
	case *StructVal:
		return TV{SV: v, Go: t}
	case *ClosureVal:
		return TV{T: e.vc.closureRef(e.st, v), Go: t}
	case PtrVal:
		if _, isStruct := v.T.Underlying().(*types.Struct); isStruct && v.Path != "" {
			p := v
			return TV{Loc: &p, Go: t}
		}
		return TV{T: e.vc.ptrTerm(v), Go: t}
	}
	trFail("value of type %s is not usable in specs", t)
	return TV{}
}

func (e *Env) trIdx(x *EIdx) TV {
	v := e.tr(x.X)
	i := e.tr(x.I)
	// old(m)[k], old(s)[i]: maps and slices are references, but the intention of old() around a container is its old
	// contents — the element is read from the pre-state heaps (key and index are evaluated in the current state).
	if o, ok := x.X.(*EOld); ok && e.old != nil && v.Go != nil {
		switch v.Go.Underlying().(type) {
		case *types.Map, *types.Slice:
			n := *e
			n.st = e.old
			_ = o
			return n.trIdxOn(v, i)
		}
	}
	return e.trIdxOn(v, i)
}

func (e *Env) trIdxOn(v, i TV) TV {
	if v.Go != nil {
		switch u := v.Go.Underlying().(type) {
		case *types.Slice:
			pos := Add(SOff(v.T), i.T)
			if i.IdxOf != "" && i.IdxOf == v.T.S {
				pos = i.IdxK
			}
			p := PtrVal{Base: SArr(v.T), Path: "[]" + typeKey(u.Elem()), Idx: termPtr(pos), T: u.Elem()}
			return e.locTV(p)
		case *types.Map:
			ks := e.vc.mapKeySort(u)
			vs := e.vc.sortOf(u.Elem())
			if vs == "" {
				trFail("map with struct values in spec")
			}
			h := e.st.heap(e.vc, "map."+typeKey(u), ArraySort(SRef, ArraySort(ks, vs)))
			return TV{T: Select(Select(h, v.T), i.T), Go: u.Elem()}
		case *types.Basic:
			if u.Info()&types.IsString != 0 {
				return TV{T: mk(SInt, "sat", v.T, i.T), Go: types.Typ[types.Uint8]}
			}
		case *types.Array:
			if v.Loc != nil {
				p := *v.Loc
				p.Path += "[]"
				p.Idx = termPtr(i.T)
				p.T = u.Elem()
				return e.locTV(p)
			}
		}
	}
	if _, _, ok := arrayParts(v.T.Sort); ok {
		return TV{T: Select(v.T, i.T)}
	}
	trFail("indexing a value that is not a slice, map, string or array sort: %s", v.T.S)
	return TV{}
}

func termPtr(t Term) *Term { return &t }

func (e *Env) trCall(x *ECall) TV {
	switch x.Fn {
	case "len":
		v := e.tr(x.Args[0])
		switch v.T.Sort {
		case SSlice:
			return TV{T: SLen(v.T), Go: types.Typ[types.Int]}
		case SStr:
			return TV{T: mk(SInt, "slen", v.T), Go: types.Typ[types.Int]}
		}
		trFail("len of %s", v.T.Sort)
	case "cap":
		v := e.tr(x.Args[0])
		return TV{T: SCap(v.T), Go: types.Typ[types.Int]}
	case "cellof":
		// cellof(v): the memory cell of a variable that is bound by reference (a captured variable of a closure)
		id, ok := x.Args[0].(*EIdent)
		if !ok || len(x.Args) != 1 {
			trFail("cellof(name)")
		}
		rv, ok := e.refs[id.Name]
		if !ok {
			trFail("cellof(%s): not a variable bound by reference", id.Name)
		}
		switch p := rv.ptr.(type) {
		case Term:
			return TV{T: p, Go: types.NewPointer(rv.t)}
		case PtrVal:
			if p.Path == "" && p.Idx == nil {
				return TV{T: p.Base, Go: types.NewPointer(rv.t)}
			}
		}
		trFail("cellof(%s): the variable does not live in a cell of its own", id.Name)
	case "substr":
		// substr(s, a, b) is the Go expression s[a:b] on strings
		if len(x.Args) != 3 {
			trFail("substr(s, a, b)")
		}
		v := e.tr(x.Args[0])
		if v.T.Sort != SStr {
			trFail("substr of %s", v.T.Sort)
		}
		return TV{T: mk(SStr, "ssub", v.T, e.tr(x.Args[1]).T, e.tr(x.Args[2]).T), Go: types.Typ[types.String]}
	case "arr":
		v := e.tr(x.Args[0])
		return TV{T: SArr(v.T)}
	case "off":
		v := e.tr(x.Args[0])
		return TV{T: SOff(v.T)}
	case "typeof":
		v := e.tr(x.Args[0])
		if v.T.Sort != SIface {
			trFail("typeof on non-interface")
		}
		return TV{T: ITag(v.T)}
	case "tag":
		// tag(T): the run-time tag of type T
		id, ok := x.Args[0].(*EIdent)
		var name string
		if ok {
			name = id.Name
		} else if u, ok := x.Args[0].(*EUn); ok && u.Op == "*" {
			_ = u
		}
		t := e.vc.w.LookupType(name, e.pkg)
		if t == nil {
			trFail("tag(%s): unknown type", name)
		}
		return TV{T: IntLit(int64(e.vc.w.TagOf(t)))}
	case "ptrtag":
		name := ""
		switch a := x.Args[0].(type) {
		case *EIdent:
			name = a.Name
		case *ESel:
			if id, ok := a.X.(*EIdent); ok {
				name = id.Name + "." + a.Field
			}
		}
		if name == "" {
			trFail("ptrtag(T)")
		}
		t := e.vc.w.LookupType(name, e.pkg)
		if t == nil {
			trFail("ptrtag(%s): unknown type", name)
		}
		return TV{T: IntLit(int64(e.vc.w.TagOf(types.NewPointer(t))))}
	case "iref":
		v := e.tr(x.Args[0])
		return TV{T: IRef(v.T)}
	case "fresh":
		v := e.tr(x.Args[0])
		if e.old == nil {
			trFail("fresh() needs a pre-state")
		}
		return TV{T: And(Not(Select(e.old.alloc, v.T)), Select(e.st.alloc, v.T), Not(Eq(v.T, tNull))), Go: types.Typ[types.Bool]}
	case "allocated":
		v := e.tr(x.Args[0])
		return TV{T: Select(e.st.alloc, v.T), Go: types.Typ[types.Bool]}
	case "heap":
		// heap("name") : the whole heap array in the current state (for frame conditions written by hand)
		s, ok := x.Args[0].(*EStr)
		if !ok {
			trFail("heap(\"name\")")
		}
		hn, hs := e.vc.resolveHeap(s.Val, e.pkg)
		return TV{T: e.st.heap(e.vc, hn, hs)}
	case "fnref":
		// fnref("pkg/path.Func$1"): the reference value of a function or of a closure without captured variables
		sl, ok := x.Args[0].(*EStr)
		if !ok {
			trFail("fnref(\"name\")")
		}
		name := sl.Val
		if _, ok := e.vc.w.funcs[name]; !ok {
			if e.pkg != nil {
				if _, ok2 := e.vc.w.funcs[e.pkg.Path()+"."+name]; ok2 {
					name = e.pkg.Path() + "." + name
				}
			}
		}
		ft := e.vc.sc.Const("fn."+name, SRef)
		if key := "fnnonnil:" + ft.S; !e.vc.namedOnce[key] {
			e.vc.namedOnce[key] = true
			e.vc.implFacts = append(e.vc.implFacts, Not(Eq(ft, tNull)))
		}
		return TV{T: ft}
	case "bv":
		v := e.tr(x.Args[0])
		if v.Num == nil {
			trFail("bv(literal)")
		}
		return TV{T: BVLit(new(big.Int).And(v.Num, new(big.Int).SetUint64(^uint64(0))).Uint64())}
	case "rotl1":
		v := e.tr(x.Args[0])
		return TV{T: mk(SBV64, "(_ rotate_left 1)", v.T)}
	}
	pd, ok := e.vc.w.specs.Pures[x.Fn]
	if !ok {
		trFail("unknown spec function %q", x.Fn)
	}
	if len(pd.Params) != len(x.Args) {
		trFail("%s: expected %d arguments, got %d", x.Fn, len(pd.Params), len(x.Args))
	}
	var pkg *types.Package
	if p := e.vc.purePkg(pd); p != nil {
		pkg = p
	} else {
		pkg = e.pkg
	}
	args := make([]TV, len(x.Args))
	for i, a := range x.Args {
		args[i] = e.tr(a)
		ps, pgt := e.vc.specSort(pd.Params[i].Type, pkg)
		if args[i].Nil {
			args[i] = e.nilOf(TV{T: Term{"", ps}, Go: pgt})
		}
		if args[i].Num != nil && ps == SBV64 && args[i].T.Sort != SBV64 {
			args[i].T = BVLit(new(big.Int).And(args[i].Num, new(big.Int).SetUint64(^uint64(0))).Uint64())
		}
		if ps == SIface && args[i].T.Sort == SRef && args[i].Go != nil {
			// a pointer passed where an interface is expected: implicit conversion, as in Go
			args[i] = TV{T: e.vc.mkIface(IntLit(int64(e.vc.w.TagOf(args[i].Go))), args[i].T), Go: pgt}
		}
		if args[i].T.Sort != ps {
			trFail("%s: argument %d has sort %s, expected %s", x.Fn, i+1, args[i].T.Sort, ps)
		}
		if args[i].Go == nil {
			args[i].Go = pgt
		}
	}
	rs, rgt := e.vc.specSort(pd.Ret, pkg)
	if pd.Def != nil {
		// macro expansion in the current state
		n := &Env{vc: e.vc, st: e.st, old: e.old, vars: map[string]TV{}, pkg: pkg, loop: e.loop, depth: e.depth + 1}
		// bound variables of enclosing quantifiers must stay visible through arguments only
		for i, p := range pd.Params {
			n.vars[p.Name] = args[i]
		}
		r := n.tr(pd.Def)
		if r.T.Sort != rs {
			trFail("%s: definition has sort %s, declared %s", x.Fn, r.T.Sort, rs)
		}
		if r.Go == nil {
			r.Go = rgt
		}
		return r
	}
	if pd.SMT != "" {
		// textual macro over parameter names
		body := pd.SMT
		var lets []string
		for i, p := range pd.Params {
			lets = append(lets, fmt.Sprintf("(%s %s)", p.Name, args[i].T.S))
		}
		if len(lets) > 0 {
			body = fmt.Sprintf("(let (%s) %s)", strings.Join(lets, " "), body)
		}
		return TV{T: Term{body, rs}, Go: rgt}
	}
	// uninterpreted, with the heaps it reads as extra arguments
	var sorts []Sort
	var ts []Term
	for _, a := range args {
		sorts = append(sorts, a.T.Sort)
		ts = append(ts, a.T)
	}
	for _, h := range pd.Reads {
		if strings.TrimSpace(h) == "$alloc" {
			// the set of allocated objects of the state the function is evaluated in
			sorts = append(sorts, e.st.alloc.Sort)
			ts = append(ts, e.st.alloc)
			continue
		}
		hn, hs := e.vc.resolveHeap(h, pkg)
		ht := e.st.heap(e.vc, hn, hs)
		sorts = append(sorts, ht.Sort)
		ts = append(ts, ht)
	}
	fname := e.vc.sc.Func("f."+x.Fn, sorts, rs)
	if len(ts) == 0 {
		return TV{T: Term{fname, rs}, Go: rgt}
	}
	return TV{T: mk(rs, fname, ts...), Go: rgt}
}
