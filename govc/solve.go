package main

import (
	"bytes"
	"context"
	"fmt"
	"os"
	"os/exec"
	"path/filepath"
	"regexp"
	"runtime"
	"strings"
	"sync"
	"time"
)

const maxFailedPerFunction = 12

type solverRes struct {
	solver string
	ans    string // unsat | sat | unknown | timeout | error
	out    string
	secs   float64
}

func runSolver(ctx context.Context, name string, file string, timeout time.Duration) solverRes {
	return runSolverSeed(ctx, name, file, timeout, 1)
}

func runSolverSeed(ctx context.Context, name string, file string, timeout time.Duration, seed int) solverRes {
	var cmd *exec.Cmd
	secs := int(timeout.Seconds())
	if secs < 1 {
		secs = 1
	}
	cctx, cancel := context.WithTimeout(ctx, timeout+2*time.Second)
	defer cancel()
	switch name {
	case "z3":
		cmd = exec.CommandContext(cctx, "z3", fmt.Sprintf("-T:%d", secs), fmt.Sprintf("smt.random_seed=%d", seed), file)
	case "z3-new":
		cmd = exec.CommandContext(cctx, "z3-new", fmt.Sprintf("-T:%d", secs), fmt.Sprintf("smt.random_seed=%d", seed), file)
	case "cvc5":
		if f2 := cvc5File(file); f2 != file {
			file = f2
			defer os.Remove(f2)
		}
		cmd = exec.CommandContext(cctx, "cvc5", fmt.Sprintf("--tlimit=%d", secs*1000), fmt.Sprintf("--seed=%d", seed), file)
	}
	var out bytes.Buffer
	cmd.Stdout = &out
	cmd.Stderr = &out
	t0 := time.Now()
	_ = cmd.Run()
	res := solverRes{solver: name, secs: time.Since(t0).Seconds(), out: out.String()}
	first := strings.TrimSpace(strings.SplitN(res.out, "\n", 2)[0])
	switch {
	case first == "unsat":
		res.ans = "unsat"
	case first == "sat":
		res.ans = "sat"
	case first == "unknown":
		res.ans = "unknown"
	case strings.Contains(first, "timeout") || cctx.Err() != nil:
		res.ans = "timeout"
	case strings.HasPrefix(first, "(error") || strings.Contains(res.out, "(error"):
		res.ans = "error"
	default:
		res.ans = "unknown"
	}
	return res
}

// Discharge runs the solver portfolio on every obligation that still has a script.
func Discharge(obls []*Obligation, timeout time.Duration, workers int, keepDir string) (solverTime float64, err error) {
	dir, err := os.MkdirTemp("", "govc-vc-")
	if err != nil {
		return 0, err
	}
	defer os.RemoveAll(dir)
	var wg sync.WaitGroup
	var mu sync.Mutex
	failed := map[string]int{}
	ch := make(chan int)
	for w := 0; w < workers; w++ {
		wg.Add(1)
		go func() {
			defer wg.Done()
			for i := range ch {
				o := obls[i]
				// a function that already has many undecided obligations is reported as it is: the remaining ones
				// are not attempted (a broken function otherwise costs a timeout per obligation)
				mu.Lock()
				skip := !o.Vacuity && failed[o.Fn] >= maxFailedPerFunction
				mu.Unlock()
				if skip {
					o.Result = "undischarged"
					o.Output = fmt.Sprintf("not attempted: %d obligations of this function are already undecided or refuted", maxFailedPerFunction)
					o.Skipped = true
					continue
				}
				file := filepath.Join(dir, fmt.Sprintf("o%d.smt2", i))
				if err := os.WriteFile(file, []byte(o.Script), 0644); err != nil {
					o.Result = "undischarged"
					o.Output = err.Error()
					continue
				}
				t := dischargeOne(o, file, timeout)
				mu.Lock()
				solverTime += t
				if !o.Vacuity && o.Result != "proved" {
					failed[o.Fn]++
				}
				mu.Unlock()
				if keepDir != "" && (o.Result != "proved" || os.Getenv("GOVC_DUMPALL") != "") {
					_ = os.MkdirAll(keepDir, 0755)
					_ = os.WriteFile(filepath.Join(keepDir, mangle(o.Fn+"."+o.Name)+".smt2"), []byte(o.Script), 0644)
				}
				os.Remove(file)
			}
		}()
	}
	for i, o := range obls {
		if o.Result != "" || o.Script == "" {
			continue
		}
		ch <- i
	}
	close(ch)
	wg.Wait()
	// second chance for obligations no solver decided: machine load makes solver times vary, and an undecided
	// obligation must not be reported because of contention. Re-run them with a tripled timeout, few at a time.
	var retry []int
	for i, o := range obls {
		if o.Result == "undischarged" && !o.Skipped && !o.Vacuity && o.Script != "" && !strings.Contains(o.Output, "disagreement") {
			retry = append(retry, i)
		}
	}
	if len(retry) > 0 && len(retry) <= 60 {
		sem := make(chan struct{}, 3)
		var wg2 sync.WaitGroup
		for _, i := range retry {
			wg2.Add(1)
			go func(i int) {
				defer wg2.Done()
				sem <- struct{}{}
				defer func() { <-sem }()
				o := obls[i]
				file := filepath.Join(dir, fmt.Sprintf("r%d.smt2", i))
				if err := os.WriteFile(file, []byte(o.Script), 0644); err != nil {
					return
				}
				prev := o.Output
				o.Result, o.Solver, o.Output = "", "", ""
				t := dischargeSeeds(o, file, 4*timeout)
				if o.Result != "proved" {
					o.Output = prev + " | retry: " + o.Output
				}
				mu.Lock()
				solverTime += t
				mu.Unlock()
				os.Remove(file)
			}(i)
		}
		wg2.Wait()
	}
	return solverTime, nil
}

func dischargeOne(o *Obligation, file string, timeout time.Duration) float64 {
	ctx := context.Background()
	total := 0.0
	if o.Vacuity {
		// expected: NOT provable. All three solvers get a short run; one "unsat" means the assumptions are contradictory.
		resCh := make(chan solverRes, 3)
		for _, sv := range []string{"z3-new", "z3", "cvc5"} {
			to := 4 * time.Second
			if o.Name == "cover.axioms" {
				to = 15 * time.Second
			}
			go func(sv string) { resCh <- runSolver(ctx, sv, file, to) }(sv)
		}
		o.Result = "proved"
		for i := 0; i < 3; i++ {
			r := <-resCh
			total += r.secs
			if r.ans == "unsat" {
				o.Result = "refuted" // vacuity failure
				o.Solver = r.solver
				o.Output = "assumptions are contradictory (assert false is provable by " + r.solver + ")"
			} else if o.Result == "proved" {
				o.Solver = r.solver
				o.Output = r.ans
			}
			if r.secs > o.Secs {
				o.Secs = r.secs
			}
		}
		return total
	}
	// stage 1: the two z3 versions in parallel
	resCh := make(chan solverRes, 3)
	c1, cancel := context.WithCancel(ctx)
	go func() { resCh <- runSolver(c1, "z3-new", file, timeout) }()
	go func() { resCh <- runSolver(c1, "z3", file, timeout) }()
	var got []solverRes
	for i := 0; i < 2; i++ {
		r := <-resCh
		got = append(got, r)
		if r.ans == "unsat" || r.ans == "sat" {
			// give the other one a short grace period only to detect disagreement cheaply: not needed for unsat
			break
		}
	}
	cancel()
	for _, r := range got {
		total += r.secs
	}
	decide := func() bool {
		var unsat, sat *solverRes
		for i := range got {
			switch got[i].ans {
			case "unsat":
				unsat = &got[i]
			case "sat":
				sat = &got[i]
			}
		}
		switch {
		case unsat != nil && sat != nil:
			o.Result = "undischarged"
			o.Solver = unsat.solver + "/" + sat.solver
			o.Output = "solver disagreement: " + unsat.solver + " says unsat, " + sat.solver + " says sat"
			return true
		case unsat != nil:
			o.Result = "proved"
			o.Solver = unsat.solver
			o.Secs = unsat.secs
			return true
		case sat != nil:
			o.Result = "refuted"
			o.Solver = sat.solver
			o.Secs = sat.secs
			o.Model = sat.out
			o.Output = "sat"
			return true
		}
		return false
	}
	if decide() {
		return total
	}
	// stage 2: cvc5
	r := runSolver(ctx, "cvc5", file, timeout)
	total += r.secs
	got = append(got, r)
	if decide() {
		return total
	}
	o.Result = "undischarged"
	var parts []string
	for _, g := range got {
		parts = append(parts, fmt.Sprintf("%s: %s (%.1fs)", g.solver, g.ans, g.secs))
		if g.ans == "error" {
			parts = append(parts, firstLines(g.out, 3))
		}
	}
	o.Output = strings.Join(parts, "; ")
	o.Secs = total
	return total
}

func firstLines(s string, n int) string {
	ls := strings.Split(s, "\n")
	if len(ls) > n {
		ls = ls[:n]
	}
	return strings.Join(ls, " | ")
}

// dischargeSeeds is the retry strategy: quantifier instantiation in the solvers is seed-dependent, and an obligation
// that is provable but sits near the limit must not turn into an alarm. Several seeds of both z3 versions and cvc5 run
// concurrently; one "unsat" proves the obligation, one "sat" refutes it (a disagreement is reported as undischarged).
func dischargeSeeds(o *Obligation, file string, timeout time.Duration) float64 {
	type job struct {
		solver string
		seed   int
	}
	jobs := []job{{"z3-new", 2}, {"z3-new", 3}, {"z3-new", 1}, {"z3", 2}, {"z3", 1}, {"cvc5", 1}}
	ctx, cancel := context.WithCancel(context.Background())
	defer cancel()
	resCh := make(chan solverRes, len(jobs))
	for _, j := range jobs {
		go func(j job) {
			r := runSolverSeed(ctx, j.solver, file, timeout, j.seed)
			r.solver = fmt.Sprintf("%s(seed %d)", j.solver, j.seed)
			resCh <- r
		}(j)
	}
	total := 0.0
	var unsat, sat *solverRes
	var parts []string
	for range jobs {
		r := <-resCh
		total += r.secs
		rr := r
		switch r.ans {
		case "unsat":
			if unsat == nil {
				unsat = &rr
			}
		case "sat":
			if sat == nil {
				sat = &rr
			}
		default:
			parts = append(parts, fmt.Sprintf("%s: %s (%.1fs)", r.solver, r.ans, r.secs))
		}
		if unsat != nil || sat != nil {
			break
		}
	}
	cancel()
	switch {
	case unsat != nil && sat != nil:
		o.Result, o.Solver = "undischarged", unsat.solver+"/"+sat.solver
		o.Output = "solver disagreement: " + unsat.solver + " says unsat, " + sat.solver + " says sat"
	case unsat != nil:
		o.Result, o.Solver, o.Secs = "proved", unsat.solver, unsat.secs
	case sat != nil:
		o.Result, o.Solver, o.Secs, o.Model, o.Output = "refuted", sat.solver, sat.secs, sat.out, "sat"
	default:
		o.Result = "undischarged"
		o.Output = strings.Join(parts, "; ")
		o.Secs = total
	}
	return total
}

var reConstNull = regexp.MustCompile(`\(\(as const (\(Array [A-Za-z0-9_.]+ [A-Za-z0-9_.]+\))\) ([A-Za-z][A-Za-z0-9_.!]*)\)`)

// cvc5File writes the cvc5 dialect of a script: cvc5 only accepts values as the element of a constant array, and the
// null reference, string literals and other declared constants are not values. Each ((as const (Array K V)) c) with a
// declared constant c becomes a declared array that is c everywhere (same meaning, stated with a quantifier).
func cvc5File(file string) string {
	b, err := os.ReadFile(file)
	if err != nil {
		return file
	}
	s := string(b)
	out := file + ".cvc5.smt2"
	if strings.Contains(s, "(as const") {
		decl := map[string]string{}
		type ent struct{ sort, elem string }
		var order []ent
		s = reConstNull.ReplaceAllStringFunc(s, func(m string) string {
			sm := reConstNull.FindStringSubmatch(m)
			sort, elem := sm[1], sm[2]
			if elem == "true" || elem == "false" {
				return m
			}
			key := sort + " " + elem
			if _, ok := decl[key]; !ok {
				decl[key] = fmt.Sprintf("constarr.%d", len(decl))
				order = append(order, ent{sort, elem})
			}
			return decl[key]
		})
		// the definitions go right before the first assertion (all constants are declared by then)
		var d strings.Builder
		for _, e := range order {
			name := decl[e.sort+" "+e.elem]
			key := strings.Fields(strings.Trim(e.sort, "()"))[1]
			fmt.Fprintf(&d, "(declare-const %s %s)\n(assert (forall ((i %s)) (= (select %s i) %s)))\n", name, e.sort, key, name, e.elem)
		}
		if d.Len() > 0 {
			k := strings.Index(s, "\n(assert ")
			if k >= 0 {
				s = s[:k+1] + d.String() + s[k+1:]
			}
		}
	}
	if os.WriteFile(out, []byte(s), 0644) != nil {
		return file
	}
	return out
}

// dischargeWorkers: every worker races two solver processes, so half as many workers as cores keeps each solver on a
// core of its own (a timeout then means what it says also when the whole machine is used).
func dischargeWorkers() int {
	n := runtime.NumCPU() / 2
	if n < 2 {
		n = 2
	}
	return n
}
