package main

import (
	"bytes"
	"context"
	"encoding/json"
	"os"
	"os/exec"
	"strconv"
	"time"
)

// runConcretiser runs the property's real-code harness: it receives the failed obligation and the solver model and
// searches for an input that makes the real code violate the property. Exit status 10 = reproduced (stdout is a JSON
// description of the failing input), anything else = not reproduced.
func runConcretiser(script, repo, prop string, o *Obligation, seed int) interface{} {
	mf, err := os.CreateTemp("", "govc-model-*.txt")
	if err != nil {
		return nil
	}
	defer os.Remove(mf.Name())
	mf.WriteString(o.Model)
	mf.Close()
	ctx, cancel := context.WithTimeout(context.Background(), 240*time.Second)
	defer cancel()
	cmd := exec.CommandContext(ctx, script, prop)
	cmd.Env = append(os.Environ(), "VERIF_REPO="+repo, "VERIF_PROP="+prop, "VERIF_HINT="+o.Fn+"/"+o.Name, "VERIF_BOUND=quick", "VERIF_MODEL="+mf.Name(), "VERIF_SEED="+strconv.Itoa(seed))
	var out bytes.Buffer
	cmd.Stdout = &out
	cmd.Stderr = os.Stderr
	err = cmd.Run()
	if ee, ok := err.(*exec.ExitError); ok && ee.ExitCode() == 10 {
		var v interface{}
		if json.Unmarshal(out.Bytes(), &v) == nil {
			return v
		}
		return out.String()
	}
	return nil
}
