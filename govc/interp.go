package main

import (
	"fmt"
	"go/token"
	"go/types"
	"os"
	"strings"
	"time"

	"golang.org/x/tools/go/ssa"
)

type pathEnd struct{}

// get returns the symbolic value of an SSA operand in the current frame.
func (vc *FuncVC) get(st *State, v ssa.Value) Value {
	switch x := v.(type) {
	case *ssa.Const:
		return vc.constValue(x)
	case *ssa.Global:
		return PtrVal{Base: tNull, Path: "global." + x.Pkg.Pkg.Path() + "." + x.Name(), T: x.Type().Underlying().(*types.Pointer).Elem()}
	case *ssa.Function:
		return &ClosureVal{Fn: x}
	case *ssa.Builtin:
		return x
	}
	for f := st.fr; f != nil; f = f.parent {
		if val, ok := f.regs[v]; ok {
			return val
		}
		break
	}
	panic(trError{fmt.Sprintf("no value for %s (%T) in %s", v.Name(), v, st.fr.fn.Name())})
}

func (vc *FuncVC) term(st *State, v ssa.Value) Term {
	switch x := vc.get(st, v).(type) {
	case Term:
		return x
	case PtrVal:
		return vc.ptrTerm(x)
	case *ClosureVal:
		return vc.closureRef(st, x)
	}
	panic(trError{fmt.Sprintf("operand %s is not a scalar (%T)", v.Name(), vc.get(st, v))})
}

func (vc *FuncVC) set(st *State, v ssa.Value, val Value) { st.fr.regs[v] = val }

// ---------------------------------------------------------------- top level

func (vc *FuncVC) propsTags() []string { return nil }

// Verify generates all obligations of the function.
func (vc *FuncVC) Verify() (err error) {
	defer func() {
		if r := recover(); r != nil {
			if te, ok := r.(trError); ok {
				err = fmt.Errorf("%s", te.msg)
				return
			}
			if se, ok := r.(specError); ok {
				err = fmt.Errorf("%s", se.msg)
				return
			}
			panic(r)
		}
	}()
	fn := vc.fn
	if fn.Blocks == nil {
		return fmt.Errorf("function %s has no body", fn)
	}
	vc.initPrelude()
	vc.started = time.Now()
	st := &State{heaps: map[string]Term{}}
	st.alloc = vc.sc.Const("alloc.0", ArraySort(SRef, SBool))
	st.assume(Not(Select(st.alloc, tNull)))
	fr := &frame{fn: fn, regs: map[ssa.Value]Value{}, spec: vc.spec, open: map[*ssa.BasicBlock]*openLoop{}}
	st.fr = fr
	for _, p := range fn.Params {
		if _, isFunc := p.Type().Underlying().(*types.Signature); isFunc && vc.specClosure != nil && vc.specClosureVal == nil {
			cl := &ClosureVal{Fn: vc.specClosure}
			for _, fv := range vc.specClosure.FreeVars {
				v := vc.freshValue(st, "cfv."+fv.Name(), fv.Type())
				if t, ok := v.(Term); ok && t.Sort == SRef {
					// captured variables live in cells that always exist
					st.assume(And(Not(Eq(t, tNull)), Select(st.alloc, t)))
				}
				cl.Bind = append(cl.Bind, v)
			}
			vc.specClosureVal = cl
			fr.regs[p] = cl
			continue
		}
		fr.regs[p] = vc.freshValue(st, "p."+p.Name(), p.Type())
	}
	for _, fv := range fn.FreeVars {
		v := vc.freshValue(st, "fv."+fv.Name(), fv.Type())
		if t, ok := v.(Term); ok && t.Sort == SRef {
			// captured variables live in cells that always exist
			st.assume(Not(Eq(t, tNull)))
		}
		fr.regs[fv] = v
	}
	vc.translateAxioms()
	vc.entry = st.snapshot()
	// assume preconditions
	env := vc.specEnv(st, vc.entry, fr, nil)
	for _, sp := range vc.specChain(vc.spec) {
		e2 := vc.rebind(env, sp, fr, nil)
		for _, c := range sp.Unfolds {
			st.assume(e2.asBool(e2.tr(c.E)))
		}
		for _, c := range sp.Requires {
			st.assume(e2.asBool(e2.tr(c.E)))
		}
		for _, c := range sp.Assumes {
			st.assume(e2.asBool(e2.tr(c.E)))
			vc.trusted["assumed: "+shortName(sp.Key)+": "+c.Name+": "+c.Src] = true
		}
	}
	vc.entry = st.snapshot()
	vc.entry.pc = nil
	vc.subtypeObligations(st, fr)
	// vacuity: the axioms alone, and the precondition with the axioms, must be satisfiable
	vc.w.mu.Lock()
	first := !vc.w.axiomsChecked[vc.bv]
	vc.w.axiomsChecked[vc.bv] = true
	vc.w.mu.Unlock()
	if first {
		var ax []string
		for _, a := range vc.axioms {
			ax = append(ax, a.term)
		}
		o := &Obligation{Fn: shortName(vc.fn.String()), Name: "cover.axioms", Kind: "cover", Desc: "all theory and contract axioms together are satisfiable", Vacuity: true}
		o.Script = vc.sc.Render(len(vc.sc.decls), ax, vc.strAxioms(), tFalse, false)
		o.Bytes = len(o.Script)
		vc.obls = append(vc.obls, o)
		// lemmas: each is proved from the axioms and the lemmas declared before it
		var before []string
		for _, a := range vc.axioms {
			if !a.lemma {
				before = append(before, a.term)
			}
		}
		for _, a := range vc.axioms {
			if !a.lemma {
				continue
			}
			lo := &Obligation{Fn: "lemmas", Name: "lemma." + a.name, Kind: "lemma", Desc: "lemma follows from the axioms: " + a.name}
			lo.Script = vc.sc.Render(len(vc.sc.decls), before, vc.strAxioms(), Term{a.term, SBool}, false)
			lo.Bytes = len(lo.Script)
			vc.obls = append(vc.obls, lo)
			before = append(before, a.term)
		}
	}
	vc.emitCover(st, "cover.pre", "precondition and axioms are satisfiable", fn.Pos())
	fr.retK = func(st *State, res []Value) { vc.atExit(st, fr, res) }
	vc.run(func() { vc.execBlock(st, fn.Blocks[0], nil) })
	return nil
}

// run executes one path; a pathEnd panic terminates just this path.
func (vc *FuncVC) run(f func()) {
	defer func() {
		if r := recover(); r != nil {
			if _, ok := r.(pathEnd); ok {
				return
			}
			panic(r)
		}
	}()
	f()
}

func (vc *FuncVC) emitCover(st *State, name, desc string, pos token.Pos) {
	o := &Obligation{Fn: shortName(vc.fn.String()), Name: name, Kind: "cover", Desc: desc, Pos: vc.pos(pos), Vacuity: true}
	o.Script = vc.render(st, tFalse)
	o.Bytes = len(o.Script)
	vc.obls = append(vc.obls, o)
}

// specEnv builds the environment in which clauses of the function's own contract are evaluated.
func (vc *FuncVC) specEnv(st, old *State, fr *frame, res []Value) *Env {
	env := &Env{vc: vc, st: st, old: old, vars: map[string]TV{}, pkg: fr.fn.Pkg.Pkg}
	return env
}

// rebind binds the parameter and result names of contract sp to the frame's values.
func (vc *FuncVC) rebind(env *Env, sp *FuncSpec, fr *frame, res []Value) *Env {
	n := env.clone()
	if sp.Pkg != "" {
		if p := vc.w.typPkgs[sp.Pkg]; p != nil {
			n.pkg = p
		}
	}
	fn := fr.fn
	names := sp.Params
	if sp.Kind == "functype" && len(fn.FreeVars) == 0 {
		// the contract of a function type may talk about the function value being called
		n.vars["self"] = TV{T: vc.closureRef(env.st, &ClosureVal{Fn: fn})}
	}
	for i, p := range fn.Params {
		name := p.Name()
		if i < len(names) {
			name = names[i]
		}
		if i == 0 && sp.Kind == "interface" && fn.Signature.Recv() != nil {
			// the interface contract sees the receiver as an interface value of the implementing type
			if it := vc.ifaceTypeOf(sp); it != nil {
				if t, ok := fr.regs[p].(Term); ok && t.Sort == SRef {
					n.vars[name] = TV{T: vc.mkIface(IntLit(int64(vc.w.TagOf(p.Type()))), t), Go: it}
					continue
				}
			}
		}
		if cl, isCl := fr.regs[p].(*ClosureVal); isCl {
			vc.bindClosureVars(n, env.st, cl)
			continue
		}
		n.vars[name] = n.valueTV(fr.regs[p], p.Type())
	}
	// a closure under contract sees its captured variables by name
	for _, fv := range fn.FreeVars {
		v, ok := fr.regs[fv]
		if !ok {
			continue
		}
		if _, dup := n.vars[fv.Name()]; dup {
			continue
		}
		pt, isPtr := fv.Type().Underlying().(*types.Pointer)
		if !isPtr {
			continue
		}
		func() {
			defer func() {
				if r := recover(); r != nil {
					if _, ok := r.(trError); ok {
						return
					}
					panic(r)
				}
			}()
			save := env.st.pc
			val := vc.load(env.st, v, pt.Elem())
			env.st.pc = save
			n.vars[fv.Name()] = n.valueTV(val, pt.Elem())
		}()
	}
	if res != nil {
		sig := fn.Signature
		for i := 0; i < sig.Results().Len(); i++ {
			name := sig.Results().At(i).Name()
			if i < len(sp.Results) {
				name = sp.Results[i]
			} else if name == "" || name == "_" {
				if sig.Results().Len() == 1 {
					name = "result"
				} else {
					name = fmt.Sprintf("result%d", i)
				}
			}
			n.vars[name] = n.valueTV(res[i], sig.Results().At(i).Type())
			if i == 0 && sig.Results().Len() >= 1 {
				if _, ok := n.vars["result"]; !ok {
					n.vars["result"] = n.vars[name]
				}
			}
			if isErrorType(sig.Results().At(i).Type()) {
				if _, ok := n.vars["err"]; !ok {
					n.vars["err"] = n.vars[name]
				}
			}
		}
	}
	return n
}

func isErrorType(t types.Type) bool {
	n, ok := t.(*types.Named)
	return ok && n.Obj().Pkg() == nil && n.Obj().Name() == "error"
}

// atExit checks postconditions and the frame at a normal return of the verified function.
func (vc *FuncVC) atExit(st *State, fr *frame, res []Value) {
	vc.exits++
	exitNo := vc.exits
	env := vc.specEnv(st, vc.entry, fr, res)
	pos := fr.fn.Pos()
	for _, sp := range vc.specChain(vc.spec) {
		e2 := vc.rebind(env, sp, fr, res)
		for i, c := range sp.Ensures {
			name := c.Name
			if name == "" {
				name = fmt.Sprintf("%d", i+1)
			}
			if sp != vc.spec {
				name = "inh." + name
			}
			goal := e2.asBool(e2.tr(c.E))
			for _, g := range splitConj(goal, c.E, e2) {
				nm := fmt.Sprintf("post#%s%s@exit%d", name, g.suffix, exitNo)
				vc.emit(st, nm, "post", c.Tags, g.t, c.Src, pos)
			}
		}
	}
	vc.frameObligations(st, vc.entry, fmt.Sprintf("exit%d", exitNo))
	if exitNo <= 8 {
		vc.emitCover(st, fmt.Sprintf("canary.exit%d", exitNo), "exit is reachable (assert false must not be provable)", pos)
	}
	panic(pathEnd{})
}

type conj struct {
	t      Term
	suffix string
}

// splitConj splits a goal that is a top-level conjunction (after predicate expansion) into separately named goals.
func splitConj(goal Term, e Expr, env *Env) []conj {
	// P ==> (A && B && C)  is split into  P ==> A,  P ==> B,  P ==> C
	if strings.HasPrefix(goal.S, "(=> ") {
		args := ctorArgs(goal, "=>")
		if len(args) == 2 && strings.HasPrefix(args[1], "(and ") {
			var out []conj
			for i, p := range topConjuncts(Term{args[1], SBool}) {
				out = append(out, conj{Term{"(=> " + args[0] + " " + p.S + ")", SBool}, fmt.Sprintf(".c%d", i+1)})
			}
			return out
		}
	}
	parts := topConjuncts(goal)
	if len(parts) <= 1 {
		return []conj{{goal, ""}}
	}
	var out []conj
	for i, p := range parts {
		out = append(out, conj{p, fmt.Sprintf(".c%d", i+1)})
	}
	return out
}

// topConjuncts splits "(and a b c)" textually.
func topConjuncts(t Term) []Term {
	s := t.S
	if !strings.HasPrefix(s, "(and ") {
		return []Term{t}
	}
	inner := s[5 : len(s)-1]
	var out []Term
	depth := 0
	start := 0
	for i := 0; i < len(inner); i++ {
		switch inner[i] {
		case '(':
			depth++
		case ')':
			depth--
		case ' ':
			if depth == 0 {
				if i > start {
					out = append(out, Term{inner[start:i], SBool})
				}
				start = i + 1
			}
		}
	}
	if start < len(inner) {
		out = append(out, Term{inner[start:], SBool})
	}
	return out
}

// frameGoal is the statement that one heap changed only where the verified function's modifies clause allows.
type frameGoal struct {
	heap string
	goal Term
}

// frameGoals computes, for every heap whose current version differs from the entry version, the frame condition.
func (vc *FuncVC) frameGoals(st *State, base *State) []frameGoal {
	type modInfo struct {
		whole bool
		ats   []Term
	}
	top := st.fr
	for top.parent != nil {
		top = top.parent
	}
	mods := map[string]*modInfo{}
	modAll := false
	env := vc.specEnv(vc.entry, vc.entry, top, nil)
	for _, sp := range vc.specChain(vc.spec) {
		if sp.ModAll {
			modAll = true
		}
		e2 := vc.rebind(env, sp, top, nil)
		for _, m := range sp.Modifies {
			for _, mt := range e2.modTargets(m) {
				mi := mods[mt.name]
				if mi == nil {
					mi = &modInfo{}
					mods[mt.name] = mi
				}
				if mt.base == nil {
					mi.whole = true
				} else {
					mi.ats = append(mi.ats, *mt.base)
				}
			}
		}
	}
	if modAll {
		return nil
	}
	var out []frameGoal
	for _, name := range sortedKeys(st.heaps) {
		cur := st.heaps[name]
		init, ok := base.heaps[name]
		if !ok {
			init = vc.sc.Const("H."+name+".0", cur.Sort)
		}
		if cur.S == init.S {
			continue
		}
		if strings.HasPrefix(name, "iter.") {
			continue
		}
		mi := mods[name]
		if mi != nil && mi.whole {
			continue
		}
		var goal Term
		if strings.HasPrefix(name, "global.") {
			goal = Eq(cur, init)
		} else {
			r := Term{"r!frame", SRef}
			// objects that existed when the function was entered may change only if listed; objects allocated by the
			// function itself are its own business (the caller sees them only through the postcondition)
			guard := []Term{Select(vc.entry.alloc, r)}
			if mi != nil {
				for _, a := range mi.ats {
					guard = append(guard, Not(Eq(r, a)))
				}
			}
			body := Implies(And(guard...), Eq(Select(cur, r), Select(init, r)))
			goal = Term{fmt.Sprintf("(forall ((r!frame Ref)) (! %s :pattern ((select %s r!frame))))", body.S, cur.S), SBool}
		}
		out = append(out, frameGoal{name, goal})
	}
	return out
}

// frameObligations: every heap changed on this path must be covered by a modifies clause.
func (vc *FuncVC) frameObligations(st *State, base *State, where string) {
	for _, fg := range vc.frameGoals(st, base) {
		vc.emit(st, vc.uniqueName(fmt.Sprintf("frame.%s@%s", shortName(fg.heap), where)), "frame", nil, fg.goal, "heap "+shortName(fg.heap)+" is unchanged except where the contract's modifies clause allows", vc.fn.Pos())
	}
}

// ---------------------------------------------------------------- blocks

func (vc *FuncVC) execBlock(st *State, b *ssa.BasicBlock, prev *ssa.BasicBlock) {
	vc.paths++
	if vc.paths > vc.maxPaths*5 {
		panic(trError{"path budget exceeded"})
	}
	if vc.paths%64 == 0 && time.Since(vc.started) > 120*time.Second {
		panic(trError{"generation time budget (120 s) exceeded"})
	}
	fr := st.fr
	loops := vc.loopsOf(fr.fn)
	if li, ok := loops[b]; ok {
		if ol, open := fr.open[b]; open && prev != nil && li.blocks[prev] {
			// back edge: the invariant must be re-established
			vc.evalPhis(st, b, prev)
			vc.checkInvariant(st, li, "keep", ol)
			if ol.entry != nil {
				vc.frameObligations(st, ol.entry, fmt.Sprintf("loop%d", li.ordinal))
			}
			panic(pathEnd{})
		}
		// loop entry
		vc.evalPhis(st, b, prev)
		vc.checkInvariant(st, li, "init", nil)
		vc.havocLoop(st, li)
		vc.assumeInvariant(st, li)
		vc.execFrom(st, b, vc.firstNonPhi(b))
		return
	}
	vc.evalPhis(st, b, prev)
	vc.execFrom(st, b, vc.firstNonPhi(b))
}

func (vc *FuncVC) firstNonPhi(b *ssa.BasicBlock) int {
	for i, in := range b.Instrs {
		if _, ok := in.(*ssa.Phi); !ok {
			return i
		}
	}
	return len(b.Instrs)
}

func (vc *FuncVC) evalPhis(st *State, b, prev *ssa.BasicBlock) {
	if prev == nil {
		return
	}
	idx := -1
	for i, p := range b.Preds {
		if p == prev {
			idx = i
		}
	}
	vals := map[*ssa.Phi]Value{}
	for _, in := range b.Instrs {
		phi, ok := in.(*ssa.Phi)
		if !ok {
			break
		}
		vals[phi] = vc.get(st, phi.Edges[idx])
	}
	for phi, v := range vals {
		vc.set(st, phi, v)
	}
}

func (vc *FuncVC) loopEnv(st *State, li *loopInfo) *Env {
	fr := st.fr
	env := &Env{vc: vc, st: st, old: vc.entry, vars: map[string]TV{}, pkg: fr.fn.Pkg.Pkg, loop: li}
	for name, lr := range vc.localNames(fr.fn, li.header) {
		v, ok := fr.regs[lr.v]
		if os.Getenv("GOVC_TRACE_IDENT") == name {
			fmt.Fprintf(os.Stderr, "loopEnv %s: ssa %s (%T) isAddr=%v bound=%v val=%v\n", name, lr.v.Name(), lr.v, lr.isAddr, ok, v)
		}
		if !ok {
			if c, isConst := lr.v.(*ssa.Const); isConst {
				v = vc.constValue(c)
			} else {
				continue
			}
		}
		if lr.isAddr {
			pt, isPtr := lr.v.Type().Underlying().(*types.Pointer)
			if !isPtr {
				continue
			}
			func() {
				defer func() {
					if r := recover(); r != nil {
						if _, ok := r.(trError); ok {
							return
						}
						panic(r)
					}
				}()
				// do not add type-invariant assumptions while reading names for specs
				save := st.pc
				val := vc.load(st, v, pt.Elem())
				st.pc = save
				env.vars[name] = env.valueTV(val, pt.Elem())
			}()
			continue
		}
		func() {
			defer func() {
				if r := recover(); r != nil {
					if _, ok := r.(trError); ok {
						return
					}
					panic(r)
				}
			}()
			env.vars[name] = env.valueTV(v, lr.v.Type())
		}()
	}
	// the contract's own parameter names for the top-level function
	if fr.spec != nil && len(fr.spec.Params) > 0 {
		for i, p := range fr.fn.Params {
			if i < len(fr.spec.Params) {
				if cl, isCl := fr.regs[p].(*ClosureVal); isCl {
					// a contract specialised to this closure sees its captured variables by name
					vc.bindClosureVars(env, st, cl)
					continue
				}
				env.vars[fr.spec.Params[i]] = env.valueTV(fr.regs[p], p.Type())
			}
		}
	}
	return env
}

func (vc *FuncVC) checkInvariant(st *State, li *loopInfo, phase string, ol *openLoop) {
	if li.spec == nil {
		if phase == "keep" {
			return
		}
		return
	}
	env := vc.loopEnv(st, li)
	for i, c := range li.spec.Invs {
		name := c.Name
		if name == "" {
			name = fmt.Sprintf("%d", i+1)
		}
		goal := env.asBool(env.tr(c.E))
		for _, g := range splitConj(goal, c.E, env) {
			nm := vc.uniqueName(fmt.Sprintf("inv%d.%s#%s%s", li.ordinal, phase, name, g.suffix))
			vc.emit(st, nm, "inv."+phase, c.Tags, g.t, c.Src, li.header.Instrs[0].Pos())
		}
	}
	if phase == "keep" && li.spec.Decreases != nil && ol != nil && ol.variant != nil {
		v := env.tr(li.spec.Decreases.E).T
		goal := And(Le(IntLit(0), *ol.variant), Lt(v, *ol.variant))
		vc.emit(st, vc.uniqueName(fmt.Sprintf("dec%d", li.ordinal)), "dec", li.spec.Decreases.Tags, goal, "variant decreases and is bounded below: "+li.spec.Decreases.Src, li.header.Instrs[0].Pos())
	}
}

func (vc *FuncVC) uniqueName(base string) string {
	vc.counts[base]++
	if vc.counts[base] == 1 {
		return base
	}
	return fmt.Sprintf("%s~%d", base, vc.counts[base])
}

func (vc *FuncVC) havocLoop(st *State, li *loopInfo) {
	fr := st.fr
	pre := st.snapshot()
	// registers: header phis
	for _, in := range li.header.Instrs {
		phi, ok := in.(*ssa.Phi)
		if !ok {
			break
		}
		old := fr.regs[phi]
		nv := vc.freshValue(st, "phi."+phi.Name(), phi.Type())
		// a range index only grows: keep that it is >= its initial value
		if phi == li.rangeIdx {
			if t, ok := nv.(Term); ok && t.Sort == SInt {
				if o, ok := old.(Term); ok {
					st.assume(Ge(t, o))
				}
				// structural invariant of `for i := range x`: the header is  i' = i+1; if i' < n  with n fixed before the
				// loop, the index starts at -1 and is only ever replaced by i': hence i+1 <= n at every visit of the header.
				for _, hin := range li.header.Instrs {
					cmp, ok := hin.(*ssa.BinOp)
					if !ok || cmp.Op != token.LSS {
						continue
					}
					add, ok := cmp.X.(*ssa.BinOp)
					if !ok || add.Op != token.ADD || add.X != ssa.Value(phi) {
						continue
					}
					if ni, isInstr := cmp.Y.(ssa.Instruction); isInstr && li.blocks[ni.Block()] {
						continue
					}
					if nt, ok := vc.get(st, cmp.Y).(Term); ok && nt.Sort == SInt {
						st.assume(Le(Add(t, IntLit(1)), nt))
					}
				}
			}
		}
		fr.regs[phi] = nv
	}
	// heaps
	if li.mods["*"] {
		for _, name := range sortedKeys(vc.heapSorts) {
			if name == "$alloc" {
				continue
			}
			st.setHeap(name, vc.fresh(st, "H."+name, vc.heapSorts[name]))
		}
		vc.warn("loop %d of %s havocs every heap (unspecified call inside)", li.ordinal, fr.fn.Name())
	} else {
		for _, name := range sortedKeys(li.mods) {
			if name == "$alloc" {
				continue
			}
			s, ok := vc.heapSorts[name]
			if !ok {
				// the heap has not been touched before the loop: declare it lazily with the sort it will get
				continue
			}
			st.setHeap(name, vc.fresh(st, "H."+name, s))
		}
	}
	if li.mods["$alloc"] || li.mods["*"] {
		vc.havocAlloc(st)
	}
	// the function's frame is an implicit loop invariant (checked at every back edge and exit)
	// (relative to the state in which the loop was entered)
	for _, fg := range vc.frameGoals(st, pre) {
		st.assume(fg.goal)
	}
	fr.open[li.header] = &openLoop{entry: pre}
}

func (vc *FuncVC) havocAlloc(st *State) {
	na := vc.fresh(st, "alloc", ArraySort(SRef, SBool))
	st.assume(Term{fmt.Sprintf("(forall ((r!a Ref)) (=> (select %s r!a) (select %s r!a)))", st.alloc.S, na.S), SBool})
	st.assume(Not(Select(na, tNull)))
	st.alloc = na
}

func (vc *FuncVC) assumeInvariant(st *State, li *loopInfo) {
	if li.spec == nil {
		return
	}
	env := vc.loopEnv(st, li)
	for _, c := range li.spec.Invs {
		st.assume(env.asBool(env.tr(c.E)))
	}
	if li.spec.Decreases != nil {
		v := env.tr(li.spec.Decreases.E).T
		c := vc.fresh(st, "variant", SInt)
		st.assume(Eq(c, v))
		st.fr.open[li.header].variant = &c
	}
	vc.emitCover(st, vc.uniqueName(fmt.Sprintf("cover.loop%d", li.ordinal)), "loop invariant is satisfiable", li.header.Instrs[0].Pos())
}

// ---------------------------------------------------------------- instructions

func (vc *FuncVC) execFrom(st *State, b *ssa.BasicBlock, i int) {
	for ; i < len(b.Instrs); i++ {
		in := b.Instrs[i]
		switch x := in.(type) {
		case *ssa.DebugRef:
			continue
		case *ssa.If:
			c := vc.term(st, x.Cond)
			if c.S == "true" {
				vc.execBlock(st, b.Succs[0], b)
				return
			}
			if c.S == "false" {
				vc.execBlock(st, b.Succs[1], b)
				return
			}
			st2 := st.clone()
			st.assume(c)
			st2.assume(Not(c))
			st.trace = append(st.trace, fmt.Sprintf("%s: then", vc.pos(x.Cond.Pos())))
			st2.trace = append(st2.trace, fmt.Sprintf("%s: else", vc.pos(x.Cond.Pos())))
			vc.run(func() { vc.execBlock(st, b.Succs[0], b) })
			vc.run(func() { vc.execBlock(st2, b.Succs[1], b) })
			panic(pathEnd{})
		case *ssa.Jump:
			vc.execBlock(st, b.Succs[0], b)
			return
		case *ssa.Return:
			var res []Value
			for _, r := range x.Results {
				res = append(res, vc.get(st, r))
			}
			vc.doReturn(st, res)
			return
		case *ssa.Panic:
			vc.doPanic(st, vc.term(st, x.X), x.Pos())
			return
		case *ssa.RunDefers:
			j := i
			vc.runDefers(st, func(st *State) { vc.execFrom(st, b, j+1) })
			return
		case *ssa.Defer:
			d := deferred{call: &x.Call, instr: x}
			if !x.Call.IsInvoke() {
				d.fn = vc.get(st, x.Call.Value)
			} else {
				d.fn = vc.get(st, x.Call.Value)
			}
			for _, a := range x.Call.Args {
				d.args = append(d.args, vc.get(st, a))
			}
			st.fr.defers = append(st.fr.defers, d)
		case *ssa.Go, *ssa.Send, *ssa.Select:
			panic(trError{fmt.Sprintf("%s: goroutines and channel operations are outside the supported subset", vc.pos(in.Pos()))})
		case *ssa.Call:
			j := i
			var args []Value
			for _, a := range x.Call.Args {
				args = append(args, vc.get(st, a))
			}
			var fv Value
			fv = vc.get(st, x.Call.Value)
			vc.pointAsserts(st, b, x, false, nil)
			vc.execCall(st, &x.Call, fv, args, x.Pos(), func(st *State, res Value) {
				if res != nil {
					vc.set(st, x, res)
				}
				vc.pointAsserts(st, b, x, true, res)
				vc.execFrom(st, b, j+1)
			})
			return
		case *ssa.Store:
			vc.execStore(st, x)
		case *ssa.MapUpdate:
			vc.execMapUpdate(st, x)
		case ssa.Value:
			vc.set(st, x, vc.eval(st, x))
		default:
			panic(trError{fmt.Sprintf("unsupported instruction %T", in)})
		}
	}
}

func (vc *FuncVC) doReturn(st *State, res []Value) {
	fr := st.fr
	k := fr.retK
	if fr.parent != nil {
		st.fr = fr.parent
	}
	k(st, res)
}

// doPanic handles a user-level panic(v).
func (vc *FuncVC) doPanic(st *State, v Term, pos token.Pos) {
	st.panicV = &v
	vc.unwind(st, pos)
}

// unwind runs the deferred calls of the current frame while panicking, then propagates.
func (vc *FuncVC) unwind(st *State, pos token.Pos) {
	fr := st.fr
	vc.runDefers(st, func(st *State) {
		if st.panicV == nil {
			// recovered: the function returns normally through its recover block
			if fr.fn.Recover != nil {
				vc.execBlock(st, fr.fn.Recover, nil)
				return
			}
			var res []Value
			sig := fr.fn.Signature
			for i := 0; i < sig.Results().Len(); i++ {
				res = append(res, vc.zero(sig.Results().At(i).Type()))
			}
			vc.doReturn(st, res)
			return
		}
		if fr.parent != nil {
			st.fr = fr.parent
			if fr.panicK != nil {
				fr.panicK(st)
				return
			}
			vc.unwind(st, pos)
			return
		}
		// escaping the verified function
		vc.atPanicExit(st, pos)
	})
}

func (vc *FuncVC) atPanicExit(st *State, pos token.Pos) {
	raises := ""
	var tags []string
	for _, sp := range vc.specChain(vc.spec) {
		if sp.Raises != "" {
			raises = sp.Raises
		}
	}
	if raises == "" {
		vc.emit(st, vc.uniqueName("safe.panic"), "safe", tags, tFalse, "no panic escapes the function", pos)
	} else {
		// the panic value must be an error (so that a deferred recover can convert it)
		errT := types.Universe.Lookup("error").Type()
		vc.emit(st, vc.uniqueName("raise.iserror"), "safe", tags, vc.implementsIface(st, *st.panicV, errT.Underlying().(*types.Interface)), "a propagated panic carries an error value", pos)
	}
	panic(pathEnd{})
}

func (vc *FuncVC) runDefers(st *State, k func(st *State)) {
	fr := st.fr
	if len(fr.defers) == 0 {
		k(st)
		return
	}
	d := fr.defers[len(fr.defers)-1]
	fr.defers = fr.defers[:len(fr.defers)-1]
	vc.execCall(st, d.call, d.fn, d.args, d.instr.Pos(), func(st *State, _ Value) {
		vc.runDefers(st, k)
	})
}

func (vc *FuncVC) safety(st *State, kind string, goal Term, desc string, pos token.Pos) {
	vc.emit(st, vc.uniqueName(kind), "safe", nil, goal, desc, pos)
	st.assume(goal)
}

func (vc *FuncVC) execStore(st *State, x *ssa.Store) {
	addr := vc.get(st, x.Addr)
	vc.nilCheck(st, addr, x.Pos(), "store through nil pointer")
	vc.lockCheck(st, addr, true, x.Pos())
	vc.store(st, addr, vc.get(st, x.Val), x.Val.Type())
}

func (vc *FuncVC) nilCheck(st *State, p Value, pos token.Pos, what string) {
	var base Term
	switch x := p.(type) {
	case PtrVal:
		if strings.HasPrefix(x.Path, "global.") {
			return
		}
		base = x.Base
	case Term:
		base = x
	default:
		return
	}
	if vc.knownNonNil(st, base) {
		return
	}
	vc.safety(st, "safe.nil", Not(Eq(base, tNull)), what, pos)
}

func (vc *FuncVC) knownNonNil(st *State, t Term) bool {
	want := "(not (= " + t.S + " null))"
	for _, a := range st.pc {
		if a.S == want {
			return true
		}
	}
	return false
}

func (vc *FuncVC) execMapUpdate(st *State, x *ssa.MapUpdate) {
	m := vc.term(st, x.Map)
	mt := x.Map.Type().Underlying().(*types.Map)
	vc.safety(st, "safe.mapw", Not(Eq(m, tNull)), "assignment to entry in nil map", x.Pos())
	k := vc.mapKey(st, vc.get(st, x.Key), mt)
	v := vc.term(st, x.Value)
	vc.mapStore(st, mt, m, k, &v)
}

func (vc *FuncVC) mapKey(st *State, k Value, mt *types.Map) Term {
	switch x := k.(type) {
	case Term:
		return x
	case *StructVal:
		ks := vc.mapKeySort(mt)
		if !vc.sc.declared["sortdecl."+string(ks)] {
			vc.sc.declared["sortdecl."+string(ks)] = true
			vc.sc.prelude = append(vc.sc.prelude, fmt.Sprintf("(declare-sort %s 0)", ks))
		}
		var sorts []Sort
		var ts []Term
		for _, f := range x.F {
			t := f.(Term)
			sorts = append(sorts, t.Sort)
			ts = append(ts, t)
		}
		f := vc.sc.Func("mkkey."+string(ks), sorts, ks)
		// injectivity is not needed for soundness of lookups after updates with the same key
		return mk(ks, f, ts...)
	}
	panic(trError{"unsupported map key"})
}

func (vc *FuncVC) mapHeaps(st *State, mt *types.Map) (Term, Term) {
	ks := vc.mapKeySort(mt)
	vs := vc.sortOf(mt.Elem())
	if vs == "" {
		panic(trError{"maps with struct values are not supported"})
	}
	h := st.heap(vc, "map."+typeKey(mt), ArraySort(SRef, ArraySort(ks, vs)))
	d := st.heap(vc, "dom."+typeKey(mt), ArraySort(SRef, ArraySort(ks, SBool)))
	return h, d
}

// mapStore writes m[k] = v (v == nil: delete).
func (vc *FuncVC) mapStore(st *State, mt *types.Map, m, k Term, v *Term) {
	h, d := vc.mapHeaps(st, mt)
	if v != nil {
		nh := vc.fresh(st, "H.map", h.Sort)
		st.assume(Eq(nh, Store(h, m, Store(Select(h, m), k, *v))))
		st.setHeap("map."+typeKey(mt), nh)
		nd := vc.fresh(st, "H.dom", d.Sort)
		st.assume(Eq(nd, Store(d, m, Store(Select(d, m), k, tTrue))))
		st.setHeap("dom."+typeKey(mt), nd)
	} else {
		nd := vc.fresh(st, "H.dom", d.Sort)
		st.assume(Eq(nd, Store(d, m, Store(Select(d, m), k, tFalse))))
		st.setHeap("dom."+typeKey(mt), nd)
	}
}

// eval computes the value of a value-producing instruction.
func (vc *FuncVC) eval(st *State, v ssa.Value) Value {
	switch x := v.(type) {
	case *ssa.Alloc:
		return vc.execAlloc(st, x)
	case *ssa.FieldAddr:
		base := vc.get(st, x.X)
		vc.nilCheck(st, base, x.Pos(), "field access through nil pointer")
		var p PtrVal
		switch b := base.(type) {
		case PtrVal:
			p = b
		case Term:
			p = PtrVal{Base: b, T: x.X.Type().Underlying().(*types.Pointer).Elem()}
		}
		return vc.fieldPtr(p, x.Field)
	case *ssa.Field:
		sv, ok := vc.get(st, x.X).(*StructVal)
		if !ok {
			panic(trError{"field of non-struct value"})
		}
		return sv.F[x.Field]
	case *ssa.IndexAddr:
		return vc.execIndexAddr(st, x)
	case *ssa.Index:
		if isString(x.X.Type()) {
			sv := vc.term(st, x.X)
			iv := vc.term(st, x.Index)
			vc.safety(st, "safe.idx", vc.inBounds(iv, mk(SInt, "slen", sv)), "string index out of range", x.Pos())
			return mk(SInt, "sat", sv, iv)
		}
		panic(trError{"indexing array values is not supported"})
	case *ssa.UnOp:
		return vc.execUnOp(st, x)
	case *ssa.BinOp:
		return vc.execBinOp(st, x)
	case *ssa.Phi:
		panic(trError{"phi outside block start"})
	case *ssa.Extract:
		tv, ok := vc.get(st, x.Tuple).(TupleVal)
		if !ok {
			panic(trError{fmt.Sprintf("extract from non-tuple %T", vc.get(st, x.Tuple))})
		}
		return tv[x.Index]
	case *ssa.Convert:
		return vc.execConvert(st, x)
	case *ssa.ChangeType:
		return vc.get(st, x.X)
	case *ssa.ChangeInterface:
		return vc.get(st, x.X)
	case *ssa.MakeInterface:
		return vc.makeIface(st, vc.get(st, x.X), x.X.Type())
	case *ssa.TypeAssert:
		return vc.execTypeAssert(st, x)
	case *ssa.MakeMap:
		r := vc.allocate(st, "map")
		mt := x.Type().Underlying().(*types.Map)
		_, d := vc.mapHeaps(st, mt)
		nd := vc.fresh(st, "H.dom", d.Sort)
		ks := vc.mapKeySort(mt)
		st.assume(Eq(nd, Store(d, r, Term{fmt.Sprintf("((as const (Array %s Bool)) false)", ks), ArraySort(ks, SBool)})))
		st.setHeap("dom."+typeKey(mt), nd)
		return r
	case *ssa.MakeSlice:
		return vc.execMakeSlice(st, x)
	case *ssa.MakeClosure:
		c := &ClosureVal{Fn: x.Fn.(*ssa.Function)}
		for _, b := range x.Bindings {
			c.Bind = append(c.Bind, vc.get(st, b))
		}
		return c
	case *ssa.Lookup:
		return vc.execLookup(st, x)
	case *ssa.Slice:
		return vc.execSlice(st, x)
	case *ssa.Range:
		return vc.execRange(st, x)
	case *ssa.Next:
		return vc.execNext(st, x)
	}
	panic(trError{fmt.Sprintf("%s: unsupported instruction %T", vc.pos(v.Pos()), v)})
}

func (vc *FuncVC) execAlloc(st *State, x *ssa.Alloc) Value {
	t := x.Type().Underlying().(*types.Pointer).Elem()
	r := vc.allocate(st, "new."+strings.ReplaceAll(x.Comment, " ", "_"))
	switch u := t.Underlying().(type) {
	case *types.Array:
		// array object: element leaves live in the same heaps as slice backing arrays
		vc.initArray(st, r, u.Elem(), IntLit(u.Len()))
		return r
	}
	vc.storeAt(st, PtrVal{Base: r, T: t}, vc.zero(t))
	vc.initGhost(st, r, typeKey(t), t, 0)
	return r
}

// initGhost gives the integer and boolean ghost fields of a freshly allocated object (and of the external structs
// embedded in it, e.g. sync.Mutex.held) their zero values, like Go does for real fields.
func (vc *FuncVC) initGhost(st *State, r Term, prefix string, t types.Type, depth int) {
	for _, g := range vc.w.specs.Ghosts {
		var gpkg *types.Package
		if g.Pkg != "" {
			gpkg = vc.w.typPkgs[g.Pkg]
		}
		gt := vc.w.LookupType(g.Type, gpkg)
		if gt == nil || !types.Identical(gt, t) {
			continue
		}
		var gs Sort
		func() {
			defer func() { recover() }()
			gs, _ = vc.specSort(g.Sort, gpkg)
		}()
		var z Term
		switch gs {
		case SInt:
			z = IntLit(0)
		case SBool:
			z = tFalse
		default:
			continue
		}
		name := prefix + "." + g.Field
		hs := ArraySort(SRef, gs)
		h := st.heap(vc, name, hs)
		nh := vc.fresh(st, "H."+name, hs)
		st.assume(Eq(nh, Store(h, r, z)))
		st.setHeap(name, nh)
	}
	if depth >= 1 {
		return
	}
	if u, ok := t.Underlying().(*types.Struct); ok {
		for i := 0; i < u.NumFields(); i++ {
			ft := u.Field(i).Type()
			if _, isStruct := ft.Underlying().(*types.Struct); isStruct {
				if n, isNamed := ft.(*types.Named); isNamed && !vc.isLocalStruct(n) {
					vc.initGhost(st, r, prefix+"."+u.Field(i).Name(), ft, depth+1)
				}
			}
		}
	}
}

// initArray zero-initialises elements [0,n) of a fresh array object.
func (vc *FuncVC) initArray(st *State, r Term, elem types.Type, n Term) {
	leaves := map[string]bool{}
	vc.leafHeaps("[]"+typeKey(elem), elem, leaves)
	for _, name := range sortedKeys(leaves) {
		lt := vc.leafType(elem, strings.TrimPrefix(name, "[]"+typeKey(elem)))
		s := vc.sortOf(lt)
		hs := ArraySort(SRef, ArraySort(SInt, s))
		h := st.heap(vc, name, hs)
		nh := vc.fresh(st, "H."+name, hs)
		z := vc.zero(lt).(Term)
		st.assume(Eq(nh, Store(h, r, Term{fmt.Sprintf("((as const (Array Int %s)) %s)", s, z.S), ArraySort(SInt, s)})))
		st.setHeap(name, nh)
	}
}

// leafType follows a ".f.g" path below type t.
func (vc *FuncVC) leafType(t types.Type, path string) types.Type {
	for _, f := range strings.Split(path, ".") {
		if f == "" {
			continue
		}
		f = strings.TrimSuffix(f, "[]")
		st, ok := t.Underlying().(*types.Struct)
		if !ok {
			panic(trError{"leafType: not a struct"})
		}
		for i := 0; i < st.NumFields(); i++ {
			if st.Field(i).Name() == f {
				t = st.Field(i).Type()
				if a, ok := t.Underlying().(*types.Array); ok {
					t = a.Elem()
				}
				break
			}
		}
	}
	return t
}

func (vc *FuncVC) execIndexAddr(st *State, x *ssa.IndexAddr) Value {
	idx := vc.term(st, x.Index)
	switch u := x.X.Type().Underlying().(type) {
	case *types.Slice:
		s := vc.term(st, x.X)
		vc.safety(st, "safe.idx", vc.inBounds(idx, SLen(s)), "index out of range", x.Pos())
		off := vc.intAdd(SOff(s), idx)
		return PtrVal{Base: SArr(s), Path: "[]" + typeKey(u.Elem()), Idx: &off, T: u.Elem()}
	case *types.Pointer:
		arr := u.Elem().Underlying().(*types.Array)
		base := vc.get(st, x.X)
		vc.nilCheck(st, base, x.Pos(), "index through nil array pointer")
		vc.safety(st, "safe.idx", vc.inBounds(idx, vc.intLit(arr.Len())), "index out of range", x.Pos())
		switch b := base.(type) {
		case Term:
			return PtrVal{Base: b, Path: "[]" + typeKey(arr.Elem()), Idx: &idx, T: arr.Elem()}
		case PtrVal:
			if b.Path == "" {
				return PtrVal{Base: b.Base, Path: "[]" + typeKey(arr.Elem()), Idx: &idx, T: arr.Elem()}
			}
			if b.Idx != nil {
				panic(trError{"nested array indexing is not supported"})
			}
			return PtrVal{Base: b.Base, Path: b.Path + "[]", Idx: &idx, T: arr.Elem()}
		}
	}
	panic(trError{"unsupported IndexAddr"})
}

func (vc *FuncVC) intLit(n int64) Term {
	if vc.bv {
		return BVLit(uint64(n))
	}
	return IntLit(n)
}

func (vc *FuncVC) intAdd(a, b Term) Term {
	if b.Sort == SBV64 {
		b = mk(SInt, "bv2nat", b)
	}
	if a.S == "0" {
		return b
	}
	return Add(a, b)
}

func (vc *FuncVC) inBounds(i, n Term) Term {
	if i.Sort == SBV64 {
		if n.Sort != SBV64 {
			return And(Lt(mk(SInt, "bv2nat", i), n))
		}
		return mk(SBool, "bvult", i, n)
	}
	return And(Le(IntLit(0), i), Lt(i, n))
}

func (vc *FuncVC) execUnOp(st *State, x *ssa.UnOp) Value {
	switch x.Op {
	case token.MUL:
		p := vc.get(st, x.X)
		vc.nilCheck(st, p, x.Pos(), "nil pointer dereference")
		vc.lockCheck(st, p, false, x.Pos())
		return vc.load(st, p, x.Type())
	case token.NOT:
		return Not(vc.term(st, x.X))
	case token.SUB:
		t := vc.term(st, x.X)
		if t.Sort == SBV64 {
			return mk(SBV64, "bvneg", t)
		}
		return wrap(mk(SInt, "-", t), x.Type())
	case token.XOR:
		t := vc.term(st, x.X)
		if t.Sort == SBV64 {
			return mk(SBV64, "bvnot", t)
		}
		if isUnsigned(x.Type()) {
			bits, _ := typeBits(x.Type())
			return Sub(Sub(pow2(bits), IntLit(1)), t)
		}
		return Sub(mk(SInt, "-", t), IntLit(1))
	}
	panic(trError{fmt.Sprintf("%s: unsupported unary operator %s", vc.pos(x.Pos()), x.Op)})
}

func (vc *FuncVC) execBinOp(st *State, x *ssa.BinOp) Value {
	a := vc.get(st, x.X)
	b := vc.get(st, x.Y)
	switch x.Op {
	case token.EQL, token.NEQ:
		eq := vc.valuesEqual(st, a, b, x.X.Type())
		if x.Op == token.NEQ {
			return Not(eq)
		}
		return eq
	}
	at := vc.term(st, x.X)
	bt := vc.term(st, x.Y)
	t := x.X.Type()
	if at.Sort == SStr {
		switch x.Op {
		case token.ADD:
			return mk(SStr, "scat", at, bt)
		case token.LSS:
			return mk(SBool, "sless", at, bt)
		case token.GTR:
			return mk(SBool, "sless", bt, at)
		case token.LEQ:
			return Not(mk(SBool, "sless", bt, at))
		case token.GEQ:
			return Not(mk(SBool, "sless", at, bt))
		}
	}
	if at.Sort == SBV64 {
		signed := !isUnsigned(t)
		switch x.Op {
		case token.ADD:
			return mk(SBV64, "bvadd", at, bt)
		case token.SUB:
			return mk(SBV64, "bvsub", at, bt)
		case token.MUL:
			return mk(SBV64, "bvmul", at, bt)
		case token.AND:
			return mk(SBV64, "bvand", at, bt)
		case token.OR:
			return mk(SBV64, "bvor", at, bt)
		case token.XOR:
			return mk(SBV64, "bvxor", at, bt)
		case token.AND_NOT:
			return mk(SBV64, "bvand", at, mk(SBV64, "bvnot", bt))
		case token.SHL:
			return mk(SBV64, "bvshl", at, bt)
		case token.SHR:
			if signed {
				return mk(SBV64, "bvashr", at, bt)
			}
			return mk(SBV64, "bvlshr", at, bt)
		case token.LSS, token.LEQ, token.GTR, token.GEQ:
			ops := map[token.Token][2]string{token.LSS: {"bvult", "bvslt"}, token.LEQ: {"bvule", "bvsle"}, token.GTR: {"bvugt", "bvsgt"}, token.GEQ: {"bvuge", "bvsge"}}
			op := ops[x.Op][0]
			if signed {
				op = ops[x.Op][1]
			}
			return mk(SBool, op, at, bt)
		case token.QUO, token.REM:
			vc.safety(st, "safe.div", Not(Eq(bt, BVLit(0))), "division by zero", x.Pos())
			if x.Op == token.QUO {
				if signed {
					return mk(SBV64, "bvsdiv", at, bt)
				}
				return mk(SBV64, "bvudiv", at, bt)
			}
			if signed {
				return mk(SBV64, "bvsrem", at, bt)
			}
			return mk(SBV64, "bvurem", at, bt)
		}
	}
	if at.Sort == SBool {
		switch x.Op {
		case token.AND, token.LAND:
			return And(at, bt)
		case token.OR, token.LOR:
			return Or(at, bt)
		}
	}
	switch x.Op {
	case token.ADD:
		return wrap1(Add(at, bt), x.Type())
	case token.SUB:
		return wrap1(Sub(at, bt), x.Type())
	case token.MUL:
		return wrap(Mul(at, bt), x.Type())
	case token.QUO:
		vc.safety(st, "safe.div", Not(Eq(bt, IntLit(0))), "division by zero", x.Pos())
		return wrap(mk(SInt, "godiv", at, bt), x.Type())
	case token.REM:
		vc.safety(st, "safe.div", Not(Eq(bt, IntLit(0))), "division by zero", x.Pos())
		return mk(SInt, "gomod", at, bt)
	case token.LSS:
		return Lt(at, bt)
	case token.LEQ:
		return Le(at, bt)
	case token.GTR:
		return Gt(at, bt)
	case token.GEQ:
		return Ge(at, bt)
	case token.SHL:
		if c, ok := x.Y.(*ssa.Const); ok {
			if n, ok2 := constInt(c); ok2 && n < 64 {
				return wrap(Mul(at, pow2(uint(n))), x.Type())
			}
		}
	case token.SHR:
		if c, ok := x.Y.(*ssa.Const); ok {
			if n, ok2 := constInt(c); ok2 && n < 64 {
				return mk(SInt, "div", at, pow2(uint(n)))
			}
		}
	}
	// bit operations in integer mode: uninterpreted, range-constrained
	name := map[token.Token]string{token.AND: "bitand", token.OR: "bitor", token.XOR: "bitxor", token.AND_NOT: "bitandnot", token.SHL: "bitshl", token.SHR: "bitshr"}[x.Op]
	if name == "" {
		panic(trError{fmt.Sprintf("%s: unsupported binary operator %s", vc.pos(x.Pos()), x.Op)})
	}
	f := vc.sc.Func(name, []Sort{SInt, SInt}, SInt)
	r := mk(SInt, f, at, bt)
	st.assume(vc.rangeAssumption(r, x.Type()))
	vc.warn("bit operation %s in integer mode is uninterpreted (%s)", x.Op, vc.pos(x.Pos()))
	return r
}

func constInt(c *ssa.Const) (int64, bool) {
	if c.Value == nil {
		return 0, false
	}
	return c.Int64(), true
}

func (vc *FuncVC) valuesEqual(st *State, a, b Value, t types.Type) Term {
	switch x := a.(type) {
	case *StructVal:
		y := b.(*StructVal)
		var cs []Term
		u := x.T.Underlying().(*types.Struct)
		for i := range x.F {
			cs = append(cs, vc.valuesEqual(st, x.F[i], y.F[i], u.Field(i).Type()))
		}
		return And(cs...)
	}
	at := vc.valTerm(st, a)
	bt := vc.valTerm(st, b)
	if at.Sort == SSlice {
		// only comparison with nil is legal in Go
		if bt.S == nilSlice.S {
			return Eq(SArr(at), tNull)
		}
		return Eq(SArr(bt), tNull)
	}
	if at.Sort == SIface {
		if bt.S == nilIface.S {
			return Eq(ITag(at), IntLit(0))
		}
		if at.S == nilIface.S {
			return Eq(ITag(bt), IntLit(0))
		}
	}
	return Eq(at, bt)
}

func (vc *FuncVC) valTerm(st *State, v Value) Term {
	switch x := v.(type) {
	case Term:
		return x
	case PtrVal:
		return vc.ptrTerm(x)
	case *ClosureVal:
		return vc.closureRef(st, x)
	}
	panic(trError{fmt.Sprintf("value %T is not a scalar", v)})
}

func (vc *FuncVC) execConvert(st *State, x *ssa.Convert) Value {
	from := x.X.Type()
	to := x.Type()
	v := vc.get(st, x.X)
	switch {
	case isInteger(from) && isInteger(to):
		t := v.(Term)
		if t.Sort == SBV64 {
			bits, signed := typeBits(to)
			if bits == 64 {
				return t
			}
			// truncate and re-extend
			ext := "zero_extend"
			if signed {
				ext = "sign_extend"
			}
			return Term{fmt.Sprintf("((_ %s %d) ((_ extract %d 0) %s))", ext, 64-bits, bits-1, t.S), SBV64}
		}
		flo, fhi, _ := intRange(from)
		tlo, thi, _ := intRange(to)
		if flo.Cmp(tlo) >= 0 && fhi.Cmp(thi) <= 0 {
			return t
		}
		return wrap(t, to)
	case isString(from) && isByteSlice(to):
		s := v.(Term)
		r := vc.allocate(st, "bytes")
		n := mk(SInt, "slen", s)
		hs := ArraySort(SRef, ArraySort(SInt, SInt))
		h := st.heap(vc, "[]uint8", hs)
		nh := vc.fresh(st, "H.[]uint8", hs)
		st.assume(Eq(nh, Store(h, r, mk(ArraySort(SInt, SInt), "sbytes", s))))
		st.setHeap("[]uint8", nh)
		cp := vc.fresh(st, "cap", SInt)
		st.assume(And(Le(n, cp), Le(cp, pow2(maxLenBits))))
		return MkSlice(r, IntLit(0), n, cp)
	case isByteSlice(from) && isString(to):
		sl := v.(Term)
		h := st.heap(vc, "[]uint8", ArraySort(SRef, ArraySort(SInt, SInt)))
		f := vc.sc.Func("strof", []Sort{ArraySort(SInt, SInt), SInt, SInt}, SStr)
		r := mk(SStr, f, Select(h, SArr(sl)), SOff(sl), SLen(sl))
		st.assume(Eq(mk(SInt, "slen", r), SLen(sl)))
		return r
	case isInteger(from) && isString(to):
		f := vc.sc.Func("runestr", []Sort{SInt}, SStr)
		return mk(SStr, f, v.(Term))
	}
	if types.Identical(from.Underlying(), to.Underlying()) {
		return v
	}
	// pointer conversions etc.
	if vc.sortOf(from) == vc.sortOf(to) && vc.sortOf(to) != "" {
		return v
	}
	panic(trError{fmt.Sprintf("%s: unsupported conversion %s -> %s", vc.pos(x.Pos()), from, to)})
}

func isByteSlice(t types.Type) bool {
	s, ok := t.Underlying().(*types.Slice)
	if !ok {
		return false
	}
	b, ok := s.Elem().Underlying().(*types.Basic)
	return ok && b.Kind() == types.Uint8
}

// makeIface boxes a value into an interface value.
func (vc *FuncVC) makeIface(st *State, v Value, t types.Type) Term {
	if it, isIface := t.Underlying().(*types.Interface); isIface {
		iv := v.(Term)
		if it.NumMethods() > 0 {
			st.assume(Implies(Not(Eq(ITag(iv), IntLit(0))), vc.implementsIface(st, iv, it)))
		}
		return iv
	}
	tag := IntLit(int64(vc.w.TagOf(t)))
	switch vc.sortOf(t) {
	case SRef:
		return vc.mkIface(tag, vc.valTerm(st, v))
	case "":
		// struct value: box with one leaf heap per field
		r := vc.allocate(st, "box")
		vc.storeAt(st, PtrVal{Base: r, Path: "box." + typeKey(t), T: t}, v)
		return vc.mkIface(tag, r)
	}
	r := vc.allocate(st, "box")
	name := "box." + typeKey(t)
	val := v.(Term)
	hs := ArraySort(SRef, val.Sort)
	h := st.heap(vc, name, hs)
	nh := vc.fresh(st, "H."+name, hs)
	st.assume(Eq(nh, Store(h, r, val)))
	st.setHeap(name, nh)
	return vc.mkIface(tag, r)
}

// implementsIface: does the dynamic type of interface value v implement iface?
func (vc *FuncVC) implementsIface(st *State, v Term, iface *types.Interface) Term {
	if iface.NumMethods() == 0 {
		return Not(Eq(ITag(v), IntLit(0)))
	}
	// known tags are decided statically; unknown tags through an uninterpreted predicate
	f := vc.sc.Func("implements."+mangle(iface.String()), []Sort{SInt}, SBool)
	vc.w.mu.Lock()
	tts := append([]types.Type(nil), vc.w.tagTypes...)
	vc.w.mu.Unlock()
	for i, tt := range tts {
		val := tFalse
		if types.Implements(tt, iface) {
			val = tTrue
		}
		fact := Eq(mk(SBool, f, IntLit(int64(i+1))), val)
		key := "impl:" + fact.S
		if !vc.namedOnce[key] {
			vc.namedOnce[key] = true
			vc.implFacts = append(vc.implFacts, fact)
		}
	}
	return And(Not(Eq(ITag(v), IntLit(0))), mk(SBool, f, ITag(v)))
}

func (vc *FuncVC) execTypeAssert(st *State, x *ssa.TypeAssert) Value {
	v := vc.term(st, x.X)
	var ok Term
	var val Value
	if it, isIface := x.AssertedType.Underlying().(*types.Interface); isIface {
		ok = vc.implementsIface(st, v, it)
		val = v
	} else {
		tag := IntLit(int64(vc.w.TagOf(x.AssertedType)))
		ok = Eq(ITag(v), tag)
		switch vc.sortOf(x.AssertedType) {
		case SRef:
			val = IRef(v)
		case "":
			val = vc.loadAt(st, PtrVal{Base: IRef(v), Path: "box." + typeKey(x.AssertedType), T: x.AssertedType})
		default:
			s := vc.sortOf(x.AssertedType)
			val = Select(st.heap(vc, "box."+typeKey(x.AssertedType), ArraySort(SRef, s)), IRef(v))
		}
	}
	if x.CommaOk {
		// on failure the value is the zero value
		z := vc.zero(x.AssertedType)
		var res Value
		if vt, isT := val.(Term); isT {
			res = Ite(ok, vt, z.(Term))
		} else {
			res = val
		}
		return TupleVal{res, ok}
	}
	vc.safety(st, "safe.assert", ok, "type assertion to "+shortName(typeKey(x.AssertedType)), x.Pos())
	if vt, isT := val.(Term); isT && vt.Sort == SRef {
		// a typed nil pointer inside an interface is possible; nothing to assume
		_ = vt
	}
	return val
}

func (vc *FuncVC) execMakeSlice(st *State, x *ssa.MakeSlice) Value {
	ln := vc.term(st, x.Len)
	cp := vc.term(st, x.Cap)
	if ln.Sort == SBV64 {
		panic(trError{"make([]T) in bv mode"})
	}
	// a failing allocation (out of memory) is outside the model; what can panic with a recoverable run-time error is
	// a negative length or len > cap. A successful make returns a slice within the address-space bound.
	vc.safety(st, "safe.makeslice", And(Le(IntLit(0), ln), Le(ln, cp)), "make: len out of range / cap out of range", x.Pos())
	st.assume(Le(cp, pow2(maxLenBits)))
	r := vc.allocate(st, "slice")
	el := x.Type().Underlying().(*types.Slice).Elem()
	vc.initArray(st, r, el, cp)
	return MkSlice(r, IntLit(0), ln, cp)
}

func (vc *FuncVC) execLookup(st *State, x *ssa.Lookup) Value {
	if mt, ok := x.X.Type().Underlying().(*types.Map); ok {
		m := vc.term(st, x.X)
		k := vc.mapKey(st, vc.get(st, x.Index), mt)
		h, d := vc.mapHeaps(st, mt)
		// reading a nil map is legal: empty
		in := And(Not(Eq(m, tNull)), Select(Select(d, m), k))
		raw := Select(Select(h, m), k)
		z := vc.zero(mt.Elem()).(Term)
		val := Ite(in, raw, z)
		c := vc.fresh(st, "lookup", val.Sort)
		st.assume(Eq(c, val))
		vc.assumeTyped(st, c, mt.Elem())
		if x.CommaOk {
			return TupleVal{c, in}
		}
		return c
	}
	// string index
	s := vc.term(st, x.X)
	i := vc.term(st, x.Index)
	vc.safety(st, "safe.idx", vc.inBounds(i, mk(SInt, "slen", s)), "string index out of range", x.Pos())
	return mk(SInt, "sat", s, i)
}

func (vc *FuncVC) execSlice(st *State, x *ssa.Slice) Value {
	var lo, hi, mx *Term
	if x.Low != nil {
		t := vc.term(st, x.Low)
		lo = &t
	}
	if x.High != nil {
		t := vc.term(st, x.High)
		hi = &t
	}
	if x.Max != nil {
		t := vc.term(st, x.Max)
		mx = &t
	}
	zero := IntLit(0)
	switch u := x.X.Type().Underlying().(type) {
	case *types.Basic: // string
		s := vc.term(st, x.X)
		n := mk(SInt, "slen", s)
		l, h := zero, n
		if lo != nil {
			l = *lo
		}
		if hi != nil {
			h = *hi
		}
		vc.safety(st, "safe.slice", And(Le(zero, l), Le(l, h), Le(h, n)), "slice bounds out of range", x.Pos())
		if lo == nil && hi == nil {
			return s
		}
		return mk(SStr, "ssub", s, l, h)
	case *types.Slice:
		s := vc.term(st, x.X)
		l, h, m := zero, SLen(s), SCap(s)
		if lo != nil {
			l = *lo
		}
		if hi != nil {
			h = *hi
		}
		if mx != nil {
			m = *mx
		}
		vc.safety(st, "safe.slice", And(Le(zero, l), Le(l, h), Le(h, m), Le(m, SCap(s))), "slice bounds out of range", x.Pos())
		r := MkSlice(SArr(s), Add(SOff(s), l), Sub(h, l), Sub(m, l))
		c := vc.fresh(st, "slice", SSlice)
		st.assume(Eq(c, r))
		return c
	case *types.Pointer:
		arr := u.Elem().Underlying().(*types.Array)
		base := vc.get(st, x.X)
		vc.nilCheck(st, base, x.Pos(), "slice of nil array pointer")
		var ref Term
		switch b := base.(type) {
		case Term:
			ref = b
		case PtrVal:
			if b.Path != "" {
				panic(trError{"slicing an array field is not supported"})
			}
			ref = b.Base
		}
		n := IntLit(arr.Len())
		l, h, m := zero, n, n
		if lo != nil {
			l = *lo
		}
		if hi != nil {
			h = *hi
		}
		if mx != nil {
			m = *mx
		}
		vc.safety(st, "safe.slice", And(Le(zero, l), Le(l, h), Le(h, m), Le(m, n)), "slice bounds out of range", x.Pos())
		return MkSlice(ref, l, Sub(h, l), Sub(m, l))
	}
	panic(trError{"unsupported slice expression"})
}

func (vc *FuncVC) execRange(st *State, x *ssa.Range) Value {
	key := iterKey(x)
	if mt, ok := x.X.Type().Underlying().(*types.Map); ok {
		m := vc.term(st, x.X)
		ks := vc.mapKeySort(mt)
		vis := vc.fresh(st, "visited", ArraySort(ks, SBool))
		st.assume(Eq(vis, Term{fmt.Sprintf("((as const (Array %s Bool)) false)", ks), ArraySort(ks, SBool)}))
		vc.heapSorts[key] = vis.Sort
		st.setHeap(key, vis)
		return &IterVal{Key: key, Map: m, MapT: mt}
	}
	// string
	s := vc.term(st, x.X)
	vc.heapSorts[key] = SInt
	st.setHeap(key, IntLit(0))
	return &IterVal{Key: key, Str: s, IsStr: true}
}

func (vc *FuncVC) execNext(st *State, x *ssa.Next) Value {
	it := vc.get(st, x.Iter).(*IterVal)
	if it.IsStr {
		pos := st.heaps[it.Key]
		n := mk(SInt, "slen", it.Str)
		ok := Lt(pos, n)
		r := vc.fresh(st, "rune", SInt)
		w := vc.fresh(st, "width", SInt)
		st.assume(Implies(ok, And(Le(IntLit(1), w), Le(w, IntLit(4)), Le(Add(pos, w), n), Le(IntLit(0), r), Le(r, IntLit(0x10FFFF)))))
		b0 := mk(SInt, "sat", it.Str, pos)
		st.assume(Implies(And(ok, Lt(b0, IntLit(128))), And(Eq(r, b0), Eq(w, IntLit(1)))))
		st.assume(Implies(And(ok, Ge(b0, IntLit(128))), Ge(r, IntLit(128))))
		np := vc.fresh(st, "strpos", SInt)
		st.assume(Eq(np, Ite(ok, Add(pos, w), pos)))
		st.setHeap(it.Key, np)
		return TupleVal{ok, pos, r}
	}
	mt := it.MapT
	h, d := vc.mapHeaps(st, mt)
	vis := st.heaps[it.Key]
	ks := vc.mapKeySort(mt)
	ok := vc.fresh(st, "next.ok", SBool)
	k := vc.fresh(st, "next.k", ks)
	dom := Select(d, it.Map)
	// ok: k is an unvisited key; !ok: every key has been visited
	st.assume(Implies(ok, And(Not(Eq(it.Map, tNull)), Select(dom, k), Not(Select(vis, k)))))
	st.assume(Implies(Not(ok), Or(Eq(it.Map, tNull), Term{fmt.Sprintf("(forall ((k!n %s)) (=> (select %s k!n) (select %s k!n)))", ks, dom.S, vis.S), SBool})))
	nv := vc.fresh(st, "visited", vis.Sort)
	st.assume(Eq(nv, Ite(ok, Store(vis, k, tTrue), vis)))
	st.setHeap(it.Key, nv)
	val := vc.fresh(st, "next.v", vc.sortOf(mt.Elem()))
	st.assume(Implies(ok, Eq(val, Select(Select(h, it.Map), k))))
	vc.assumeTyped(st, val, mt.Elem())
	if ks == SInt || ks == SStr || ks == SRef {
		vc.assumeTyped(st, k, mt.Key())
	}
	return TupleVal{ok, k, val}
}

// ifaceTypeOf returns the interface type an interface-method contract "(pkg.T).M" belongs to.
func (vc *FuncVC) ifaceTypeOf(sp *FuncSpec) types.Type {
	k := sp.Key
	if !strings.HasPrefix(k, "(") {
		return nil
	}
	end := strings.Index(k, ")")
	return vc.w.LookupType(k[1:end], vc.w.typPkgs[sp.Pkg])
}

// subtypeObligations: a method that inherits an interface contract must accept every call the interface allows
// (its own preconditions follow from the interface's) and may modify only what the interface contract declares.
func (vc *FuncVC) subtypeObligations(st *State, fr *frame) {
	chain := vc.specChain(vc.spec)
	if len(chain) < 2 {
		return
	}
	own := chain[0]
	// 1. preconditions: assume only the inherited requires, prove the own ones
	st2 := &State{heaps: map[string]Term{}, alloc: vc.entry.alloc, fr: fr, ndecls: st.ndecls}
	for k, v := range vc.entry.heaps {
		st2.heaps[k] = v
	}
	// type invariants of the parameters are part of any call
	for _, a := range st.pc {
		if !strings.Contains(a.S, "forall") && len(a.S) < 400 {
			st2.pc = append(st2.pc, a)
		} else {
			break
		}
	}
	env := vc.specEnv(st2, vc.entry, fr, nil)
	for _, sp := range chain[1:] {
		e2 := vc.rebind(env, sp, fr, nil)
		for _, c := range sp.Requires {
			st2.assume(e2.asBool(e2.tr(c.E)))
		}
	}
	e1 := vc.rebind(env, own, fr, nil)
	for i, c := range own.Requires {
		name := c.Name
		if name == "" {
			name = fmt.Sprintf("%d", i+1)
		}
		goal := e1.asBool(e1.tr(c.E))
		for _, g := range splitConj(goal, c.E, e1) {
			vc.emit(st2, vc.uniqueName("subtype.pre#"+name+g.suffix), "subtype", c.Tags, g.t, "the implementation's precondition follows from the interface contract: "+c.Src, fr.fn.Pos())
		}
	}
	// 2. modifies: heap names of the own clauses must be covered by whole-heap entries of the inherited contracts
	allowed := map[string]bool{}
	allowAll := false
	for _, sp := range chain[1:] {
		if sp.ModAll {
			allowAll = true
		}
		e2 := vc.rebind(env, sp, fr, nil)
		for _, m := range sp.Modifies {
			for _, mt := range e2.modTargets(m) {
				if mt.base == nil {
					allowed[mt.name] = true
				}
			}
		}
	}
	if !allowAll {
		for _, m := range own.Modifies {
			for _, mt := range e1.modTargets(m) {
				goal := tFalse
				if allowed[mt.name] {
					goal = tTrue
				}
				vc.emit(st2, vc.uniqueName("subtype.modifies."+shortName(mt.name)), "subtype", nil, goal, "heap "+shortName(mt.name)+" modified by the implementation is declared by the interface contract", fr.fn.Pos())
			}
		}
	}
}

// calleeShort returns the short name of the callee of a call ("Back", "getValueIndex", "eval").
func calleeShort(c *ssa.CallCommon) string {
	if c.IsInvoke() {
		return c.Method.Name()
	}
	switch f := c.Value.(type) {
	case *ssa.Function:
		return f.Name()
	case *ssa.Builtin:
		return f.Name()
	case *ssa.MakeClosure:
		return f.Fn.Name()
	}
	return ""
}

// pointAsserts proves and then assumes the `assert before/after Callee#k` hints attached to this call.
func (vc *FuncVC) pointAsserts(st *State, b *ssa.BasicBlock, call *ssa.Call, after bool, res Value) {
	fr := st.fr
	if fr.spec == nil || len(fr.spec.Asserts) == 0 {
		return
	}
	name := calleeShort(&call.Call)
	if name == "" {
		return
	}
	// ordinal of this call among the calls to the same callee, in block order
	nth := 0
	found := false
	for _, bb := range fr.fn.Blocks {
		for _, in := range bb.Instrs {
			if c, ok := in.(*ssa.Call); ok && calleeShort(&c.Call) == name {
				nth++
				if c == call {
					found = true
					break
				}
			}
		}
		if found {
			break
		}
	}
	for i, as := range fr.spec.Asserts {
		if as.After != after || as.Callee != name || as.Nth != nth {
			continue
		}
		env := &Env{vc: vc, st: st, old: vc.entry, vars: map[string]TV{}, pkg: fr.fn.Pkg.Pkg}
		for n, lr := range vc.localNamesAt(fr.fn, b, call) {
			v, ok := fr.regs[lr.v]
			if !ok {
				if c, isConst := lr.v.(*ssa.Const); isConst {
					v = vc.constValue(c)
				} else {
					continue
				}
			}
			func() {
				defer func() {
					if r := recover(); r != nil {
						if _, ok := r.(trError); ok {
							return
						}
						panic(r)
					}
				}()
				if lr.isAddr {
					pt, isPtr := lr.v.Type().Underlying().(*types.Pointer)
					if !isPtr {
						return
					}
					save := st.pc
					val := vc.load(st, v, pt.Elem())
					st.pc = save
					env.vars[n] = env.valueTV(val, pt.Elem())
					return
				}
				env.vars[n] = env.valueTV(v, lr.v.Type())
			}()
		}
		if len(fr.spec.Params) > 0 {
			for k, p := range fr.fn.Params {
				if k < len(fr.spec.Params) {
					env.vars[fr.spec.Params[k]] = env.valueTV(fr.regs[p], p.Type())
				}
			}
		}
		if after && res != nil {
			if tv, ok := res.(TupleVal); ok {
				for k, v := range tv {
					env.vars[fmt.Sprintf("$r%d", k)] = env.valueTV(v, call.Type().(*types.Tuple).At(k).Type())
				}
			} else {
				env.vars["$r"] = env.valueTV(res, call.Type())
			}
		}
		nm := as.C.Name
		if nm == "" {
			nm = fmt.Sprintf("%d", i+1)
		}
		goal := env.asBool(env.tr(as.C.E))
		for _, g := range splitConj(goal, as.C.E, env) {
			vc.emit(st, vc.uniqueName("assert#"+nm+g.suffix), "assert", as.C.Tags, g.t, as.C.Src, call.Pos())
			st.assume(g.t)
		}
	}
}

// bindClosureVars makes the captured variables of a closure visible (by name) to a specialised contract.
func (vc *FuncVC) bindClosureVars(env *Env, st *State, cl *ClosureVal) {
	for i, fv := range cl.Fn.FreeVars {
		if i >= len(cl.Bind) {
			break
		}
		pt, ok := fv.Type().Underlying().(*types.Pointer)
		if !ok {
			continue
		}
		func() {
			defer func() {
				if r := recover(); r != nil {
					if _, ok := r.(trError); ok {
						return
					}
					panic(r)
				}
			}()
			save := st.pc
			val := vc.load(st, cl.Bind[i], pt.Elem())
			st.pc = save
			env.vars[fv.Name()] = env.valueTV(val, pt.Elem())
			if env.refs == nil {
				env.refs = map[string]refVar{}
			}
			env.refs[fv.Name()] = refVar{cl.Bind[i], pt.Elem()}
		}()
	}
}
