package main

import (
	"fmt"
	"go/token"
	"go/types"
	"strings"

	"golang.org/x/tools/go/ssa"
)

const maxInlineDepth = 4

// execCall executes a call (static, closure, interface, builtin) and continues with k.
func (vc *FuncVC) execCall(st *State, c *ssa.CallCommon, fv Value, args []Value, pos token.Pos, k func(*State, Value)) {
	if c.IsInvoke() {
		recv := fv.(Term)
		vc.safety(st, "safe.nil", Not(Eq(ITag(recv), IntLit(0))), "method call on nil interface value", pos)
		sp := vc.w.ifaceMethodSpec(c.Value.Type(), c.Method.Name())
		sig := c.Method.Type().(*types.Signature)
		if sp == nil {
			if vc.dispatchInvoke(st, c, recv, args, sig, pos, k) {
				return
			}
			vc.unknownCall(st, shortName(typeKey(c.Value.Type()))+"."+c.Method.Name(), sig, pos, k)
			return
		}
		all := append([]Value{recv}, args...)
		ptypes := []types.Type{c.Value.Type()}
		for i := 0; i < sig.Params().Len(); i++ {
			ptypes = append(ptypes, sig.Params().At(i).Type())
		}
		vc.contractCall(st, sp, nil, sig, all, ptypes, pos, k)
		return
	}
	switch f := fv.(type) {
	case *ssa.Builtin:
		vc.execBuiltin(st, f, c, args, pos, k)
		return
	case *ClosureVal:
		vc.callFunctionC(st, f.Fn, c, f.Bind, args, pos, k)
		return
	case Term:
		// function value: known closure, function-type contract, or unknown
		if cl, ok := vc.closures[f.S]; ok {
			vc.callFunction(st, cl.Fn, cl.Bind, args, pos, k)
			return
		}
		vc.safety(st, "safe.nil", Not(Eq(f, tNull)), "call of nil function value", pos)
		sig := c.Value.Type().Underlying().(*types.Signature)
		if sp := vc.funcTypeSpec(c.Value.Type()); sp != nil {
			var ptypes []types.Type
			for i := 0; i < sig.Params().Len(); i++ {
				ptypes = append(ptypes, sig.Params().At(i).Type())
			}
			vc.curSelf = &f
			vc.contractCall(st, sp, nil, sig, args, ptypes, pos, k)
			return
		}
		vc.unknownCall(st, "function value of type "+shortName(typeKey(c.Value.Type())), sig, pos, k)
		return
	}
	panic(trError{fmt.Sprintf("%s: unsupported callee %T", vc.pos(pos), fv)})
}

func (vc *FuncVC) callFunction(st *State, fn *ssa.Function, bind []Value, args []Value, pos token.Pos, k func(*State, Value)) {
	vc.callFunctionC(st, fn, nil, bind, args, pos, k)
}

func (vc *FuncVC) callFunctionC(st *State, fn *ssa.Function, c *ssa.CallCommon, bind []Value, args []Value, pos token.Pos, k func(*State, Value)) {
	vc.lockAtomic(st, fn, args, pos)
	sp := vc.w.specFor(fn)
	// a contract specialised to the closure passed as function argument takes precedence
	for _, a := range args {
		var cl *ClosureVal
		switch x := a.(type) {
		case *ClosureVal:
			cl = x
		case Term:
			cl = vc.closures[x.S]
		}
		if cl == nil || cl.Fn.Parent() == nil {
			continue
		}
		name := cl.Fn.String()
		if fn.Pkg != nil && cl.Fn.Pkg == fn.Pkg {
			name = strings.TrimPrefix(name, fn.Pkg.Pkg.Path()+".")
		}
		if ssp := vc.w.specs.Funcs[fn.String()+"$"+name]; ssp != nil {
			sp = ssp
			break
		}
	}
	if h := vc.higherOrder(fn); h != nil && c != nil {
		h(st, fn, c, args, pos, k)
		return
	}
	if sp != nil && !sp.Inline && len(bind) == 0 {
		var ptypes []types.Type
		if fn.Signature.Recv() != nil {
			ptypes = append(ptypes, fn.Signature.Recv().Type())
		}
		for i := 0; i < fn.Signature.Params().Len(); i++ {
			ptypes = append(ptypes, fn.Signature.Params().At(i).Type())
		}
		vc.contractCall(st, sp, fn, fn.Signature, args, ptypes, pos, k)
		return
	}
	if fn.Blocks != nil && (strings.HasPrefix(fn.String(), modPath) || fn.Parent() != nil || strings.HasPrefix(fn.String(), "(") && strings.Contains(fn.String(), modPath)) {
		depth := 0
		for f := st.fr; f != nil; f = f.parent {
			depth++
			if f.fn == fn && depth > 0 {
				// recursion without a contract: outside the subset (R4: the function is reported as ungenerated and
				// the check falls back to the real-code harness); a summary would have to be invented
				panic(trError{fmt.Sprintf("%s: recursive function %s has no contract", vc.pos(pos), shortName(fn.String()))})
			}
		}
		if depth <= maxInlineDepth {
			vc.inline(st, fn, bind, args, pos, k)
			return
		}
	}
	vc.unknownCallArgs(st, shortName(fn.String()), fn.Signature, c, pos, k)
}

// inline executes the body of fn in a new frame.
func (vc *FuncVC) inline(st *State, fn *ssa.Function, bind []Value, args []Value, pos token.Pos, k func(*State, Value)) {
	fr := &frame{fn: fn, regs: map[ssa.Value]Value{}, parent: st.fr, spec: vc.w.specFor(fn), depth: st.fr.depth + 1, open: map[*ssa.BasicBlock]*openLoop{}}
	for i, p := range fn.Params {
		if i < len(args) {
			fr.regs[p] = args[i]
		}
	}
	for i, fv := range fn.FreeVars {
		if i < len(bind) {
			fr.regs[fv] = bind[i]
		}
	}
	fr.retK = func(st *State, res []Value) {
		switch len(res) {
		case 0:
			k(st, nil)
		case 1:
			k(st, res[0])
		default:
			k(st, TupleVal(res))
		}
	}
	st.fr = fr
	st.trace = append(st.trace, fmt.Sprintf("%s: inline %s", vc.pos(pos), fn.Name()))
	vc.execBlock(st, fn.Blocks[0], nil)
}

// unknownCall: no contract and no body available. Assumption (listed in the evidence): a library function without
// contract modifies only memory of the types its arguments point to (pointer-to-struct: the fields of that struct type;
// slices: their elements; maps; boxed values by their static type). A function-typed argument or an interface whose
// dynamic type is not known statically makes everything reachable havoc. The result is arbitrary.
func (vc *FuncVC) unknownCall(st *State, what string, sig *types.Signature, pos token.Pos, k func(*State, Value)) {
	vc.unknownCallArgs(st, what, sig, nil, pos, k)
}

func (vc *FuncVC) unknownCallArgs(st *State, what string, sig *types.Signature, c *ssa.CallCommon, pos token.Pos, k func(*State, Value)) {
	mods := map[string]bool{}
	vc.argTypeMods(c, mods)
	if mods["*"] {
		vc.warn("call without contract: %s (%s): all heaps havocked", what, vc.pos(pos))
		for _, name := range sortedKeys(vc.heapSorts) {
			if strings.HasPrefix(name, "iter.") {
				continue
			}
			st.setHeap(name, vc.fresh(st, "H."+name, vc.heapSorts[name]))
		}
	} else {
		vc.warn("call without contract: %s (%s): assumed to modify only memory of its argument types", what, vc.pos(pos))
		for _, name := range sortedKeys(mods) {
			if s, ok := vc.heapSorts[name]; ok {
				st.setHeap(name, vc.fresh(st, "H."+name, s))
			}
		}
	}
	vc.trusted["unspecified:"+what] = true
	vc.havocAlloc(st)
	k(st, vc.freshResults(st, sig))
}

func (vc *FuncVC) freshResults(st *State, sig *types.Signature) Value {
	switch sig.Results().Len() {
	case 0:
		return nil
	case 1:
		return vc.freshValue(st, "res", sig.Results().At(0).Type())
	}
	var tv TupleVal
	for i := 0; i < sig.Results().Len(); i++ {
		tv = append(tv, vc.freshValue(st, fmt.Sprintf("res%d", i), sig.Results().At(i).Type()))
	}
	return tv
}

// bindCallee builds the environment for evaluating clauses of contract sp at a call site.
func (vc *FuncVC) bindCallee(st, old *State, sp *FuncSpec, fn *ssa.Function, sig *types.Signature, args []Value, ptypes []types.Type, res []Value) *Env {
	env := &Env{vc: vc, st: st, old: old, vars: map[string]TV{}}
	if sp.Kind == "functype" && vc.curSelf != nil {
		env.vars["self"] = TV{T: *vc.curSelf}
	}
	if sp.Pkg != "" {
		env.pkg = vc.w.typPkgs[sp.Pkg]
	}
	if env.pkg == nil && fn != nil && fn.Pkg != nil {
		env.pkg = fn.Pkg.Pkg
	}
	if env.pkg == nil {
		env.pkg = vc.fn.Pkg.Pkg
	}
	var names []string
	if fn != nil && len(fn.Params) == len(args) {
		for _, p := range fn.Params {
			names = append(names, p.Name())
		}
	} else {
		if len(ptypes) == sig.Params().Len()+1 {
			names = append(names, "recv")
		}
		for i := 0; i < sig.Params().Len(); i++ {
			names = append(names, sig.Params().At(i).Name())
		}
	}
	for i := range args {
		name := ""
		if i < len(names) {
			name = names[i]
		}
		if i < len(sp.Params) {
			name = sp.Params[i]
		}
		if name == "" || name == "_" {
			continue
		}
		var t types.Type
		if i < len(ptypes) {
			t = ptypes[i]
		}
		func() {
			defer func() {
				if r := recover(); r != nil {
					if _, ok := r.(trError); ok {
						return // value not expressible in specs (e.g. closure): leave unbound
					}
					panic(r)
				}
			}()
			if cl, ok := args[i].(*ClosureVal); ok {
				vc.bindClosureVars(env, st, cl)
				env.vars[name] = TV{T: vc.closureRef(st, cl), Go: t}
				return
			}
			if i == 0 && sp.Kind == "interface" && t != nil {
				if _, isIface := t.Underlying().(*types.Interface); !isIface {
					if rt, ok := args[i].(Term); ok && rt.Sort == SRef {
						if it := vc.ifaceTypeOf(sp); it != nil {
							env.vars[name] = TV{T: vc.mkIface(IntLit(int64(vc.w.TagOf(t))), rt), Go: it}
							return
						}
					}
				}
			}
			env.vars[name] = env.valueTV(args[i], t)
		}()
	}
	if res != nil {
		for i := 0; i < sig.Results().Len(); i++ {
			name := sig.Results().At(i).Name()
			if i < len(sp.Results) {
				name = sp.Results[i]
			} else if name == "" || name == "_" {
				if sig.Results().Len() == 1 {
					name = "result"
				} else {
					name = fmt.Sprintf("result%d", i)
				}
			}
			tv := env.valueTV(res[i], sig.Results().At(i).Type())
			env.vars[name] = tv
			if i == 0 {
				if _, ok := env.vars["result"]; !ok {
					env.vars["result"] = tv
				}
			}
			if isErrorType(sig.Results().At(i).Type()) {
				if _, ok := env.vars["err"]; !ok {
					env.vars["err"] = tv
				}
			}
		}
	}
	return env
}

// contractCall: modular treatment of a call to a function with a contract.
func (vc *FuncVC) contractCall(st *State, sp *FuncSpec, fn *ssa.Function, sig *types.Signature, args []Value, ptypes []types.Type, pos token.Pos, k func(*State, Value)) {
	chain := vc.specChain(sp)
	callee := shortName(sp.Key)
	for _, s := range chain {
		if s.Kind == "trusted" {
			vc.trusted["trusted:"+shortName(s.Key)] = true
		}
	}
	// 1. preconditions
	for _, s := range chain {
		env := vc.bindCallee(st, nil, s, fn, sig, args, ptypes, nil)
		for i, c := range s.Requires {
			name := c.Name
			if name == "" {
				name = fmt.Sprintf("%d", i+1)
			}
			goal := env.asBool(env.tr(c.E))
			for _, g := range splitConj(goal, c.E, env) {
				vc.emit(st, vc.uniqueName(fmt.Sprintf("pre@%s#%s%s", callee, name, g.suffix)), "pre", c.Tags, g.t, c.Src, pos)
				st.assume(g.t)
			}
		}
	}
	// 2. havoc what the callee may modify
	old := st.snapshot()
	modAll := false
	type atMod struct {
		name string
		ats  []Term
		sort Sort
	}
	atIdx := map[string]int{}
	var ats []atMod
	whole := map[string]Sort{}
	for _, s := range chain {
		if s.ModAll {
			modAll = true
		}
		env := vc.bindCallee(st, nil, s, fn, sig, args, ptypes, nil)
		for _, m := range s.Modifies {
			for _, mt := range env.modTargets(m) {
				if mt.base == nil {
					whole[mt.name] = mt.sort
					continue
				}
				i, ok := atIdx[mt.name]
				if !ok {
					i = len(ats)
					atIdx[mt.name] = i
					ats = append(ats, atMod{name: mt.name, sort: mt.sort})
				}
				ats[i].ats = append(ats[i].ats, *mt.base)
			}
		}
	}
	if modAll {
		for _, name := range sortedKeys(vc.heapSorts) {
			if strings.HasPrefix(name, "iter.") {
				continue
			}
			st.setHeap(name, vc.fresh(st, "H."+name, vc.heapSorts[name]))
		}
	}
	for _, name := range sortedKeys(whole) {
		st.heap(vc, name, whole[name])
		st.setHeap(name, vc.fresh(st, "H."+name, whole[name]))
	}
	vc.havocAlloc(st)
	for _, am := range ats {
		if _, isWhole := whole[am.name]; isWhole {
			continue
		}
		h := st.heap(vc, am.name, am.sort)
		if strings.HasPrefix(am.name, "global.") {
			st.setHeap(am.name, vc.fresh(st, "H."+am.name, am.sort))
			continue
		}
		// exactly the listed objects may change in this heap: quantifier-free update with arbitrary new contents
		nh := h
		for i, a := range am.ats {
			_, vs, _ := arrayParts(am.sort)
			v := vc.fresh(st, fmt.Sprintf("mod%d", i), vs)
			nh = Store(nh, a, v)
		}
		c := vc.fresh(st, "H."+am.name, am.sort)
		st.assume(Eq(c, nh))
		st.setHeap(am.name, c)
	}
	// 3. results
	var res []Value
	for i := 0; i < sig.Results().Len(); i++ {
		res = append(res, vc.freshValue(st, fmt.Sprintf("%s.r%d", shortCallee(callee), i), sig.Results().At(i).Type()))
	}
	// 4. postconditions
	raises := ""
	for _, s := range chain {
		env := vc.bindCallee(st, old, s, fn, sig, args, ptypes, res)
		if s.Fresh && len(res) > 0 {
			if t, ok := res[0].(Term); ok && t.Sort == SRef {
				st.assume(And(Not(Eq(t, tNull)), Not(Select(old.alloc, t)), Select(st.alloc, t)))
			}
		}
		if s.Raises != "" {
			raises = s.Raises
		}
		if s.Raises == "always" {
			continue
		}
		for _, c := range s.Unfolds {
			st.assume(env.asBool(env.tr(c.E)))
		}
		for _, c := range s.Ensures {
			st.assume(env.asBool(env.tr(c.E)))
		}
	}
	var result Value
	switch len(res) {
	case 0:
		result = nil
	case 1:
		result = res[0]
	default:
		result = TupleVal(res)
	}
	switch raises {
	case "always":
		pv := vc.raiseValue(st)
		st.panicV = &pv
		vc.unwind(st, pos)
		return
	case "may":
		st2 := st.clone()
		vc.run(func() { k(st, result) })
		vc.run(func() {
			pv := vc.raiseValue(st2)
			st2.panicV = &pv
			st2.trace = append(st2.trace, fmt.Sprintf("%s: %s panics", vc.pos(pos), callee))
			vc.unwind(st2, pos)
		})
		panic(pathEnd{})
	}
	k(st, result)
}

func shortCallee(s string) string {
	if k := strings.LastIndex(s, "."); k >= 0 {
		return s[k+1:]
	}
	return s
}

// raiseValue is the value carried by a panic raised through a `raises` contract: some error that is not a runtime.Error.
func (vc *FuncVC) raiseValue(st *State) Term {
	v := vc.fresh(st, "panicval", SIface)
	tag := IntLit(int64(vc.w.TagOf(vc.errorStringType())))
	st.assume(Eq(ITag(v), tag))
	st.assume(And(Not(Eq(IRef(v), tNull)), Select(st.alloc, IRef(v))))
	return v
}

func (vc *FuncVC) errorStringType() types.Type {
	if p, ok := vc.w.typPkgs["errors"]; ok {
		if o := p.Scope().Lookup("errorString"); o != nil {
			return types.NewPointer(o.Type())
		}
	}
	return types.Universe.Lookup("error").Type()
}

// ---------------------------------------------------------------- builtins

func (vc *FuncVC) execBuiltin(st *State, f *ssa.Builtin, c *ssa.CallCommon, args []Value, pos token.Pos, k func(*State, Value)) {
	switch f.Name() {
	case "len":
		switch x := args[0].(type) {
		case Term:
			switch x.Sort {
			case SSlice:
				k(st, SLen(x))
			case SStr:
				k(st, mk(SInt, "slen", x))
			case SRef:
				// map
				mt, ok := c.Args[0].Type().Underlying().(*types.Map)
				if !ok {
					panic(trError{"len of unsupported value"})
				}
				_, d := vc.mapHeaps(st, mt)
				fn := vc.sc.Func("mapcard."+mangle(string(vc.mapKeySort(mt))), []Sort{ArraySort(vc.mapKeySort(mt), SBool)}, SInt)
				r := mk(SInt, fn, Select(d, x))
				st.assume(Ge(r, IntLit(0)))
				k(st, r)
			default:
				panic(trError{"len of unsupported value"})
			}
		default:
			panic(trError{"len of unsupported value"})
		}
	case "cap":
		k(st, SCap(args[0].(Term)))
	case "append":
		k(st, vc.execAppend(st, c, args, pos))
	case "copy":
		dst := args[0].(Term)
		src := args[1].(Term)
		el := c.Args[0].Type().Underlying().(*types.Slice).Elem()
		n := vc.fresh(st, "copied", SInt)
		srcLen := SLen(src)
		if src.Sort == SStr {
			srcLen = mk(SInt, "slen", src)
		}
		st.assume(Eq(n, Ite(Le(SLen(dst), srcLen), SLen(dst), srcLen)))
		if src.Sort == SStr {
			vc.havocRange(st, el, dst, IntLit(0), n, func(leaf string, i Term) *Term {
				t := mk(SInt, "sat", src, i)
				return &t
			})
		} else {
			oldSt := st.snapshot()
			vc.havocRange(st, el, dst, IntLit(0), n, func(leaf string, i Term) *Term {
				h, ok := oldSt.heaps[leaf]
				if !ok {
					h = vc.sc.Const("H."+leaf+".0", vc.heapSorts[leaf])
				}
				t := Select(Select(h, SArr(src)), Add(SOff(src), i))
				return &t
			})
		}
		k(st, n)
	case "delete":
		m := args[0].(Term)
		mt := c.Args[0].Type().Underlying().(*types.Map)
		key := vc.mapKey(st, args[1], mt)
		// delete on a nil map is a no-op
		st2 := st.clone()
		st.assume(Not(Eq(m, tNull)))
		st2.assume(Eq(m, tNull))
		vc.mapStore(st, mt, m, key, nil)
		vc.run(func() { k(st, nil) })
		vc.run(func() { k(st2, nil) })
		panic(pathEnd{})
	case "recover":
		if st.panicV != nil && st.fr.parent != nil || st.panicV != nil {
			v := *st.panicV
			st.panicV = nil
			k(st, v)
			return
		}
		k(st, nilIface)
	case "print", "println":
		k(st, nil)
	case "close":
		// closing a channel: channels are outside the model (only reached in functions whose channel operations are
		// summarised by trusted contracts)
		vc.warn("close(channel) at %s is not modelled", vc.pos(pos))
		k(st, nil)
	case "min", "max":
		a := args[0].(Term)
		b := args[1].(Term)
		if f.Name() == "min" {
			k(st, Ite(Le(a, b), a, b))
		} else {
			k(st, Ite(Le(a, b), b, a))
		}
	default:
		panic(trError{fmt.Sprintf("%s: builtin %s is not supported", vc.pos(pos), f.Name())})
	}
}

// havocRange replaces elements [lo, lo+n) of slice s (all leaf heaps of elem) by values given by val (nil: arbitrary).
func (vc *FuncVC) havocRange(st *State, elem types.Type, s Term, lo, n Term, val func(leaf string, i Term) *Term) {
	leaves := map[string]bool{}
	vc.leafHeaps("[]"+typeKey(elem), elem, leaves)
	for _, name := range sortedKeys(leaves) {
		lt := vc.leafType(elem, strings.TrimPrefix(name, "[]"+typeKey(elem)))
		ls := vc.sortOf(lt)
		hs := ArraySort(SRef, ArraySort(SInt, ls))
		h := st.heap(vc, name, hs)
		nh := vc.fresh(st, "H."+name, hs)
		r := Term{"r!c", SRef}
		i := Term{"i!c", SInt}
		inRange := And(Eq(r, SArr(s)), Le(Add(SOff(s), lo), i), Lt(i, Add(Add(SOff(s), lo), n)))
		same := Eq(Select(Select(nh, r), i), Select(Select(h, r), i))
		st.assume(Term{fmt.Sprintf("(forall ((r!c Ref) (i!c Int)) (! (=> (not %s) %s) :pattern ((select (select %s r!c) i!c))))", inRange.S, same.S, nh.S), SBool})
		if val != nil {
			base := Add(SOff(s), lo)
			v := val(name, Sub(i, base))
			if v != nil {
				body := Implies(And(Le(base, i), Lt(i, Add(base, n))), Eq(Select(Select(nh, SArr(s)), i), *v))
				st.assume(Term{fmt.Sprintf("(forall ((i!c Int)) (! %s :pattern ((select (select %s %s) i!c))))", body.S, nh.S, SArr(s).S), SBool})
			}
		}
		st.setHeap(name, nh)
	}
}

// execAppend models append(s, elems...) exactly as the Go specification describes it:
// in place when the capacity suffices (sharing the backing array), otherwise a fresh array.
func (vc *FuncVC) execAppend(st *State, c *ssa.CallCommon, args []Value, pos token.Pos) Value {
	s := args[0].(Term)
	el := c.Args[0].Type().Underlying().(*types.Slice).Elem()
	extra := args[1].(Term)
	var n Term
	if extra.Sort == SStr {
		n = mk(SInt, "slen", extra)
	} else {
		n = SLen(extra)
	}
	newLen := vc.fresh(st, "applen", SInt)
	st.assume(Eq(newLen, Add(SLen(s), n)))
	fits := Le(newLen, SCap(s))
	// the result array: the old one if it fits, a fresh one otherwise
	fresh := vc.allocate(st, "apparr")
	arr := vc.fresh(st, "arr", SRef)
	off := vc.fresh(st, "off", SInt)
	cp := vc.fresh(st, "cap", SInt)
	st.assume(Eq(arr, Ite(fits, SArr(s), fresh)))
	st.assume(Eq(off, Ite(fits, SOff(s), IntLit(0))))
	st.assume(Implies(fits, Eq(cp, SCap(s))))
	st.assume(Implies(Not(fits), And(Le(newLen, cp), Le(cp, pow2(maxLenBits)))))
	// appending nothing to a nil slice yields nil
	res := vc.fresh(st, "appended", SSlice)
	st.assume(Eq(res, Ite(And(Eq(n, IntLit(0)), fits), s, MkSlice(arr, off, newLen, cp))))
	// element heaps
	leaves := map[string]bool{}
	vc.leafHeaps("[]"+typeKey(el), el, leaves)
	for _, name := range sortedKeys(leaves) {
		lt := vc.leafType(el, strings.TrimPrefix(name, "[]"+typeKey(el)))
		ls := vc.sortOf(lt)
		hs := ArraySort(SRef, ArraySort(SInt, ls))
		h := st.heap(vc, name, hs)
		nh := vc.fresh(st, "H."+name, hs)
		r := Term{"r!p", SRef}
		i := Term{"i!p", SInt}
		// 1. everything outside the written window of the result array is unchanged
		written := And(Eq(r, arr), Le(Add(off, SLen(s)), i), Lt(i, Add(off, newLen)))
		copied := And(Not(fits), Eq(r, arr), Le(IntLit(0), i), Lt(i, SLen(s)))
		same := Eq(Select(Select(nh, r), i), Select(Select(h, r), i))
		st.assume(Term{fmt.Sprintf("(forall ((r!p Ref) (i!p Int)) (! (=> (and (not %s) (not %s)) %s) :pattern ((select (select %s r!p) i!p)) :pattern ((select (select %s r!p) i!p))))", written.S, copied.S, same.S, nh.S, h.S), SBool})
		// 2. on reallocation the old elements are copied
		j := Term{"j!p", SInt}
		cbody := Implies(And(Not(fits), Le(IntLit(0), j), Lt(j, SLen(s))), Eq(Select(Select(nh, arr), j), Select(Select(h, SArr(s)), Add(SOff(s), j))))
		st.assume(Term{fmt.Sprintf("(forall ((j!p Int)) (! %s :pattern ((select (select %s %s) j!p))))", cbody.S, nh.S, arr.S), SBool})
		// 2b. the same, triggered by the old element (so that facts about old elements reach the copy)
		ko := Term{"k!p", SInt}
		c2 := Implies(And(Not(fits), Le(SOff(s), ko), Lt(ko, Add(SOff(s), SLen(s)))), Eq(Select(Select(nh, arr), Sub(ko, SOff(s))), Select(Select(h, SArr(s)), ko)))
		st.assume(Term{fmt.Sprintf("(forall ((k!p Int)) (! %s :pattern ((select (select %s %s) k!p))))", c2.S, h.S, SArr(s).S), SBool})
		// 3. the new elements (indexed by the destination position, so that the pattern contains no arithmetic)
		lo := Add(off, SLen(s))
		k := Sub(i, lo)
		var src Term
		if extra.Sort == SStr {
			src = mk(SInt, "sat", extra, k)
		} else {
			src = Select(Select(h, SArr(extra)), Add(SOff(extra), k))
		}
		if n.S == "1" {
			// the common single-element append: a ground fact needs no instantiation
			var src0 Term
			if extra.Sort == SStr {
				src0 = mk(SInt, "sat", extra, IntLit(0))
			} else {
				src0 = Select(Select(h, SArr(extra)), SOff(extra))
			}
			st.assume(Eq(Select(Select(nh, arr), lo), src0))
		}
		nbody := Implies(And(Le(lo, i), Lt(i, Add(lo, n))), Eq(Select(Select(nh, arr), i), src))
		st.assume(Term{fmt.Sprintf("(forall ((i!p Int)) (! %s :pattern ((select (select %s %s) i!p))))", nbody.S, nh.S, arr.S), SBool})
		st.setHeap(name, nh)
	}
	return res
}

// argTypeMods: heaps an unspecified library call may modify, by the types of its arguments (see unknownCall).
func (vc *FuncVC) argTypeMods(c *ssa.CallCommon, mods map[string]bool) {
	if c == nil || c.IsInvoke() {
		mods["*"] = true
		return
	}
	var walk func(t types.Type, depth int)
	walk = func(t types.Type, depth int) {
		if types.Identical(t, types.Universe.Lookup("error").Type()) {
			// an error value handed to a library function: at most its Error method is called, which is assumed
			// not to write program state (listed with the other assumptions about calls without contract)
			return
		}
		switch u := t.Underlying().(type) {
		case *types.Basic:
		case *types.Pointer:
			vc.leafHeaps(typeKey(u.Elem()), u.Elem(), mods)
			if _, isStruct := u.Elem().Underlying().(*types.Struct); !isStruct {
				mods["cell."+typeKey(u.Elem())] = true
			}
		case *types.Slice:
			vc.leafHeaps("[]"+typeKey(u.Elem()), u.Elem(), mods)
			if depth < 2 {
				walk(u.Elem(), depth+1)
			}
		case *types.Map:
			mods["map."+typeKey(t)] = true
			mods["dom."+typeKey(t)] = true
		case *types.Struct:
			for i := 0; i < u.NumFields(); i++ {
				if depth < 2 {
					walk(u.Field(i).Type(), depth+1)
				}
			}
		default:
			mods["*"] = true
		}
	}
	for _, a := range c.Args {
		if mi, ok := a.(*ssa.MakeInterface); ok {
			walk(mi.X.Type(), 0)
			continue
		}
		if sl, ok := a.(*ssa.Slice); ok {
			// variadic ...any: look through the varargs array for the boxed static types
			if al, ok := sl.X.(*ssa.Alloc); ok && al.Comment == "varargs" && al.Referrers() != nil {
				for _, ref := range *al.Referrers() {
					if ia, ok := ref.(*ssa.IndexAddr); ok && ia.Referrers() != nil {
						for _, r2 := range *ia.Referrers() {
							if stq, ok := r2.(*ssa.Store); ok {
								if mi, ok := stq.Val.(*ssa.MakeInterface); ok {
									walk(mi.X.Type(), 0)
								} else {
									walk(stq.Val.Type(), 0)
								}
							}
						}
					}
				}
				continue
			}
		}
		walk(a.Type(), 0)
	}
}

// lockAtomic: the sequential contract of a method that works under its own mutex carries over to concurrent callers
// only if the method body is a single critical section (C04, C18). A path that releases a mutex and acquires the same
// mutex again splits the critical section — other goroutines may run in between, which sequential reasoning does not
// see — so acquiring a mutex this execution has already released is an obligation (it fails unless the two mutexes are
// provably different objects).
func (vc *FuncVC) lockAtomic(st *State, fn *ssa.Function, args []Value, pos token.Pos) {
	if len(args) == 0 || st.fr == nil {
		return
	}
	// calls made by the function under verification itself and by the helpers inlined into it count; a callee that
	// is called through its contract owns its critical sections (they are checked with that callee)
	var acquire bool
	switch fn.String() {
	case "(*sync.Mutex).Lock", "(*sync.RWMutex).Lock", "(*sync.RWMutex).RLock":
		acquire = true
	case "(*sync.Mutex).Unlock", "(*sync.RWMutex).Unlock", "(*sync.RWMutex).RUnlock":
	default:
		return
	}
	m, ok := args[0].(PtrVal)
	if !ok {
		return
	}
	if !acquire {
		st.released = append(st.released, m)
		return
	}
	for _, r := range st.released {
		if r.Path != m.Path {
			continue
		}
		vc.emit(st, vc.uniqueName("lock.atomic"), "safe", nil, Not(Eq(r.Base, m.Base)), "a mutex released earlier in this call is acquired again: the method body is not one critical section", pos)
	}
}

// implsOf: the pointer-to-named types of the repository that implement the interface of an invoke-mode call and whose
// method is under contract.
type implT struct {
	t  types.Type
	fn *ssa.Function
}

func (vc *FuncVC) implsOf(c *ssa.CallCommon) []implT {
	it, ok := c.Value.Type().Underlying().(*types.Interface)
	if !ok {
		return nil
	}
	var impls []implT
	for _, p := range vc.w.pkgs {
		sp := vc.w.prog.Package(p.Types)
		if sp == nil {
			continue
		}
		for _, name := range sortedKeys(sp.Members) {
			tm, ok := sp.Members[name].(*ssa.Type)
			if !ok {
				continue
			}
			pt := types.NewPointer(tm.Type())
			if !types.Implements(pt, it) {
				continue
			}
			fn := vc.w.prog.LookupMethod(pt, c.Method.Pkg(), c.Method.Name())
			if fn == nil || vc.w.specFor(fn) == nil {
				continue
			}
			impls = append(impls, implT{pt, fn})
		}
	}
	return impls
}

// dispatchInvoke: a method call through an interface that has no contract of its own is decided by the dynamic type:
// for every implementation under contract (implsOf) there is one path (the type tag is assumed, the method's contract
// is applied to the boxed pointer). That the dynamic type is one of them is an obligation (closed world of the
// implementations under contract). Returns false if no implementation is under contract.
func (vc *FuncVC) dispatchInvoke(st *State, c *ssa.CallCommon, recv Term, args []Value, sig *types.Signature, pos token.Pos, k func(*State, Value)) bool {
	impls := vc.implsOf(c)
	if len(impls) == 0 {
		return false
	}
	var oneOf []Term
	for _, im := range impls {
		oneOf = append(oneOf, Eq(ITag(recv), IntLit(int64(vc.w.TagOf(im.t)))))
	}
	vc.safety(st, "dispatch.closed", Or(oneOf...), "the dynamic type of the receiver is one of the implementations under contract", pos)
	for _, im := range impls {
		im := im
		tag := IntLit(int64(vc.w.TagOf(im.t)))
		st2 := st.clone()
		st2.assume(Eq(ITag(recv), tag))
		st2.trace = append(st2.trace, fmt.Sprintf("%s: dynamic type %s", vc.pos(pos), shortName(typeKey(im.t))))
		vc.run(func() {
			vc.callFunctionC(st2, im.fn, nil, nil, append([]Value{IRef(recv)}, args...), pos, k)
		})
	}
	panic(pathEnd{})
}
