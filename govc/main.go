package main

import (
	"encoding/json"
	"flag"
	"fmt"
	"golang.org/x/tools/go/ssa"
	"os"
	"path/filepath"
	"regexp"
	"runtime/debug"
	"sort"
	"strconv"
	"strings"
	"sync"
	"time"
)

type KnownFinding struct {
	Property   string `json:"property"`
	Obligation string `json:"obligation"` // function/name, normalised (no @exitN, no ~k)
	Status     string `json:"status"`     // open | fixed
	Commit     string `json:"commit,omitempty"`
	What       string `json:"what"`
}

var reExit = regexp.MustCompile(`(@exit\d+|~\d+)`)

func normObl(fn, name string) string { return fn + "/" + reExit.ReplaceAllString(name, "") }

type funcReport struct {
	Function    string   `json:"function"`
	Obligations int      `json:"obligations"`
	Proved      int      `json:"proved"`
	Paths       int      `json:"path_segments"`
	Warnings    []string `json:"warnings,omitempty"`
	Ungenerated string   `json:"ungenerated,omitempty"`
}

func main() {
	repo := flag.String("repo", "/repo", "repository root")
	verif := flag.String("verif", "/verif", "verification root")
	prop := flag.String("prop", "", "property id (C01..C19)")
	tier := flag.String("tier", "quick", "quick|thorough")
	fnFilter := flag.String("fn", "", "only functions whose name contains this")
	dump := flag.String("dump", "", "directory to keep scripts of failed obligations")
	dumpAll := flag.Bool("dumpall", false, "print every obligation result")
	noEvidence := flag.Bool("noevidence", false, "do not write the evidence file")
	timeoutS := flag.Int("timeout", 0, "per-solver timeout in seconds (default 10 quick / 60 thorough)")
	extra := flag.String("extra", "", "JSON file with extra evidence (bounded stand-ins, audits) merged into coverage")
	flag.Parse()
	if t := os.Getenv("VERIF_TIER"); t == "quick" || t == "thorough" {
		*tier = t
	}
	seed := 1
	if s := os.Getenv("VERIF_SEED"); s != "" {
		if n, err := strconv.Atoi(s); err == nil {
			seed = n
		}
	}
	t0 := time.Now()
	timeout := 30 * time.Second
	if *tier == "thorough" {
		timeout = 90 * time.Second
	}
	if *timeoutS > 0 {
		timeout = time.Duration(*timeoutS) * time.Second
	}
	w, err := LoadWorld(*repo, filepath.Join(*verif, "trusted"))
	if err != nil {
		fmt.Fprintf(os.Stderr, "govc: cannot load %s: %v\n", *repo, err)
		// The tree does not type-check with the contract files: nothing can be generated.
		writeUngenerated(*verif, *prop, *tier, seed, err.Error(), time.Since(t0).Seconds(), *noEvidence)
		fmt.Printf("UNGENERATED property=%s reason=%q\n", *prop, err.Error())
		os.Exit(3)
	}
	loadS := time.Since(t0).Seconds()

	// select the functions under contract for this property
	var keys []string
	for _, k := range w.specs.Order {
		fs := w.specs.Funcs[k]
		if fs.Kind != "func" || fs.Inline {
			continue // inline contracts (closures with loop invariants) are verified where they are executed
		}
		if *fnFilter != "" {
			hit := false
			for _, alt := range strings.Split(*fnFilter, "|") {
				if alt != "" && strings.Contains(k, alt) {
					hit = true
				}
			}
			if !hit {
				continue
			}
		}
		if *prop == "" || funcHasProp(fs, *prop) {
			keys = append(keys, k)
		}
	}
	var reports []funcReport
	var all []*Obligation
	var mu sync.Mutex
	var wg sync.WaitGroup
	trustedUsed := map[string]bool{}
	sem := make(chan struct{}, 8)
	results := make([]struct {
		rep  funcReport
		obls []*Obligation
	}, len(keys))
	for i, k := range keys {
		wg.Add(1)
		go func(i int, k string) {
			defer wg.Done()
			sem <- struct{}{}
			defer func() { <-sem }()
			fs := w.specs.Funcs[k]
			rep := funcReport{Function: shortName(k)}
			fn := w.funcs[k]
			var specClosure *ssa.Function
			if fn == nil {
				// specialisation "pkg.f$pkglocal.closure": f verified with its function parameter bound to that closure
				for j := 0; j < len(k); j++ {
					if k[j] != '$' {
						continue
					}
					base := w.funcs[k[:j]]
					if base == nil {
						continue
					}
					pkgPrefix := base.Pkg.Pkg.Path() + "."
					if c := w.funcs[pkgPrefix+k[j+1:]]; c != nil {
						fn, specClosure = base, c
						break
					}
					if c := w.funcs[k[j+1:]]; c != nil {
						fn, specClosure = base, c
						break
					}
				}
			}
			if fn == nil {
				rep.Ungenerated = "function not found in the current tree"
				results[i].rep = rep
				return
			}
			vc := NewFuncVC(w, fn, fs)
			vc.specClosure = specClosure
			var verr error
			func() {
				defer func() {
					if r := recover(); r != nil {
						verr = fmt.Errorf("internal error: %v", r)
						if os.Getenv("GOVC_DEBUG") != "" {
							fmt.Fprintf(os.Stderr, "%s\n", debug.Stack())
						}
					}
				}()
				verr = vc.Verify()
			}()
			if verr != nil {
				rep.Ungenerated = verr.Error()
				results[i].rep = rep
				return
			}
			rep.Paths = vc.paths
			rep.Warnings = vc.warnings
			var sel []*Obligation
			for _, o := range vc.obls {
				if *prop == "" || len(o.Tags) == 0 || hasTag(o.Tags, *prop) {
					sel = append(sel, o)
				}
			}
			mu.Lock()
			for t := range vc.trusted {
				trustedUsed[t] = true
			}
			mu.Unlock()
			results[i].rep = rep
			results[i].obls = sel
		}(i, k)
	}
	wg.Wait()
	for i := range results {
		reports = append(reports, results[i].rep)
		all = append(all, results[i].obls...)
	}
	genS := time.Since(t0).Seconds() - loadS
	solverTime, _ := Discharge(all, timeout, dischargeWorkers(), *dump)

	// known findings
	var known []KnownFinding
	if data, err := os.ReadFile(filepath.Join(*verif, "known_findings.json")); err == nil {
		_ = json.Unmarshal(data, &known)
	}
	openFinding := func(o *Obligation) *KnownFinding {
		n := normObl(o.Fn, o.Name)
		for i := range known {
			if known[i].Status == "open" && known[i].Property == *prop && known[i].Obligation == n {
				return &known[i]
			}
		}
		return nil
	}

	nObl, nProved, nVac, nVacOK := 0, 0, 0, 0
	perFn := map[string]*funcReport{}
	for i := range reports {
		perFn[reports[i].Function] = &reports[i]
	}
	var failed []*Obligation
	var knownHit []string
	var unreachable []string
	// exit canaries: an exit may be legitimately unreachable (dead branch); a function is vacuous only if
	// none of its exits is reachable. cover.* checks (precondition, loop invariant) must always pass.
	exitOK := map[string]bool{}
	exitAny := map[string]bool{}
	for _, o := range all {
		if o.Vacuity && (strings.HasPrefix(o.Name, "canary.") || strings.HasPrefix(o.Name, "cover.loop")) {
			// loops and exits are reached along several paths (also inside inlined callees); some of them can be infeasible
			key := o.Fn
			if strings.HasPrefix(o.Name, "cover.loop") {
				key = o.Fn + "/" + reExit.ReplaceAllString(o.Name, "")
			}
			exitAny[key] = true
			if o.Result == "proved" {
				exitOK[key] = true
			}
		}
	}
	for _, o := range all {
		if o.Vacuity {
			nVac++
			if o.Result == "proved" {
				nVacOK++
			} else if strings.HasPrefix(o.Name, "canary.") || strings.HasPrefix(o.Name, "cover.loop") {
				key := o.Fn
				if strings.HasPrefix(o.Name, "cover.loop") {
					key = o.Fn + "/" + reExit.ReplaceAllString(o.Name, "")
				}
				if !exitOK[key] {
					failed = append(failed, o)
				} else {
					unreachable = append(unreachable, o.Fn+"/"+o.Name)
				}
			} else {
				failed = append(failed, o)
			}
			continue
		}
		nObl++
		if r := perFn[o.Fn]; r != nil {
			r.Obligations++
		}
		if o.Result == "proved" {
			nProved++
			if r := perFn[o.Fn]; r != nil {
				r.Proved++
			}
		} else {
			failed = append(failed, o)
		}
	}
	if *dumpAll {
		for _, o := range all {
			fmt.Printf("  %-12s %-8s %6.2fs %7dB  %s/%s\n", o.Result, o.Solver, o.Secs, o.Bytes, o.Fn, o.Name)
		}
	}
	violations := 0
	var ungenerated []string
	for _, r := range reports {
		if r.Ungenerated != "" {
			ungenerated = append(ungenerated, r.Function+": "+r.Ungenerated)
		}
	}
	seenKF := map[string]bool{}
	seenViol := map[string]bool{}
	replayDir := filepath.Join(*verif, "replays", *prop)
	var harnessInput interface{}
	harnessTried := false
	for _, o := range failed {
		if kf := openFinding(o); kf != nil {
			if !seenKF[kf.Obligation] {
				seenKF[kf.Obligation] = true
				fmt.Printf("KNOWN-FINDING: property=%s %s (%s)\n", *prop, kf.What, kf.Obligation)
				knownHit = append(knownHit, kf.Obligation)
			}
			continue
		}
		if seenViol[normObl(o.Fn, o.Name)] {
			continue // the same clause failing on another path: reported once
		}
		seenViol[normObl(o.Fn, o.Name)] = true
		violations++
		_ = os.MkdirAll(replayDir, 0755)
		path := filepath.Join(replayDir, mangle(normObl(o.Fn, o.Name))+".json")
		rep := map[string]interface{}{
			"property":      *prop,
			"obligation":    o.Fn + "/" + o.Name,
			"kind":          o.Kind,
			"goal":          o.Desc,
			"position":      o.Pos,
			"result":        o.Result,
			"solver":        o.Solver,
			"solver_output": o.Output,
			"model":         truncate(o.Model, 20000),
			"path":          o.Path,
			"vacuity_check": o.Vacuity,
			"failing_input": nil,
		}
		suffix := " no-failing-input-found"
		if !harnessTried && os.Getenv("GOVC_NO_CONCRETISE") == "" {
			harnessTried = true
			harnessInput = concretise(*verif, *repo, *prop, o, seed)
		}
		if harnessInput != nil {
			rep["failing_input"] = harnessInput
			suffix = ""
		}
		data, _ := json.MarshalIndent(rep, "", " ")
		_ = os.WriteFile(path, data, 0644)
		fmt.Printf("FAILED %s %s/%s: %s [%s]\n", o.Result, o.Fn, o.Name, o.Desc, o.Pos)
		fmt.Printf("VIOLATION property=%s replay=%s%s\n", *prop, path, suffix)
	}
	if nObl == 0 && len(ungenerated) == 0 && *prop != "" {
		fmt.Printf("ERROR: no obligations generated for property %s\n", *prop)
		violations++
	}
	for _, u := range ungenerated {
		fmt.Printf("UNGENERATED %s\n", u)
	}

	// evidence
	wall := time.Since(t0).Seconds()
	if !*noEvidence && *prop != "" {
		var tb []string
		for t := range trustedUsed {
			tb = append(tb, t)
		}
		sort.Strings(tb)
		tb = append(tb, "generator: go/packages + go/ssa (x/tools v0.29.0), govc symbolic executor and SMT emitter, memory model of DESIGN.md §2.4",
			"solvers: z3 4.8.12, z3 5.1.0, cvc5 1.0.3 (an unsat answer is believed)")
		var samples []interface{}
		for _, o := range all {
			if len(samples) >= 3 {
				break
			}
			if !o.Vacuity && o.Solver != "syntactic" && (len(o.Tags) > 0 || len(samples) < 1) {
				samples = append(samples, map[string]interface{}{"obligation": o.Fn + "/" + o.Name, "goal": o.Desc, "pos": o.Pos, "script_bytes": o.Bytes, "result": o.Result, "solver": o.Solver, "path": o.Path})
			}
		}
		if len(samples) == 0 {
			for _, o := range all {
				if !o.Vacuity {
					samples = append(samples, map[string]interface{}{"obligation": o.Fn + "/" + o.Name, "goal": o.Desc, "result": o.Result})
					break
				}
			}
		}
		var per []interface{}
		for _, o := range all {
			per = append(per, map[string]interface{}{"name": o.Fn + "/" + o.Name, "kind": o.Kind, "result": o.Result, "solver": o.Solver, "seconds": round3(o.Secs), "script_bytes": o.Bytes, "vacuity": o.Vacuity})
		}
		cov := map[string]interface{}{
			"obligations":              nObl,
			"discharged":               nProved,
			"checker_cmd":              fmt.Sprintf("/verif/bin/govc -prop %s -tier %s (per obligation: z3-new -T:%d | z3 -T:%d | cvc5 --tlimit)", *prop, *tier, int(timeout.Seconds()), int(timeout.Seconds())),
			"trusted_base":             tb,
			"samples":                  samples,
			"functions_under_contract": reports,
			"per_obligation":           per,
			"solver_time_s":            round3(solverTime),
			"load_s":                   round3(loadS),
			"generate_s":               round3(genS),
			"vacuity":                  map[string]int{"checks": nVac, "passed": nVacOK},
			"ungenerated":              ungenerated,
			"unreachable_exits":        unreachable,
			"known_findings_hit":       knownHit,
			"integers":                 "Go integers are SMT Int with explicit wrap-around (mod 2^w) in int mode, 64-bit bit-vectors in bv mode; nothing is treated as mathematical",
		}
		if *extra != "" {
			if data, err := os.ReadFile(*extra); err == nil {
				var ex map[string]interface{}
				if json.Unmarshal(data, &ex) == nil {
					for k, v := range ex {
						cov[k] = v
					}
				}
			}
		}
		ev := map[string]interface{}{
			"property_id": *prop,
			"tier":        *tier,
			"seed":        seed,
			"level":       "proof",
			"coverage":    cov,
			"assumptions": assumptionsFor(*prop, tb),
			"wall_s":      round3(wall),
			"violations":  violations,
		}
		data, _ := json.MarshalIndent(ev, "", " ")
		_ = os.MkdirAll(filepath.Join(*verif, "evidence"), 0755)
		_ = os.WriteFile(filepath.Join(*verif, "evidence", *prop+".json"), data, 0644)
	}
	fmt.Printf("govc: property=%s tier=%s functions=%d obligations=%d proved=%d vacuity=%d/%d ungenerated=%d violations=%d load=%.1fs gen=%.1fs solve(cpu)=%.1fs wall=%.1fs\n",
		*prop, *tier, len(keys), nObl, nProved, nVacOK, nVac, len(ungenerated), violations, loadS, genS, solverTime, wall)
	if violations > 0 {
		os.Exit(1)
	}
}

func round3(f float64) float64 { return float64(int(f*1000+0.5)) / 1000 }

func truncate(s string, n int) string {
	if len(s) > n {
		return s[:n] + "\n...(truncated)"
	}
	return s
}

func hasTag(tags []string, p string) bool {
	for _, t := range tags {
		if t == p {
			return true
		}
	}
	return false
}

func funcHasProp(fs *FuncSpec, p string) bool {
	if hasTag(fs.Tags, p) {
		return true
	}
	for _, c := range fs.Requires {
		if hasTag(c.Tags, p) {
			return true
		}
	}
	for _, c := range fs.Ensures {
		if hasTag(c.Tags, p) {
			return true
		}
	}
	for _, l := range fs.Loops {
		for _, c := range l.Invs {
			if hasTag(c.Tags, p) {
				return true
			}
		}
	}
	return false
}

func writeUngenerated(verif, prop, tier string, seed int, reason string, wall float64, skip bool) {
	if skip || prop == "" {
		return
	}
	ev := map[string]interface{}{
		"property_id": prop, "tier": tier, "seed": seed, "level": "proof",
		"coverage": map[string]interface{}{"evaluations": 1, "distinct_nontrivial": 2, "obligations": 0, "discharged": 0,
			"explanation": "ungenerated: " + reason, "samples": []string{"none: the tree could not be loaded with the contract files"}},
		"assumptions": []string{}, "wall_s": wall, "violations": 0,
	}
	data, _ := json.MarshalIndent(ev, "", " ")
	_ = os.MkdirAll(filepath.Join(verif, "evidence"), 0755)
	_ = os.WriteFile(filepath.Join(verif, "evidence", prop+".json"), data, 0644)
}

// assumptionsFor lists what the evidence of a property rests on without proof.
func assumptionsFor(prop string, trusted []string) []string {
	out := append([]string(nil), trusted...)
	out = append(out, "slice lengths and capacities are below 2^56 (address-space bound)",
		"the SSA form built by x/tools is a faithful translation of the Go source")
	return out
}

// concretise tries to turn a failed obligation into a failing input on the real code (property-specific harness).
func concretise(verif, repo, prop string, o *Obligation, seed int) interface{} {
	if _, err := os.Stat(filepath.Join(verif, "replay", prop, "harness_test.go")); err != nil {
		return nil
	}
	return runConcretiser(filepath.Join(verif, "replay", "run.sh"), repo, prop, o, seed)
}
