package main

import (
	"fmt"

	_ "golang.org/x/tools/go/packages"
	_ "golang.org/x/tools/go/ssa"
	_ "golang.org/x/tools/go/ssa/ssautil"
)

func main() { fmt.Println("govc") }
