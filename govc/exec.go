package main

import (
	"fmt"
	"go/ast"
	"go/constant"
	"go/token"
	"go/types"
	"math/big"
	"os"
	"sort"
	"strings"
	"time"

	"golang.org/x/tools/go/ssa"
)

// Obligation is one proof goal with everything needed to discharge and report it.
type Obligation struct {
	Fn      string   `json:"function"`
	Name    string   `json:"name"`
	Kind    string   `json:"kind"`
	Tags    []string `json:"tags,omitempty"`
	Desc    string   `json:"goal"`
	Pos     string   `json:"pos,omitempty"`
	Script  string   `json:"-"`
	Bytes   int      `json:"script_bytes"`
	Result  string   `json:"result"` // proved | refuted | undischarged
	Solver  string   `json:"solver,omitempty"`
	Secs    float64  `json:"seconds"`
	Model   string   `json:"-"`
	Output  string   `json:"-"`
	Vacuity bool     `json:"vacuity,omitempty"` // cover/canary obligation: expected sat
	Skipped bool     `json:"skipped,omitempty"` // not attempted (the function already had too many undecided obligations)
	Path    []string `json:"-"`
}

type loopInfo struct {
	header   *ssa.BasicBlock
	ordinal  int
	blocks   map[*ssa.BasicBlock]bool
	rangeIdx *ssa.Phi
	iterKey  string
	spec     *LoopSpec
	mods     map[string]bool // heap names possibly modified (static); "*" = everything
	fn       *ssa.Function
}

type frame struct {
	fn        *ssa.Function
	regs      map[ssa.Value]Value
	defers    []deferred
	parent    *frame
	spec      *FuncSpec
	retK      func(st *State, res []Value)
	panicK    func(st *State)
	depth     int
	open      map[*ssa.BasicBlock]*openLoop
	inRecover bool
}

func (f *frame) clone() *frame {
	if f == nil {
		return nil
	}
	n := *f
	n.regs = make(map[ssa.Value]Value, len(f.regs))
	for k, v := range f.regs {
		n.regs[k] = v
	}
	n.defers = append([]deferred(nil), f.defers...)
	n.open = make(map[*ssa.BasicBlock]*openLoop, len(f.open))
	for k, v := range f.open {
		n.open[k] = v
	}
	n.parent = f.parent.clone()
	return &n
}

// FuncVC generates the verification conditions of one function.
type FuncVC struct {
	w              *World
	fn             *ssa.Function
	spec           *FuncSpec
	sc             *Script
	bv             bool
	heapSorts      map[string]Sort
	strLits        map[string]Term
	strOrder       []string
	closures       map[string]*ClosureVal
	obls           []*Obligation
	loops          map[*ssa.Function]map[*ssa.BasicBlock]*loopInfo
	entry          *State
	paths          int
	props          []string
	counts         map[string]int
	warnings       []string
	trusted        map[string]bool // trusted contracts / unspecified callees used
	axioms         []axiomT
	maxPaths       int
	cur            *frame // frame of the state being executed (set by exec functions)
	exits          int
	namedOnce      map[string]bool
	freshRefs      map[string]bool
	implFacts      []Term
	lastLess       string
	fieldInvs      map[string][]*FieldInv
	specClosure    *ssa.Function // specialisation: the function-typed parameter is this closure
	specClosureVal *ClosureVal
	curSelf        *Term // the function value being called through a function-type contract
	started        time.Time
}

type axiomT struct {
	name  string
	term  string
	syms  map[string]bool
	lemma bool // proved once per run from the axioms and lemmas before it (obligation lemma.<name>), then used like an axiom
}

func NewFuncVC(w *World, fn *ssa.Function, spec *FuncSpec) *FuncVC {
	vc := &FuncVC{w: w, fn: fn, spec: spec, sc: NewScript(), heapSorts: map[string]Sort{}, strLits: map[string]Term{},
		closures: map[string]*ClosureVal{}, loops: map[*ssa.Function]map[*ssa.BasicBlock]*loopInfo{}, counts: map[string]int{},
		trusted: map[string]bool{}, maxPaths: 4000, namedOnce: map[string]bool{}, freshRefs: map[string]bool{}}
	if spec != nil {
		vc.bv = spec.BV
	}
	return vc
}

// mkIface builds an interface value and seeds the solver's term graph with its (tautological) projections, so that
// quantifier patterns mentioning (i-ref x) match the constructed value.
func (vc *FuncVC) mkIface(tag, ref Term) Term {
	t := MkIface(tag, ref)
	key := "mk:" + t.S
	if !vc.namedOnce[key] && !strings.Contains(t.S, "!q") {
		vc.namedOnce[key] = true
		vc.implFacts = append(vc.implFacts, Eq(IRef(t), ref), Eq(ITag(t), tag))
	}
	return t
}

// globalFact records the type invariant of (the initial version of) a package-level variable.
func (vc *FuncVC) globalFact(t Term, gt types.Type) {
	if !strings.HasSuffix(t.S, ".0") {
		return
	}
	f := vc.rangeAssumption(t, gt)
	if f.S == "true" || vc.namedOnce["gf:"+f.S] {
		return
	}
	vc.namedOnce["gf:"+f.S] = true
	vc.implFacts = append(vc.implFacts, f)
}

func (vc *FuncVC) warn(f string, a ...interface{}) {
	m := fmt.Sprintf(f, a...)
	for _, x := range vc.warnings {
		if x == m {
			return
		}
	}
	vc.warnings = append(vc.warnings, m)
}

func (vc *FuncVC) pos(p token.Pos) string {
	if !p.IsValid() {
		return ""
	}
	pp := vc.w.fset.Position(p)
	return fmt.Sprintf("%s:%d", strings.TrimPrefix(pp.Filename, vc.w.repo+"/"), pp.Line)
}

// ---------------------------------------------------------------- obligations

func (vc *FuncVC) oblName(kind string) string {
	vc.counts[kind]++
	return fmt.Sprintf("%s#%d", kind, vc.counts[kind])
}

// emit records an obligation: under the path condition of st, goal must hold.
func (vc *FuncVC) emit(st *State, name, kind string, tags []string, goal Term, desc string, pos token.Pos) {
	if goal.S == "true" {
		// trivially true goals are still counted (they are discharged by construction), but need no solver
		vc.obls = append(vc.obls, &Obligation{Fn: shortName(vc.fn.String()), Name: name, Kind: kind, Tags: tags, Desc: desc, Pos: vc.pos(pos), Result: "proved", Solver: "syntactic"})
		return
	}
	o := &Obligation{Fn: shortName(vc.fn.String()), Name: name, Kind: kind, Tags: tags, Desc: desc, Pos: vc.pos(pos)}
	o.Script = vc.render(st, goal)
	o.Bytes = len(o.Script)
	o.Path = append([]string(nil), st.trace...)
	vc.obls = append(vc.obls, o)
}

func (vc *FuncVC) render(st *State, goal Term) string {
	assumptions := append([]Term(nil), st.pc...)
	assumptions = append(assumptions, vc.strAxioms()...)
	assumptions = append(assumptions, vc.implFacts...)
	// distinct functions have distinct function values
	var fns []string
	for _, d := range vc.sc.decls {
		if strings.HasPrefix(d.Name, "fn.") && len(d.Args) == 0 {
			fns = append(fns, d.Name)
		}
	}
	if len(fns) > 1 {
		assumptions = append(assumptions, Term{"(distinct " + strings.Join(fns, " ") + ")", SBool})
	}
	// relevance filtering of global axioms
	var tb strings.Builder
	tb.WriteString(goal.S)
	for _, a := range assumptions {
		tb.WriteByte(' ')
		tb.WriteString(a.S)
	}
	syms := headSymbols(tb.String())
	var ax []string
	used := make([]bool, len(vc.axioms))
	for changed := true; changed; {
		changed = false
		for i, a := range vc.axioms {
			if used[i] {
				continue
			}
			hit := false
			for s := range a.syms {
				if syms[s] {
					hit = true
					break
				}
			}
			if hit {
				used[i] = true
				changed = true
				for s := range a.syms {
					syms[s] = true
				}
			}
		}
	}
	for i, a := range vc.axioms {
		if used[i] {
			ax = append(ax, a.term)
		}
	}
	return vc.sc.Render(len(vc.sc.decls), ax, assumptions, goal, true)
}

// ---------------------------------------------------------------- loops

func (vc *FuncVC) loopsOf(fn *ssa.Function) map[*ssa.BasicBlock]*loopInfo {
	if l, ok := vc.loops[fn]; ok {
		return l
	}
	res := map[*ssa.BasicBlock]*loopInfo{}
	for _, b := range fn.Blocks {
		for _, s := range b.Succs {
			if s.Dominates(b) { // back edge b -> s
				li := res[s]
				if li == nil {
					li = &loopInfo{header: s, blocks: map[*ssa.BasicBlock]bool{s: true}, fn: fn}
					res[s] = li
				}
				// blocks that reach b without passing through s
				var stack []*ssa.BasicBlock
				if !li.blocks[b] {
					li.blocks[b] = true
					stack = append(stack, b)
				}
				for len(stack) > 0 {
					x := stack[len(stack)-1]
					stack = stack[:len(stack)-1]
					for _, p := range x.Preds {
						if !li.blocks[p] {
							li.blocks[p] = true
							stack = append(stack, p)
						}
					}
				}
			}
		}
	}
	var hs []*ssa.BasicBlock
	for h := range res {
		hs = append(hs, h)
	}
	sort.Slice(hs, func(i, j int) bool { return hs[i].Index < hs[j].Index })
	spec := vc.w.specFor(fn)
	if fn == vc.fn && vc.spec != nil {
		spec = vc.spec // the contract under verification (it may be one specialised to a closure)
	}
	for i, h := range hs {
		li := res[h]
		li.ordinal = i + 1
		if spec != nil {
			li.spec = spec.Loops[i+1]
		}
		for _, in := range h.Instrs {
			if phi, ok := in.(*ssa.Phi); ok && phi.Comment == "rangeindex" {
				li.rangeIdx = phi
			}
			if nx, ok := in.(*ssa.Next); ok {
				li.iterKey = iterKey(nx.Iter)
			}
		}
		li.mods = map[string]bool{}
		for b := range li.blocks {
			for _, in := range b.Instrs {
				before := li.mods["*"]
				vc.instrMods(in, li.mods, 0)
				if !before && li.mods["*"] && os.Getenv("GOVC_DEBUG") != "" {
					fmt.Fprintf(os.Stderr, "loop %d of %s: everything is modified because of %s (%s)\n", li.ordinal, fn.Name(), in, vc.pos(in.Pos()))
				}
			}
		}
	}
	vc.loops[fn] = res
	return res
}

func iterKey(v ssa.Value) string {
	return fmt.Sprintf("iter.%s.%s", v.Parent().Name(), v.Name())
}

// leafHeaps enumerates the leaf heap names below a location of type t with path prefix.
func (vc *FuncVC) leafHeaps(prefix string, t types.Type, out map[string]bool) {
	if s := vc.sortOf(t); s != "" {
		out[prefix] = true
		return
	}
	switch u := t.Underlying().(type) {
	case *types.Struct:
		// ghost fields declared on the type are part of the object (an unspecified method may change the abstract state)
		if n, ok := t.(*types.Named); ok {
			for _, g := range vc.w.specs.Ghosts {
				var pkg *types.Package
				if g.Pkg != "" {
					pkg = vc.w.typPkgs[g.Pkg]
				}
				if gt := vc.w.LookupType(g.Type, pkg); gt != nil && types.Identical(gt, n) {
					out[prefix+"."+g.Field] = true
				}
			}
		}
		if n, ok := t.(*types.Named); ok && !vc.isLocalStruct(n) {
			// external struct: only its scalar fields are modelled
			for i := 0; i < u.NumFields(); i++ {
				if vc.sortOf(u.Field(i).Type()) != "" {
					out[prefix+"."+u.Field(i).Name()] = true
				}
			}
			return
		}
		for i := 0; i < u.NumFields(); i++ {
			vc.leafHeaps(prefix+"."+u.Field(i).Name(), u.Field(i).Type(), out)
		}
	case *types.Array:
		vc.leafHeaps(prefix+"[]", u.Elem(), out)
	}
}

// addrHeaps: heap names a store through address v may write.
func (vc *FuncVC) addrHeaps(v ssa.Value, out map[string]bool) {
	pt, ok := v.Type().Underlying().(*types.Pointer)
	if !ok {
		out["*"] = true
		return
	}
	prefix := vc.addrPrefix(v)
	if prefix == "*" {
		out["*"] = true
		return
	}
	if prefix == "" {
		// whole object of pointee type
		if _, isStruct := pt.Elem().Underlying().(*types.Struct); isStruct {
			vc.leafHeaps(typeKey(pt.Elem()), pt.Elem(), out)
		} else if arr, isArr := pt.Elem().Underlying().(*types.Array); isArr {
			vc.leafHeaps("[]"+typeKey(arr.Elem()), arr.Elem(), out)
		} else {
			out["cell."+typeKey(pt.Elem())] = true
		}
		return
	}
	vc.leafHeaps(prefix, pt.Elem(), out)
}

// addrPrefix computes the heap path prefix of an address value ("" for whole objects, "*" unknown).
func (vc *FuncVC) addrPrefix(v ssa.Value) string {
	switch x := v.(type) {
	case *ssa.FieldAddr:
		st := x.X.Type().Underlying().(*types.Pointer).Elem()
		f := st.Underlying().(*types.Struct).Field(x.Field)
		p := vc.addrPrefix(x.X)
		if p == "*" {
			return "*"
		}
		if p == "" {
			return typeKey(st) + "." + f.Name()
		}
		return p + "." + f.Name()
	case *ssa.IndexAddr:
		switch u := x.X.Type().Underlying().(type) {
		case *types.Slice:
			return "[]" + typeKey(u.Elem())
		case *types.Pointer:
			arr := u.Elem().Underlying().(*types.Array)
			p := vc.addrPrefix(x.X)
			if p == "*" {
				return "*"
			}
			if p == "" {
				return "[]" + typeKey(arr.Elem())
			}
			return p + "[]"
		}
		return "*"
	case *ssa.Global:
		return "global." + x.Pkg.Pkg.Path() + "." + x.Name()
	default:
		return ""
	}
}

func (vc *FuncVC) instrMods(in ssa.Instruction, out map[string]bool, depth int) {
	switch x := in.(type) {
	case *ssa.Store:
		vc.addrHeaps(x.Addr, out)
	case *ssa.MapUpdate:
		mt := x.Map.Type().Underlying().(*types.Map)
		out["map."+typeKey(mt)] = true
		out["dom."+typeKey(mt)] = true
	case *ssa.Next:
		out[iterKey(x.Iter)] = true
	case *ssa.Alloc, *ssa.MakeMap, *ssa.MakeSlice, *ssa.MakeInterface, *ssa.MakeClosure:
		out["$alloc"] = true
		if a, ok := in.(*ssa.Alloc); ok {
			// zero-initialisation writes the object's leaves
			vc.addrHeaps(a, out)
		}
		if mi, ok := in.(*ssa.MakeInterface); ok {
			if vc.sortOf(mi.X.Type()) != SRef {
				out["box."+typeKey(mi.X.Type())] = true
			}
		}
		if ms, ok := in.(*ssa.MakeSlice); ok {
			el := ms.Type().Underlying().(*types.Slice).Elem()
			vc.leafHeaps("[]"+typeKey(el), el, out)
		}
		if mm, ok := in.(*ssa.MakeMap); ok {
			mt := mm.Type().Underlying().(*types.Map)
			out["map."+typeKey(mt)] = true
			out["dom."+typeKey(mt)] = true
		}
	case *ssa.Slice:
		out["$alloc"] = true
	case *ssa.Convert:
		out["$alloc"] = true
		if sl, ok := x.Type().Underlying().(*types.Slice); ok {
			vc.leafHeaps("[]"+typeKey(sl.Elem()), sl.Elem(), out)
		}
	case ssa.CallInstruction:
		vc.callMods(x.Common(), out, depth)
	}
}

func (vc *FuncVC) callMods(c *ssa.CallCommon, out map[string]bool, depth int) {
	out["$alloc"] = true
	if c.IsInvoke() {
		sp := vc.w.ifaceMethodSpec(c.Value.Type(), c.Method.Name())
		if sp == nil {
			// no interface contract: the call is dispatched to the implementations under contract (dispatchInvoke)
			if impls := vc.implsOf(c); len(impls) > 0 {
				for _, im := range impls {
					vc.specMods(vc.w.specFor(im.fn), im.fn, c, out)
				}
				return
			}
		}
		vc.specMods(sp, nil, c, out)
		return
	}
	switch f := c.Value.(type) {
	case *ssa.Builtin:
		switch f.Name() {
		case "append":
			sl := c.Args[0].Type().Underlying().(*types.Slice)
			vc.leafHeaps("[]"+typeKey(sl.Elem()), sl.Elem(), out)
		case "copy":
			sl := c.Args[0].Type().Underlying().(*types.Slice)
			vc.leafHeaps("[]"+typeKey(sl.Elem()), sl.Elem(), out)
		case "delete":
			mt := c.Args[0].Type().Underlying().(*types.Map)
			out["map."+typeKey(mt)] = true
			out["dom."+typeKey(mt)] = true
		}
		return
	case *ssa.Function:
		sp := vc.w.specFor(f)
		if sp == nil && vc.specClosure != nil {
			// a call that passes the closure this verification is specialised to uses the specialised contract
			name := vc.specClosure.String()
			if ssp := vc.w.specs.Funcs[f.String()+"$"+name]; ssp != nil {
				sp = ssp
			} else if f.Pkg != nil && vc.specClosure.Pkg == f.Pkg {
				if ssp := vc.w.specs.Funcs[f.String()+"$"+strings.TrimPrefix(name, f.Pkg.Pkg.Path()+".")]; ssp != nil {
					sp = ssp
				}
			}
		}
		switch f.String() {
		case "sort.Slice", "sort.SliceStable":
			// permutes the elements of its first argument; the comparison closure is evaluated purely
			if mi, ok := c.Args[0].(*ssa.MakeInterface); ok {
				if sl, ok := mi.X.Type().Underlying().(*types.Slice); ok {
					vc.leafHeaps("[]"+typeKey(sl.Elem()), sl.Elem(), out)
					return
				}
			}
			out["*"] = true
			return
		case "(*go.etcd.io/bbolt.DB).View", "(*go.etcd.io/bbolt.DB).Update":
			if sp != nil {
				vc.specMods(sp, f, c, out)
			}
			if mc, ok := c.Args[1].(*ssa.MakeClosure); ok && depth < 4 {
				for _, b := range mc.Fn.(*ssa.Function).Blocks {
					for _, in := range b.Instrs {
						vc.instrMods(in, out, depth+1)
					}
				}
				return
			}
			out["*"] = true
			return
		}
		if sp != nil && !sp.Inline {
			vc.specMods(sp, f, c, out)
			return
		}
		if f.Blocks != nil && depth < 4 && strings.HasPrefix(f.String(), modPath) || f.Parent() != nil {
			if f.Blocks != nil && depth < 4 {
				for _, b := range f.Blocks {
					for _, in := range b.Instrs {
						vc.instrMods(in, out, depth+1)
					}
				}
				return
			}
		}
		if f.Blocks == nil || !strings.HasPrefix(f.String(), modPath) {
			// library function without contract: same rule as at the call itself
			vc.argTypeMods(c, out)
			return
		}
		out["*"] = true
	case *ssa.MakeClosure:
		fn := f.Fn.(*ssa.Function)
		if depth < 4 {
			for _, b := range fn.Blocks {
				for _, in := range b.Instrs {
					vc.instrMods(in, out, depth+1)
				}
			}
			return
		}
		out["*"] = true
	default:
		// call through a function value: contract of the function type, if any
		if sp := vc.funcTypeSpec(c.Value.Type()); sp != nil {
			vc.specMods(sp, nil, c, out)
			return
		}
		out["*"] = true
	}
}

func (vc *FuncVC) funcTypeSpec(t types.Type) *FuncSpec {
	n, ok := t.(*types.Named)
	if !ok {
		return nil
	}
	key := "(" + typeKey(n) + ").call"
	sp := vc.w.specs.Funcs[key]
	return sp
}

func (vc *FuncVC) specMods(sp *FuncSpec, fn *ssa.Function, c *ssa.CallCommon, out map[string]bool) {
	if sp == nil || sp.ModAll {
		out["*"] = true
		return
	}
	var sig *types.Signature
	hasRecv := false
	var actuals []ssa.Value
	recvPrefix := ""
	if c.IsInvoke() && fn != nil && fn.Signature.Recv() != nil {
		// an interface call dispatched to this implementation: the receiver is the boxed pointer
		sig = fn.Signature
		hasRecv = true
		actuals = append([]ssa.Value{nil}, c.Args...)
		if pt, ok := fn.Signature.Recv().Type().Underlying().(*types.Pointer); ok {
			recvPrefix = typeKey(pt.Elem())
		} else {
			out["*"] = true
			return
		}
	} else if c.IsInvoke() {
		sig = c.Method.Type().(*types.Signature)
		hasRecv = true
		actuals = append([]ssa.Value{c.Value}, c.Args...)
		// build a signature with receiver for uniform handling
		sig = types.NewSignatureType(types.NewVar(token.NoPos, nil, "recv", c.Value.Type()), nil, nil, sig.Params(), sig.Results(), sig.Variadic())
	} else if fn != nil {
		sig = fn.Signature
		hasRecv = sig.Recv() != nil
		actuals = c.Args
	} else {
		sig = c.Value.Type().Underlying().(*types.Signature)
		actuals = c.Args
	}
	argPrefix := func(i int) (string, bool) {
		if i == 0 && recvPrefix != "" {
			return recvPrefix, true
		}
		if i < 0 || i >= len(actuals) {
			return "", false
		}
		if _, isPtr := actuals[i].Type().Underlying().(*types.Pointer); !isPtr {
			return "", true
		}
		p := vc.addrPrefix(actuals[i])
		if p == "*" {
			return "", false
		}
		return p, true
	}
	for _, chain := range vc.specChain(sp) {
		if chain.ModAll {
			out["*"] = true
		}
		names := vc.paramNames(chain, fn, sig, hasRecv)
		for _, m := range chain.Modifies {
			vc.staticModNames(chain, sig, hasRecv, names, m, argPrefix, out)
		}
	}
}

// paramNames returns the names under which contract sp sees the parameters (receiver first).
func (vc *FuncVC) paramNames(sp *FuncSpec, fn *ssa.Function, sig *types.Signature, hasRecv bool) []string {
	var names []string
	if fn != nil && len(fn.Params) > 0 {
		for _, p := range fn.Params {
			names = append(names, p.Name())
		}
	} else {
		if hasRecv {
			names = append(names, "recv")
		}
		for i := 0; i < sig.Params().Len(); i++ {
			names = append(names, sig.Params().At(i).Name())
		}
	}
	for i := range names {
		if i < len(sp.Params) {
			names[i] = sp.Params[i]
		}
	}
	return names
}

// specChain returns the contract and everything it inherits from.
func (vc *FuncVC) specChain(sp *FuncSpec) []*FuncSpec {
	var out []*FuncSpec
	seen := map[*FuncSpec]bool{}
	for sp != nil && !seen[sp] {
		seen[sp] = true
		out = append(out, sp)
		if sp.Inherits == "" {
			break
		}
		next := vc.w.specs.Funcs[sp.Inherits]
		if next == nil {
			panic(trError{fmt.Sprintf("contract %s inherits unknown %s", sp.Key, sp.Inherits)})
		}
		sp = next
	}
	return out
}

// resolveHeap maps a heap name written in a spec to the canonical heap name and its sort.
func (vc *FuncVC) resolveHeap(short string, pkg *types.Package) (string, Sort) {
	short = strings.TrimSpace(short)
	if s, ok := vc.heapSorts[short]; ok {
		return short, s
	}
	if short == "$alloc" {
		return short, ArraySort(SRef, SBool)
	}
	if strings.HasPrefix(short, "ghost.") {
		name := short[len("ghost."):]
		gs, ok := vc.w.specs.GhostVars[name]
		if !ok {
			trFail("unknown ghost variable %s", name)
		}
		s, _ := vc.specSort(gs, pkg)
		return "global.$ghost." + name, s
	}
	if strings.HasPrefix(short, "global.") {
		name := short[len("global."):]
		if k := strings.LastIndex(name, "."); k >= 0 {
			// global of another package: pkgname.Var
			for path, p := range vc.w.typPkgs {
				if p.Name() == name[:k] || path == name[:k] {
					if o := p.Scope().Lookup(name[k+1:]); o != nil {
						return "global." + p.Path() + "." + name[k+1:], vc.sortOf(o.Type())
					}
				}
			}
		}
		if pkg != nil {
			if o := pkg.Scope().Lookup(name); o != nil {
				return "global." + pkg.Path() + "." + name, vc.sortOf(o.Type())
			}
		}
		trFail("unknown global %s", name)
	}
	if strings.HasPrefix(short, "map[") {
		t := vc.w.LookupType(short, pkg)
		if t == nil {
			trFail("unknown map type %s", short)
		}
		mt := t.Underlying().(*types.Map)
		return "map." + typeKey(t), ArraySort(SRef, ArraySort(vc.mapKeySort(mt), vc.sortOf(mt.Elem())))
	}
	if strings.HasPrefix(short, "dom[") {
		t := vc.w.LookupType("map"+short[3:], pkg)
		if t == nil {
			trFail("unknown map type %s", short)
		}
		mt := t.Underlying().(*types.Map)
		return "dom." + typeKey(t), ArraySort(SRef, ArraySort(vc.mapKeySort(mt), SBool))
	}
	if strings.HasPrefix(short, "[]") {
		// []T or []T.f.g
		rest := short[2:]
		tname := rest
		var fields []string
		// split off field path: the type name may contain dots (pkg.T); try longest prefix that resolves
		parts := strings.Split(rest, ".")
		var t types.Type
		for k := len(parts); k >= 1; k-- {
			t = vc.w.LookupType(strings.Join(parts[:k], "."), pkg)
			if t != nil {
				tname = strings.Join(parts[:k], ".")
				fields = parts[k:]
				break
			}
		}
		_ = tname
		if t == nil {
			trFail("unknown element type in heap %s", short)
		}
		name := "[]" + typeKey(t)
		cur := t
		for _, f := range fields {
			st, ok := cur.Underlying().(*types.Struct)
			if !ok {
				trFail("heap %s: %s is not a struct", short, cur)
			}
			found := false
			for i := 0; i < st.NumFields(); i++ {
				if st.Field(i).Name() == f {
					cur = st.Field(i).Type()
					name += "." + f
					found = true
					break
				}
			}
			if !found {
				trFail("heap %s: no field %s", short, f)
			}
		}
		s := vc.sortOf(cur)
		if s == "" {
			trFail("heap %s is not a leaf", short)
		}
		return name, ArraySort(SRef, ArraySort(SInt, s))
	}
	if strings.HasPrefix(short, "cell.") || strings.HasPrefix(short, "box.") {
		t := vc.w.LookupType(short[strings.Index(short, ".")+1:], pkg)
		if t == nil {
			trFail("unknown type in heap %s", short)
		}
		return short[:strings.Index(short, ".")+1] + typeKey(t), ArraySort(SRef, vc.sortOf(t))
	}
	// T.f(.g)*
	parts := strings.Split(short, ".")
	for k := len(parts) - 1; k >= 1; k-- {
		t := vc.w.LookupType(strings.Join(parts[:k], "."), pkg)
		if t == nil {
			continue
		}
		name := typeKey(t)
		cur := t
		indexed := false
		ok := true
		var ghostSort Sort
		for _, f := range parts[k:] {
			if strings.HasSuffix(f, "[]") {
				f = strings.TrimSuffix(f, "[]")
			}
			if g := vc.w.ghostField(cur, f); g != nil {
				var gpkg *types.Package
				if g.Pkg != "" {
					gpkg = vc.w.typPkgs[g.Pkg]
				}
				gs, _ := vc.specSort(g.Sort, gpkg)
				ghostSort = gs
				name += "." + f
				continue
			}
			st, isS := cur.Underlying().(*types.Struct)
			if !isS {
				ok = false
				break
			}
			found := false
			for i := 0; i < st.NumFields(); i++ {
				if st.Field(i).Name() == f {
					cur = st.Field(i).Type()
					name += "." + f
					if arr, isArr := cur.Underlying().(*types.Array); isArr {
						cur = arr.Elem()
						name += "[]"
						indexed = true
					}
					found = true
					break
				}
			}
			if !found {
				ok = false
				break
			}
		}
		if !ok {
			continue
		}
		if ghostSort != "" {
			return name, ArraySort(SRef, ghostSort)
		}
		s := vc.sortOf(cur)
		if s == "" {
			trFail("heap %s is not a leaf", short)
		}
		if indexed {
			return name, ArraySort(SRef, ArraySort(SInt, s))
		}
		return name, ArraySort(SRef, s)
	}
	trFail("cannot resolve heap name %q", short)
	return "", ""
}

func (vc *FuncVC) declaredHeapSort(h string, pkg *types.Package) Sort {
	_, s := vc.resolveHeap(h, pkg)
	return s
}

func (vc *FuncVC) purePkg(pd *PureDecl) *types.Package {
	for _, p := range vc.w.pkgs {
		for _, f := range p.CompiledGoFiles {
			if f == pd.File {
				return p.Types
			}
		}
	}
	return nil
}

// ---------------------------------------------------------------- constants

func (vc *FuncVC) constValue(c *ssa.Const) Value {
	t := c.Type()
	if c.Value == nil {
		return vc.zero(t)
	}
	switch c.Value.Kind() {
	case constant.Bool:
		if constant.BoolVal(c.Value) {
			return tTrue
		}
		return tFalse
	case constant.Int:
		n, _ := new(big.Int).SetString(c.Value.ExactString(), 10)
		if vc.bv {
			return BVLit(new(big.Int).And(n, new(big.Int).SetUint64(^uint64(0))).Uint64())
		}
		return BigLit(n)
	case constant.String:
		return vc.strLit(constant.StringVal(c.Value))
	case constant.Float:
		return Term{"0.0", "Real"}
	}
	panic(trError{fmt.Sprintf("constant %s not supported", c)})
}

// ---------------------------------------------------------------- names for specs

// localNames maps source-level variable names visible at block b to SSA values (or addresses).
type localRef struct {
	v      ssa.Value
	isAddr bool
}

func (vc *FuncVC) localNames(fn *ssa.Function, at *ssa.BasicBlock) map[string]localRef {
	return vc.localNamesAt(fn, at, nil)
}

// localNamesAt: names visible just before instruction upto of block at (upto == nil: at the start of the block).
func (vc *FuncVC) localNamesAt(fn *ssa.Function, at *ssa.BasicBlock, upto ssa.Instruction) map[string]localRef {
	out := map[string]localRef{}
	// free variables (captured): pointers to the variables of the enclosing function
	for _, fv := range fn.FreeVars {
		out[fv.Name()] = localRef{fv, true}
	}
	// walk dominators from the entry down to 'at'
	var chain []*ssa.BasicBlock
	for b := at; b != nil; b = b.Idom() {
		chain = append(chain, b)
	}
	for i := len(chain) - 1; i >= 0; i-- {
		b := chain[i]
		for _, in := range b.Instrs {
			if b == at {
				if upto != nil {
					if in == upto {
						break
					}
				} else if _, ok := in.(*ssa.Phi); !ok {
					// at the start of the block only phis are visible
					if _, ok := in.(*ssa.DebugRef); !ok {
						break
					}
				}
			}
			switch x := in.(type) {
			case *ssa.Phi:
				if x.Comment != "" && x.Comment != "rangeindex" {
					out[x.Comment] = localRef{x, false}
				}
			case *ssa.DebugRef:
				id, ok := x.Expr.(*ast.Ident)
				if !ok {
					continue
				}
				if _, isVar := x.Object().(*types.Var); !isVar {
					continue
				}
				if prev, ok := out[id.Name]; ok && prev.isAddr && !x.IsAddr {
					if a, isAlloc := prev.v.(*ssa.Alloc); isAlloc && a.Comment == id.Name && a.Pos() == x.Object().Pos() {
						// the variable lives in memory (address taken): its cell is the source of truth
						continue
					}
				}
				if os.Getenv("GOVC_TRACE_IDENT") == id.Name {
					fmt.Fprintf(os.Stderr, "debugref %s at %s block %d -> %s (%T)\n", id.Name, vc.w.fset.Position(x.Pos()), b.Index, x.X.Name(), x.X)
				}
				out[id.Name] = localRef{x.X, x.IsAddr}
			case *ssa.Alloc:
				if x.Comment != "" && x.Comment != "complit" && !strings.Contains(x.Comment, " ") && !strings.HasPrefix(x.Comment, "new") {
					out[x.Comment] = localRef{x, true}
				}
			}
		}
	}
	for _, in := range at.Instrs {
		if phi, ok := in.(*ssa.Phi); ok && phi.Comment != "" && phi.Comment != "rangeindex" {
			out[phi.Comment] = localRef{phi, false}
		}
	}
	// parameters are visible unless a local declared later shadows them (as in Go); a contract can rename the
	// parameters in its header to reach a shadowed one
	for _, p := range fn.Params {
		if _, shadowed := out[p.Name()]; !shadowed {
			out[p.Name()] = localRef{p, false}
		}
	}
	return out
}

// ---------------------------------------------------------------- integer arithmetic

func typeBits(t types.Type) (bits uint, signed bool) {
	b := t.Underlying().(*types.Basic)
	signed = b.Info()&types.IsUnsigned == 0
	switch b.Kind() {
	case types.Int8, types.Uint8:
		bits = 8
	case types.Int16, types.Uint16:
		bits = 16
	case types.Int32, types.Uint32:
		bits = 32
	default:
		bits = 64
	}
	return
}

// wrap reduces a mathematical integer to the value range of type t (Go's wrap-around semantics).
func wrap(x Term, t types.Type) Term {
	bits, signed := typeBits(t)
	m := pow2(bits)
	if !signed {
		return mk(SInt, "mod", x, m)
	}
	h := pow2(bits - 1)
	return Sub(mk(SInt, "mod", Add(x, h), m), h)
}

// wrap1 is wrap for the result of ONE addition or subtraction of two in-range operands: the mathematical result is
// off by at most one modulus, so a case split replaces the (much slower) mod term. Exact under the type invariant.
func wrap1(x Term, t types.Type) Term {
	bits, signed := typeBits(t)
	m := pow2(bits)
	if !signed {
		return Ite(Lt(x, IntLit(0)), Add(x, m), Ite(Ge(x, m), Sub(x, m), x))
	}
	h := pow2(bits - 1)
	return Ite(Ge(x, h), Sub(x, m), Ite(Lt(x, mk(SInt, "-", h)), Add(x, m), x))
}

func isInteger(t types.Type) bool {
	b, ok := t.Underlying().(*types.Basic)
	return ok && b.Info()&types.IsInteger != 0
}

func isString(t types.Type) bool {
	b, ok := t.Underlying().(*types.Basic)
	return ok && b.Info()&types.IsString != 0
}

func isUnsigned(t types.Type) bool {
	b, ok := t.Underlying().(*types.Basic)
	return ok && b.Info()&types.IsUnsigned != 0
}
