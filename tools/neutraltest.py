#!/usr/bin/env python3
"""neutraltest.py: apply every property-preserving edit under <verif>/neutral to a scratch copy of the repository and run the
property's registered quick check there; the check must exit 0 (no alarm). Writes <verif>/neutral/RESULTS.json."""
import os,subprocess,shutil,tempfile,json,glob,time
VERIF=os.path.dirname(os.path.dirname(os.path.abspath(__file__)))
REPO=os.environ.get('SEED_REPO') or os.environ.get('VP_RUN_REPO') or '/repo'
ENV=dict(os.environ,GOFLAGS='-mod=mod',GOPROXY='off',GOSUMDB='off',GOTOOLCHAIN='local',GOVC_NO_CONCRETISE='1')
out=[]
for sd in sorted(glob.glob(VERIF+'/neutral/N*')):
    meta=json.load(open(sd+'/meta.json'))
    d=tempfile.mkdtemp(prefix='neutral-')
    try:
        subprocess.check_call(['rsync','-a','--exclude','.git',REPO.rstrip('/')+'/',d+'/'])
        subprocess.check_call(['patch','-p1','-s','-i',sd+'/patch.diff'],cwd=d)
        b=subprocess.run(['go','test','-vet=off','-count=1','./...'],cwd=d,env=ENV,capture_output=True,text=True)
        t0=time.time()
        g=subprocess.run([VERIF+'/check',meta['property'],'quick'],capture_output=True,text=True,env=dict(ENV,VERIF_REPO=d),cwd=VERIF,timeout=2400)
        lines=g.stdout.split('\n')
        r={'edit':os.path.basename(sd),'property':meta['property'],'title':meta['title'],'suite_passes':b.returncode==0,'check_exit':g.returncode,
           'ungenerated':[l[:160] for l in lines if l.startswith('UNGENERATED')][:3],'failed':[l[:160] for l in lines if l.startswith('FAILED')][:3],'seconds':round(time.time()-t0,1)}
        out.append(r)
        print('%-18s %-4s exit=%d %s %s'%(r['edit'],r['property'],r['check_exit'],'ungenerated->harness' if r['ungenerated'] else '',';'.join(r['failed'])[:150]),flush=True)
    finally:
        shutil.rmtree(d,ignore_errors=True)
json.dump(out,open(VERIF+'/neutral/RESULTS.json','w'),indent=1)
