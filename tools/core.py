#!/usr/bin/env python3
"""core.py script.smt2 — print an unsat core of the assertions (debug helper for vacuity failures)."""
import re,subprocess,sys
f=sys.argv[1]
s=open(f).read()
lines=s.split('\n');out=[];n=0;names={}
for l in lines:
    if l.startswith('(assert '):
        n+=1; names['a%d'%n]=l
        out.append('(assert (! %s :named a%d))'%(l[8:-1],n))
    elif l.startswith('(get-model'): out.append('(get-unsat-core)')
    else: out.append(l)
open('/tmp/core.smt2','w').write('(set-option :produce-unsat-cores true)\n'+'\n'.join(out))
for solver in (['z3-new','-T:30'],['cvc5','--tlimit=30000'],['z3','-T:30']):
    r=subprocess.run(solver+['/tmp/core.smt2'],capture_output=True,text=True).stdout
    print(solver[0], r[:100].replace('\n',' '))
    if r.startswith('unsat'):
        for c in re.findall(r'a\d+',r): print(c, names[c][:int(sys.argv[2]) if len(sys.argv)>2 else 500]); 
        break
