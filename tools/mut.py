#!/usr/bin/env python3
"""mut.py BASE PROP FILE 'old' 'new' [-- extra govc args]: copy BASE to a scratch dir, replace old by new in FILE (exactly one occurrence), run govc for PROP, print summary."""
import sys,subprocess,shutil,tempfile,os
base,prop,f,old,new=sys.argv[1:6]
d=tempfile.mkdtemp(prefix='mut-')
try:
    subprocess.check_call(['rsync','-a','--exclude','.git',base.rstrip('/')+'/',d+'/'])
    p=os.path.join(d,f); s=open(p).read()
    if s.count(old)!=1: print('PATTERN COUNT',s.count(old)); sys.exit(2)
    open(p,'w').write(s.replace(old,new))
    env=dict(os.environ,GOFLAGS='-mod=mod',GOPROXY='off',GOSUMDB='off',GOTOOLCHAIN='local')
    b=subprocess.run(['go','build','./...'],cwd=d,env=env,capture_output=True,text=True)
    if b.returncode!=0: print('BUILD FAIL',b.stderr[:500]); sys.exit(2)
    r=subprocess.run(['/verif/bin/govc','-repo',d,'-prop',prop,'-noevidence']+sys.argv[6:],capture_output=True,text=True,env=dict(env,GOVC_NO_CONCRETISE='1'))
    out=[l for l in r.stdout.split('\n') if l.startswith('FAILED') or l.startswith('govc:') or l.startswith('UNGEN') or l.startswith('ERROR')]
    print('\n'.join(x[:200] for x in out[:12]))
finally:
    shutil.rmtree(d)
