#!/usr/bin/env python3
"""seedtest.py [seed names...]: for every seeded defect under /verif/seeded apply it to a scratch copy of /repo's working tree,
run the property's deciding check (govc) and the real-code harness (quick) there, and report which of them detects it.
Writes /verif/seeded/RESULTS.json."""
import sys,os,subprocess,shutil,tempfile,json,glob,concurrent.futures,time
ENV=dict(os.environ,GOFLAGS='-mod=mod',GOPROXY='off',GOSUMDB='off',GOTOOLCHAIN='local',GOVC_NO_CONCRETISE='1')
names=sys.argv[1:] or sorted(os.path.basename(d) for d in glob.glob('/verif/seeded/C*'))
def one(name):
    sd=os.path.join('/verif/seeded',name)
    meta=json.load(open(os.path.join(sd,'meta.json')))
    prop=meta.get('property',name.split('_')[0])
    d=tempfile.mkdtemp(prefix='seedt-')
    res={'seed':name,'property':prop}
    try:
        subprocess.check_call(['rsync','-a','--exclude','.git','/repo/',d+'/'])
        r=subprocess.run(['git','apply','--unsafe-paths','--directory='+d,os.path.join(sd,'patch.diff')],cwd='/',capture_output=True,text=True)
        if r.returncode!=0:
            r=subprocess.run(['patch','-p1','-s','-i',os.path.join(sd,'patch.diff')],cwd=d,capture_output=True,text=True)
            if r.returncode!=0:
                res['error']='patch does not apply: '+(r.stdout+r.stderr)[-300:]; return res
        t0=time.time()
        g=subprocess.run(['/verif/bin/govc','-repo',d,'-prop',prop,'-noevidence'],capture_output=True,text=True,env=ENV,timeout=1500)
        res['govc_exit']=g.returncode
        res['govc_failed']=[l.split(':')[0].replace('FAILED ','') for l in g.stdout.split('\n') if l.startswith('FAILED')][:8]
        res['govc_ungenerated']=[l[:160] for l in g.stdout.split('\n') if l.startswith('UNGENERATED')][:4]
        res['govc_s']=round(time.time()-t0,1)
        t0=time.time()
        env=dict(ENV,VERIF_REPO=d,VERIF_BOUND='quick')
        envf=os.path.join('/verif/replay',prop,'env')
        if os.path.exists(envf):
            for l in open(envf):
                if '=' in l: k,v=l.strip().split('=',1); env[k]=v
        h=subprocess.run(['/verif/replay/run.sh',prop],capture_output=True,text=True,env=env,timeout=900)
        res['harness_exit']=h.returncode
        res['harness_what']=h.stdout[:300]
        res['harness_s']=round(time.time()-t0,1)
    except subprocess.TimeoutExpired:
        res['error']='timeout'
    finally:
        shutil.rmtree(d,ignore_errors=True)
    res['detected_by_govc']=res.get('govc_exit')==1
    res['detected_by_harness']=res.get('harness_exit')==10
    return res
out=[]
with concurrent.futures.ThreadPoolExecutor(max_workers=int(os.environ.get('SEEDTEST_PAR','3'))) as ex:
    for r in ex.map(one,names):
        out.append(r)
        print('%-8s %-4s govc=%s harness=%s %s %s'%(r['seed'],r['property'],'DETECT' if r.get('detected_by_govc') else ('ungen' if r.get('govc_ungenerated') else 'miss'),'DETECT' if r.get('detected_by_harness') else 'miss',';'.join(r.get('govc_failed',[])[:2])[:150],r.get('error','')),flush=True)
old={}
try: old={x['seed']:x for x in json.load(open('/verif/seeded/RESULTS.json'))}
except Exception: pass
for r in out: old[r['seed']]=r
json.dump(sorted(old.values(),key=lambda x:x['seed']),open('/verif/seeded/RESULTS.json','w'),indent=1)
