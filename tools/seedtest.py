#!/usr/bin/env python3
"""seedtest.py [seed names...]: for every seeded change under <verif>/seeded apply it to a scratch copy of the repository's
working tree, run the property's registered quick check there (VERIF_REPO=<copy>), and report what detects it:
  govc      a named obligation failed (FAILED lines)
  ungen     a function left the generator's subset and the R4 fallback harness found a failing input
  harness   only the bounded real-code harness found a failing input
  miss      the check exited 0
Writes <verif>/seeded/RESULTS.json. Paths: <verif> is the directory above this file; the repository is $SEED_REPO,
$VP_RUN_REPO or /repo."""
import sys,os,subprocess,shutil,tempfile,json,glob,concurrent.futures,time
VERIF=os.path.dirname(os.path.dirname(os.path.abspath(__file__)))
REPO=os.environ.get('SEED_REPO') or os.environ.get('VP_RUN_REPO') or '/repo'
ENV=dict(os.environ,GOFLAGS='-mod=mod',GOPROXY='off',GOSUMDB='off',GOTOOLCHAIN='local',GOVC_NO_CONCRETISE='1')
names=sys.argv[1:] or sorted(os.path.basename(d) for d in glob.glob(VERIF+'/seeded/C*'))
claimed=set()
try: claimed={c['property_id'] for c in json.load(open(VERIF+'/MANIFEST.json'))['checks']}
except Exception: pass
def one(name):
    sd=os.path.join(VERIF,'seeded',name)
    meta=json.load(open(os.path.join(sd,'meta.json')))
    prop=meta.get('property',name.split('_')[0])
    d=tempfile.mkdtemp(prefix='seedt-')
    res={'seed':name,'property':prop,'claimed':prop in claimed,'title':meta.get('title','')}
    try:
        subprocess.check_call(['rsync','-a','--exclude','.git',REPO.rstrip('/')+'/',d+'/'])
        r=subprocess.run(['git','apply','--unsafe-paths','--directory='+d,os.path.join(sd,'patch.diff')],cwd='/',capture_output=True,text=True)
        if r.returncode!=0:
            r=subprocess.run(['patch','-p1','-s','-i',os.path.join(sd,'patch.diff')],cwd=d,capture_output=True,text=True)
        if r.returncode!=0:
            res['error']='patch does not apply: '+(r.stdout+r.stderr)[-300:]; res['detected_by']='error'; return res
        t0=time.time()
        g=subprocess.run([VERIF+'/check',prop,'quick'],capture_output=True,text=True,env=dict(ENV,VERIF_REPO=d),timeout=2400,cwd=VERIF)
        out=g.stdout.split('\n')
        res['exit']=g.returncode
        res['failed_obligations']=sorted({l.split(':')[0].replace('FAILED ','').replace('undischarged ','').replace('refuted ','') for l in out if l.startswith('FAILED')})[:10]
        res['ungenerated']=[l[:200] for l in out if l.startswith('UNGENERATED')][:4]
        res['harness']=[l[:300] for l in out if l.startswith('HARNESS:')][:1]
        res['violation_lines']=len([l for l in out if l.startswith('VIOLATION')])
        res['seconds']=round(time.time()-t0,1)
    except subprocess.TimeoutExpired:
        res['error']='timeout'
    finally:
        shutil.rmtree(d,ignore_errors=True)
    if res.get('exit')==1 and res.get('failed_obligations'): res['detected_by']='govc'
    elif res.get('exit')==1 and res.get('ungenerated') and res.get('harness'): res['detected_by']='ungen+harness'
    elif res.get('exit')==1 and res.get('harness'): res['detected_by']='harness'
    elif res.get('exit')==0: res['detected_by']='miss'
    else: res['detected_by']='error'
    return res
out=[]
with concurrent.futures.ThreadPoolExecutor(max_workers=int(os.environ.get('SEEDTEST_PAR','2'))) as ex:
    for r in ex.map(one,names):
        out.append(r)
        print('%-8s %-4s %-14s %5ss %s %s'%(r['seed'],r['property'],r['detected_by'],r.get('seconds','-'),';'.join(r.get('failed_obligations',[])[:2])[:160],r.get('error','')),flush=True)
old={}
try: old={x['seed']:x for x in json.load(open(VERIF+'/seeded/RESULTS.json'))}
except Exception: pass
for r in out: old[r['seed']]=r
json.dump(sorted(old.values(),key=lambda x:x['seed']),open(VERIF+'/seeded/RESULTS.json','w'),indent=1)
