#!/usr/bin/env python3
"""seedverify.py <seed dir> [...]: confirm a seeded defect in a scratch copy of /repo HEAD:
   suite passes with the patch, demonstration fails with it and passes without it. On success copies it to /verif/seeded/<name>/."""
import sys,os,subprocess,shutil,tempfile,json,re,glob
ENV=dict(os.environ,GOFLAGS='-mod=mod',GOPROXY='off',GOSUMDB='off',GOTOOLCHAIN='local')
def sh(cmd,cwd,timeout=600):
    try:
        r=subprocess.run(cmd,cwd=cwd,env=ENV,capture_output=True,text=True,errors='replace',timeout=timeout,shell=isinstance(cmd,str))
        return r.returncode,(r.stdout+r.stderr)
    except subprocess.TimeoutExpired as e:
        return 124,'TIMEOUT'
def demo_info(path):
    src=open(path).read()
    head='\n'.join(src.split('\n')[:12])
    pkgdir='.'
    m=re.search(r'(?:directory|dir|belongs in|package directory)[^\n]*?[`"\s(]((?:cmd|internal|driver)[\w/]*|repository root|\./[\w/]+|\.)',head)
    for cand in ['cmd/updog','internal/queryparser','internal/convert','internal/openfile','driver']:
        if cand in head: pkgdir=cand; break
    pk=re.search(r'^package (\w+)',src,re.M).group(1)
    if pkgdir=='.' and pk=='main': pkgdir='cmd/updog'
    if pkgdir=='.' and pk=='queryparser': pkgdir='internal/queryparser'
    if pkgdir=='.' and pk in('driver','driver_test'): pkgdir='driver'
    tests=re.findall(r'^func (Test\w+)\(',src,re.M)
    race='-race' in head
    return pkgdir,tests,race
ok_all=True
for sd in sys.argv[1:]:
    name=os.path.basename(sd.rstrip('/'))
    patch=os.path.join(sd,'patch.diff')
    demos=glob.glob(os.path.join(sd,'demo*_test.go'))+glob.glob(os.path.join(sd,'*_test.go'))
    demos=list(dict.fromkeys(demos))
    if not os.path.exists(patch) or not demos:
        print(name,'SKIP: missing patch or demo'); ok_all=False; continue
    d=tempfile.mkdtemp(prefix='seedv-')
    try:
        sh(['git','-C','/repo','worktree','add','-q','--detach',d,'HEAD'],'/')
        pkgdir,tests,race=demo_info(demos[0])
        run='^('+'|'.join(tests)+')$'
        def put_demo():
            for i,dm in enumerate(demos):
                shutil.copy(dm,os.path.join(d,pkgdir,'zz_seed_%s_%d_test.go'%(name,i)))
        def del_demo():
            for f in glob.glob(os.path.join(d,pkgdir,'zz_seed_*_test.go')): os.remove(f)
        # 1. demo passes on unchanged tree
        put_demo()
        rc0,out0=sh(['go','test','-vet=off','-count=1','-timeout','300s']+(['-race'] if race else [])+['-run',run,'./'+pkgdir],d)
        del_demo()
        # 2. apply patch; suite passes
        rca,outa=sh(['git','apply',patch],d)
        rcs,outs=sh(['go','test','-vet=off','-count=1','./...'],d)
        # 3. demo fails with patch
        put_demo()
        rc1,out1=sh(['go','test','-vet=off','-count=1','-timeout','300s']+(['-race'] if race else [])+['-run',run,'./'+pkgdir],d)
        if rc1==0 and not race:
            # schedule dependent demos may need the race detector
            rc1,out1=sh(['go','test','-race','-vet=off','-count=1','-timeout','300s','-run',run,'./'+pkgdir],d)
            if rc1!=0: race=True
        del_demo()
        good = rc0==0 and rca==0 and rcs==0 and rc1!=0
        print(name,'OK' if good else 'BAD','clean_demo=%d apply=%d suite=%d patched_demo=%d pkg=%s tests=%s race=%s'%(rc0,rca,rcs,rc1,pkgdir,tests,race))
        if not good:
            ok_all=False
            print((out0 if rc0 else '')[-600:], (outa if rca else '')[-300:], (outs if rcs else '')[-600:])
            continue
        dst=os.path.join('/verif/seeded',name)
        shutil.rmtree(dst,ignore_errors=True); os.makedirs(dst)
        shutil.copy(patch,os.path.join(dst,'patch.diff'))
        for dm in demos: shutil.copy(dm,os.path.join(dst,os.path.basename(dm)))
        meta={}
        try: meta=json.load(open(os.path.join(sd,'meta.json')))
        except Exception: pass
        meta['confirmed']={'by':'tools/seedverify.py in a scratch worktree of /repo HEAD','repo_head':subprocess.run(['git','-C','/repo','rev-parse','--short','HEAD'],capture_output=True,text=True).stdout.strip(),
            'demo_package_dir':pkgdir,'demo_tests':tests,'race_detector':race,
            'ran':['go test -run %s ./%s on the unchanged tree: pass'%(run,pkgdir),'git apply patch.diff; go test -vet=off -count=1 ./...: pass','go test -run %s ./%s with the patch: FAIL'%(run,pkgdir)]}
        json.dump(meta,open(os.path.join(dst,'meta.json'),'w'),indent=1)
    finally:
        sh(['git','-C','/repo','worktree','remove','--force',d],'/')
        shutil.rmtree(d,ignore_errors=True)
sys.exit(0 if ok_all else 1)
