#!/usr/bin/env python3
"""skolem.py script.smt2 [-t secs] ['(extra assertion over the skolem constants)' ...]: replace the quantified goal
(assert (not (forall ((v S)...) BODY))) by constants and (assert (not BODY)); run z3-new (debug helper)."""
import sys,subprocess,re
args=sys.argv[1:]; f=args.pop(0); to='30'
if args and args[0]=='-t': args.pop(0); to=args.pop(0)
s=open(f).read().replace('(get-model)','')
i=s.rindex('(assert (not (forall (')
head=s[:i]; g=s[i+len('(assert (not (forall '):]
# binder list
d=0
for j,ch in enumerate(g):
    if ch=='(':d+=1
    elif ch==')':
        d-=1
        if d==0: break
binders=g[:j+1]; rest=g[j+1:]
body=rest[:rest.index('\n(check-sat)')].strip()
body=body[:-3] if body.endswith(')))') else body
decl=''.join('(declare-const %s %s)\n'%(m.group(1),m.group(2)) for m in re.finditer(r'\((\S+) ((?:\([^()]*(?:\([^()]*\))*[^()]*\))|[^()\s]+)\)',binders[1:-1]))
out=head+decl+''.join('(assert %s)\n'%e for e in args)+'(assert (not '+body+'))\n(check-sat)\n'
open('/tmp/sk.smt2','w').write(out)
r=subprocess.run(['z3-new','-T:'+to,'/tmp/sk.smt2'],capture_output=True,text=True).stdout.strip()
print(r[:300])
