#!/usr/bin/env python3
"""Regenerates section A of DESIGN.md from tools/asbuilt.md and seeded/RESULTS.json."""
import json
r=json.load(open('/verif/seeded/RESULTS.json'))
rows=[]
for x in r:
    how=x['detected_by']
    ob=', '.join(x.get('failed_obligations',[])[:2])
    if how=='govc': what='obligation: `'+ob.replace('|','/')[:150]+'`'
    elif how=='ungen+harness': what='function leaves the subset ('+ (x.get('ungenerated') or [''])[0].split(': ',1)[-1][:90]+'), bounded harness finds a failing input'
    elif how=='harness': what='bounded harness only (no contract on the changed code yet)'
    else: what=how
    rows.append('| %s | %s | %s | %s |'%(x['seed'],x.get('title','')[:110].replace('|','/'),how,what))
tab='`tools/seedtest.py` applies each change in `seeded/` to a scratch copy of the working tree and runs the registered quick check there. Last run (every change compiles and passes the 61 tests):\n\n| seed | change | caught by | how |\n|---|---|---|---|\n'+'\n'.join(rows)
cnt={}
for x in r: cnt[x['detected_by']]=cnt.get(x['detected_by'],0)+1
tab+='\n\nTotals: '+', '.join('%s %d'%(k,v) for k,v in sorted(cnt.items()))+'. '+open('/verif/tools/seednotes.md').read()
try:
    nr=json.load(open('/verif/neutral/RESULTS.json'))
    ntab='; '.join('%s (%s): exit %d%s'%(x['edit'],x['property'],x['check_exit'],' via R4 fallback' if x.get('ungenerated') else '') for x in nr)+'.'
except Exception:
    ntab='(not run yet).'
asbuilt=open('/verif/tools/asbuilt.md').read().replace('SEEDTABLE',tab).replace('NEUTRALTABLE',ntab)
p='/verif/DESIGN.md'
s=open(p).read()
a=s.index('## A. As built'); b=s.index('---------------------------------------------------------------------------\n\n## 0. Summary table')
s=s[:a]+asbuilt+'\n'+s[b:]
open(p,'w').write(s)
print('DESIGN.md section A regenerated;',cnt)
