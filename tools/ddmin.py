#!/usr/bin/env python3
"""ddmin.py script.smt2 [solver] — minimise the set of assertions that is still unsat (debug helper for vacuity failures)."""
import sys,subprocess
f=sys.argv[1]; solver=(sys.argv[2] if len(sys.argv)>2 else 'z3-new')
lines=open(f).read().split('\n')
head=[l for l in lines if not l.startswith('(assert ') and not l.startswith('(check-sat') and not l.startswith('(get-model')]
asserts=[l for l in lines if l.startswith('(assert ')]
def unsat(sub):
    open('/tmp/dd.smt2','w').write('\n'.join(head+sub+['(check-sat)']))
    cmd=[solver,'-T:30','/tmp/dd.smt2'] if solver.startswith('z3') else [solver,'--tlimit=30000','/tmp/dd.smt2']
    r=subprocess.run(cmd,capture_output=True,text=True).stdout
    return r.startswith('unsat')
assert unsat(asserts),'not unsat to begin with'
n=2
cur=asserts
while len(cur)>=2:
    chunk=max(1,len(cur)//n)
    reduced=False
    for i in range(0,len(cur),chunk):
        sub=cur[:i]+cur[i+chunk:]
        if sub and unsat(sub):
            cur=sub; n=max(n-1,2); reduced=True; break
    if not reduced:
        if chunk==1: break
        n=min(len(cur),n*2)
print(len(cur),'assertions remain:')
for a in cur: print(a[:700])
