#!/usr/bin/env python3
"""splitgoal.py script.smt2 [timeout]: if the goal is (not (forall B (=> G (and c1..cn)))) or (not (and c1..cn)), try every conjunct separately (debug helper)."""
import sys,subprocess
f=sys.argv[1]; to=sys.argv[2] if len(sys.argv)>2 else '20'
s=open(f).read().replace('(get-model)','')
i=s.rindex('(assert (not ')
head=s[:i]; g=s[i+len('(assert (not '):]
g=g[:g.index('\n(check-sat)')]
g=g[:-2]  # strip "))"
def parse(t,p=0):
    # returns (node,newpos); node = str atom or list
    while t[p]==' ': p+=1
    if t[p]=='(':
        p+=1; out=[]
        while True:
            while t[p]==' ': p+=1
            if t[p]==')': return out,p+1
            n,p=parse(t,p); out.append(n)
    q=p
    if t[p]=='|':
        q=t.index('|',p+1)+1
    else:
        while t[q] not in ' ()': q+=1
    return t[p:q],q
def show(n): return n if isinstance(n,str) else '('+' '.join(show(x) for x in n)+')'
tree,_=parse(g)
def conj(n):
    if isinstance(n,list) and n and n[0]=='and': return n[1:]
    return [n]
wrap=lambda x:x
body=tree
ctx=[]
while True:
    if isinstance(body,list) and body and body[0]=='forall':
        b=body; ctx.append(('forall',show(b[1]))); body=b[2]
    elif isinstance(body,list) and body and body[0]=='=>' and len(body)==3:
        ctx.append(('=>',show(body[1]))); body=body[2]
    elif isinstance(body,list) and body and body[0]=='!':
        body=body[1]
    else: break
cs=conj(body)
print(len(cs),'conjuncts')
for k,c in enumerate(cs):
    t=show(c)
    for kind,x in reversed(ctx):
        t='(forall %s %s)'%(x,t) if kind=='forall' else '(=> %s %s)'%(x,t)
    open('/tmp/sg.smt2','w').write(head+'(assert (not '+t+'))\n(check-sat)\n')
    r=[]
    for solver in (['z3-new','-T:'+to],['cvc5','--tlimit=%d'%(int(to)*1000)]):
        o=subprocess.run(solver+['/tmp/sg.smt2'],capture_output=True,text=True).stdout.strip().split('\n')[0]
        r.append(solver[0]+'='+o)
        if o=='unsat': break
    print(k,show(c)[:150].replace('\n',' '),'->',' '.join(r))
