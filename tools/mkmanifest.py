#!/usr/bin/env python3
"""Regenerates /verif/MANIFEST.json from the table below (claimed checks) and properties.jsonl (everything else -> not_applicable)."""
import json,subprocess
props=[json.loads(l) for l in open('/verif/properties.jsonl')]
NOTE_COMMON=("Trusted base: the generator (go/packages, go/ssa from x/tools v0.29.0, govc's symbolic executor, memory model and SMT emitter), "
 "the SMT solvers (z3 4.8.12, z3 5.1.0, cvc5 1.0.3), the assumed library contracts in /verif/trusted/*.spec named in the evidence file, "
 "the theory axioms of /verif/trusted/theory.spec, every `assumes` clause listed in the evidence, slice lengths < 2^56. ")
CLAIMS={
 "C07":dict(
   text=("Unbounded proof by contracts on the real functions: LRUCache.Get and LRUCache.Put (cache.go) are verified against postconditions taken from the property "
         "(hit returns the bitmap last stored under that key; byte bound after every Put also on overwrite; strict least-recently-used eviction with Put and Get-hit counting as use; "
         "an entry that fits is retrievable; nothing is evicted while everything fits; exact hit/miss/get/put counters) together with the representation invariant LRUInv "
         "(map/list bijection, recorded size = bitmap size, curSize = sum of costs), a loop invariant and variant for the eviction loop, frame conditions and panic-freedom. "
         "Every obligation is regenerated from /repo's SSA on each run and discharged by SMT; no bound on the number of operations, keys or sizes."),
   note=NOTE_COMMON+"container/list is modelled by recency stamps (list.spec); roaring's GetSizeInBytes is an uninterpreted function of the bitmap's content; "
        "uint64 overflow of the byte counter is excluded by the stated assumption `nowrap`; sequences of operations are covered through the invariant (each operation is verified from any state satisfying it). "
        "The real-code harness /verif/replay/C07 (exhaustive short Put/Get sequences against a reference LRU) runs as a bounded stand-in and is never counted as proved.",
   design="§4 C07, Appendix A", technique="contract-based deductive verification (VCs from go/ssa, SMT)"),
}
def sh(*a): return subprocess.run(a,capture_output=True,text=True).stdout.strip()
hook_commits=[l.split()[0] for l in sh('git','-C','/repo','log','--format=%h %s').split('\n') if 'verif hook' in l]
checks=[]
for p in props:
    i=p['id']
    if i in CLAIMS:
        c=CLAIMS[i]
        checks.append({"property_id":i,"quick_cmd":f"./check {i} quick","thorough_cmd":f"./check {i} thorough","evidence_file":f"/verif/evidence/{i}.json",
          "replay_cmd_template":"./check --replay {path}","engine":"govc",
          "level_claimed":{"category":"proof","text":c['text'],"design_ref":c['design']},"level_note":c['note'],"technique":c['technique']})
NA_REASONS={}
try: NA_REASONS=json.load(open('/verif/tools/na_reasons.json'))
except Exception: pass
na=[{"property_id":p['id'],"reason":NA_REASONS.get(p['id'],"contracts not completed yet (build in progress): no obligations are claimed for this property")} for p in props if p['id'] not in CLAIMS]
m={"version":1,"setup_cmd":"cd /verif && ./setup.sh",
 "hooks":{"guard":"verif","enable":"contract files zz_contracts_verif.go carry `//go:build verif` and contain comments only; govc loads /repo with -tags=verif","baseline_off_cmd":"cd /repo && GOFLAGS=-mod=mod GOPROXY=off GOSUMDB=off GOTOOLCHAIN=local go test -vet=off -count=1 ./...","source_commits":hook_commits,"add_only":True},
 "engines":[{"name":"govc","path":"/verif/govc","serves_properties":sorted(CLAIMS),"kind_free_text":"self-written deductive verifier for Go: contracts as //@ comments in /repo/*/zz_contracts_verif.go (build tag verif), verification conditions generated from go/ssa of the working tree by symbolic execution between cut points, discharged by z3 4.8.12 / z3 5.1.0 / cvc5 1.0.3"},
            {"name":"replay harnesses","path":"/verif/replay","serves_properties":sorted(CLAIMS),"kind_free_text":"in-package real-code oracle tests injected with go test -overlay: replay of counterexamples, bounded stand-in, fallback for ungenerated functions (never counted as proved)"}],
 "checks":checks,
 "notes":"See /verif/DESIGN.md. Known findings and fixed defects: /verif/known_findings.json.",
 "not_applicable":na}
json.dump(m,open('/verif/MANIFEST.json','w'),indent=1)
print("claimed:",sorted(CLAIMS),"n/a:",len(na))
