#!/bin/bash
# seedone.sh <seed> [govc args...]: apply one seeded change to a scratch copy of /repo's working tree and run govc for its property
s="$1"; shift
p="${s%%_*}"
d=$(mktemp -d /tmp/seedone-XXXX)
rsync -a --exclude .git /repo/ "$d/"
( cd "$d" && patch -p1 -s < /verif/seeded/$s/patch.diff ) || { echo "patch failed"; rm -rf "$d"; exit 2; }
GOVC_NO_CONCRETISE=1 /verif/bin/govc -repo "$d" -prop "$p" -noevidence "$@" 2>&1 | grep "FAILED\|govc:\|UNGEN" | cut -c1-230 | head -8
rm -rf "$d"
