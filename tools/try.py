#!/usr/bin/env python3
"""try.py script.smt2 ['(extra assertion)' ...] — add hypotheses before the goal and run the solvers (debug helper)."""
import sys,subprocess,re
f=sys.argv[1]; extra=sys.argv[2:]
s=open(f).read()
i=s.rindex('(assert (not ')
s2=s[:i]+''.join('(assert %s)\n'%e for e in extra)+s[i:]
s2=s2.replace('(get-model)','')
open('/tmp/try.smt2','w').write(s2)
for solver in (['z3-new','-T:20'],['z3','-T:20'],['cvc5','--tlimit=20000']):
    r=subprocess.run(solver+['/tmp/try.smt2'],capture_output=True,text=True).stdout
    print(solver[0], r.strip()[:200])
